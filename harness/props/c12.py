"""C12 — GroupBy aggregates equal a reference partition-and-fold.

Three parties on every case (guide, "three-way discipline"):

* the implementation: ``DataFrame(...).group_by(keys).aggregate(reqs)`` (or a wrapper
  ``min/max/sum/avg/count``, or ``groups()``), list-, generator- or dictionary-backed;
* the Lean model ``Model/GroupBy.lean`` through the native driver (op ``aggregate`` / ``groups``);
* ``mirror``: the partition-and-fold specification written directly in Python with exact
  ``Fraction`` arithmetic.  Lean model != mirror is a harness bug (exit 2).

The oracle evaluates the property on the implementation's own output: one row per distinct key,
keys never merged, every ``FUNC(col)`` cell equal to the reference over the group's non-null
values, columns found *by name* and rows matched *by key* (the property leaves output order
open), the same result for every permutation of the rows and for every backing.

Numbers.  The model computes on integers.  A case stores the cells of its value columns
(``vcols``) as integers ``x`` (or null) together with ``scale`` S; the value the implementation
sees is ``x / S`` — the int ``x`` when S = 1, the float ``x / S`` otherwise (with ``mixed`` the
multiples of S stay ints) — so floats are dyadic and every sum is exact and order independent.
MIN, MAX, SUM and AVG commute with the scaling, COUNT ignores it; the mirror does not use this
(it folds the real values), so the scaling itself is checked by model == mirror.

Round 3: value kind ``xfloat`` (NaN, the infinities and -0.0 among the floats; a NaN is a value, not a
null), ``append`` elements in sequences (the frame is mutated between calls), the ``decoy`` backing (the
same calls on another frame with the same column names first) and ``self_contained`` (a failing input is
confirmed in a fresh interpreter before it is reported).

Round 4: ``keq`` cases — key columns that hold values which are EQUAL but written differently (``1``,
``1.0``, ``True``; ``0``, ``0.0``, ``-0.0``, ``False``; composite keys that differ only in such a
component).  "Partitions the rows by equality of their key values" is Python's ``==`` there: the mirror
partitions by ``==``, rows are matched by ``==`` of their keys (which member of a class the result shows
is not demanded), the Lean model is ``Model/GroupByEq.lean`` (dictionaries looked up by an equivalence;
Python's ``==`` on scalars as exact numerical equality).  All other cases stay in the domain where ``==``
and structural equality coincide, as before.  Every cell handed to the implementation is a fresh object
(equal keys are never identical objects by accident).
"""
import glob
import itertools
import json
import math
import os
from decimal import Decimal
from fractions import Fraction

from .. import wire
from ..core import VERIF, InfraError, shrink, unjson

FUNCS = ["MIN", "MAX", "SUM", "COUNT", "AVG"]
WRAPPERS = {"min": "MIN", "max": "MAX", "sum": "SUM", "avg": "AVG"}
AVG_REL_TOL = Fraction(1, 10**25)


# --------------------------------------------------------------------------- the case


# Text values travel as their rank in this list (sorted by code point, which is how Python orders str):
# MIN / MAX / COUNT commute with the order embedding rank -> text, so the integer model applies.
TEXT_RANKS = sorted(["", " ", "A", "B", "Z", "a", "ab", "abc", "b", "z", "é", "日本", "10", "9"])
DECIMAL_SCALES = (10, 100, 1000)

# vkind "xfloat": a float column that may hold the non-finite floats and the negative zero.  A NaN is a
# value, not a null (the statement folds "that group's non-null values"; C15 reads NaN the same way): COUNT
# counts it, SUM and AVG of a group that holds one are NaN.  Cells travel as the integer x of x / scale, or
# one of these tokens; the Lean model (Model/GroupByX.lean) computes on `XVal` = finite | +inf | -inf | NaN.
XTOKENS = {"nan": float("nan"), "inf": float("inf"), "-inf": float("-inf"), "-0": -0.0}
# aggregate cells that are not numbers: ("x", "nan" | "inf" | "-inf"), and ("x", "?") for MIN / MAX over a
# group that holds a NaN (Python's walk depends on the row order there: outside the demand, never judged)
X_NAN, X_PINF, X_NINF, X_ANY = ("x", "nan"), ("x", "inf"), ("x", "-inf"), ("x", "?")


def is_special(v):
    return isinstance(v, (tuple, list)) and len(v) == 2 and v[0] == "x"


def actual_value(x, scale, mixed, vkind="number", negzero=False):
    if x is None:
        return None
    if vkind == "text":
        return TEXT_RANKS[x]
    if vkind == "bool":
        return bool(x)  # cells are 0 / 1; Python counts True as 1 in sum()
    if vkind == "xfloat":
        if isinstance(x, str):
            return XTOKENS[x]
        if mixed and x % scale == 0:
            return x // scale  # an int among the floats
        return x / scale
    if vkind == "decimal":
        if mixed and x % scale == 0:
            return x // scale  # an int among the Decimals: int + Decimal is exact
        return Decimal(x).scaleb(-(len(str(scale)) - 1))  # exactly x / scale
    if scale == 1:
        return x
    if mixed and x % scale == 0:
        return x // scale
    if negzero and x == 0:
        return -0.0
    return x / scale


def actual_rows(case):
    cols = case["columns"]
    vidx = {i for i, c in enumerate(cols) if c in case["vcols"]}
    s, m, k, z = case.get("scale", 1), case.get("mixed", False), case.get("vkind", "number"), case.get("negzero", False)
    return [tuple(actual_value(x, s, m, k, z) if i in vidx else x for i, x in enumerate(r)) for r in case["rows"]]


def allowed_funcs(case):
    return ["MIN", "MAX", "COUNT"] if case.get("vkind") == "text" else FUNCS


def valid_case(c):
    try:
        cols = c["columns"]
        if not isinstance(cols, list) or len(set(cols)) != len(cols) or not all(isinstance(x, str) and x for x in cols):
            return False
        if c.get("op", "aggregate") not in ("aggregate", "groups"):
            return False
        if not isinstance(c["keys"], list) or not c["keys"]:
            return False
        vkind = c.get("vkind", "number")
        if vkind not in ("number", "text", "decimal", "bool", "xfloat"):
            return False
        if vkind == "decimal":
            if c.get("scale", 1) not in DECIMAL_SCALES:
                return False
        elif vkind in ("text", "bool"):
            if c.get("scale", 1) != 1:
                return False
        elif c.get("scale", 1) not in (1, 2, 4, 8):
            return False
        vset = set(c["vcols"])
        xfloat = vkind == "xfloat"
        keq = c.get("keq", False)
        if keq not in (False, True) or (keq and xfloat):
            return False
        if not vset <= set(cols):
            return False
        if (c.get("scale", 1) != 1 or vkind != "number") and vset & set(c["keys"]):
            return False
        for r in c["rows"]:
            if not isinstance(r, list) or len(r) != len(cols):
                return False
            for i, x in enumerate(r):
                if cols[i] in vset:
                    if xfloat and isinstance(x, str) and x in XTOKENS:
                        continue
                    if not (x is None or (isinstance(x, int) and not isinstance(x, bool))):
                        return False
                    if xfloat and x is not None and abs(x) >= 2**40:
                        return False
                    if vkind == "text" and x is not None and not 0 <= x < len(TEXT_RANKS):
                        return False
                    if vkind == "bool" and x is not None and x not in (0, 1):
                        return False
                    if vkind == "decimal" and x is not None and abs(x) >= 10**20:
                        return False
                elif not (x is None or isinstance(x, (bool, int, float, str))):
                    return False
                elif isinstance(x, float) and (x != x or (x == 0 and math.copysign(1, x) < 0 and not keq)):
                    return False
        if c.get("op", "aggregate") == "aggregate":
            if not isinstance(c["reqs"], list) or not c["reqs"]:
                return False
            for q in c["reqs"]:
                if not (isinstance(q, list) and len(q) == 2 and q[0] in FUNCS):
                    return False
                if q[1] != "*" and q[0] not in allowed_funcs(c):
                    return False
                if q[1] == "*":
                    if q[0] != "COUNT":
                        return False
                elif q[1] not in vset:
                    return False
            labels = {"%s(%s)" % (f, col) for f, col in c["reqs"]}
            if labels & set(cols):
                return False
            via = c.get("via", "aggregate")
            if via in WRAPPERS:
                if any(q[0] != WRAPPERS[via] for q in c["reqs"]):
                    return False
            elif via == "count":
                if c["reqs"] != [["COUNT", "*"]]:
                    return False
            elif via == "aggregate_bare":
                if len(c["reqs"]) != 1:
                    return False
            elif via != "aggregate":
                return False
        if c.get("key_container", "list") not in ("list", "tuple") or c.get("col_container", "list") not in ("list", "tuple", "set"):
            return False
        for b in c.get("backings", ["list"]):
            if b not in BACKINGS:
                return False
        if "*" in cols or "zz#" in cols:
            return False
        if c.get("wide") is not None and not valid_wide(c):
            return False
        return True
    except Exception:
        return False


# ---- wide frames (seventh pass).  `"wide": {"width": W, "at": [p0, p1, …]}`: the frame handed to the implementation
# has W columns; column i of the case stands at position `at[i]`, every other position holds a filler column
# `pad<j>` (texts that differ from row to row at even positions, nulls and numbers at odd ones: a key or a value read
# from a neighbouring / wrapped-around position gives another partition or another fold).  The reference
# partition-and-fold reads the key and value columns BY NAME, so the mirror and the Lean models are asked about the
# narrow case: the statement quantifies over all frames, and nothing in it depends on how many other columns a frame
# has or where a column stands.
PAD = "pad%d"
WIDE_MAX = 70000
# positions at and around the limits of small integer containers (int8, uint8, int16, uint16)
WIDE_LIMITS = (0, 1, 2, 3, 4, 5, 127, 128, 255, 256, 32767, 32768, 65535, 65536)
# beyond this width only backings that are linear in the width (select() looks every name up in a list: 15 s at 32769)
WIDE_SLOW = 1000
WIDE_FAST_BACKINGS = ("list", "gen", "dicts", "decoy")


def valid_wide(c):
    w, cols = c["wide"], c["columns"]
    if not (isinstance(w, dict) and set(w) == {"width", "at"}):
        return False
    width, at = w["width"], w["at"]
    if not (isinstance(width, int) and not isinstance(width, bool) and isinstance(at, list)):
        return False
    if len(at) != len(cols) or len(set(at)) != len(at) or width > WIDE_MAX:
        return False
    if not all(isinstance(p, int) and not isinstance(p, bool) and 0 <= p < width for p in at):
        return False
    if any(x.startswith("pad") and x[3:].isdigit() for x in cols):
        return False
    if any(isinstance(k, str) and k.startswith("pad") and k[3:].isdigit() for k in c.get("keys", [])):
        return False  # a key name that is not a column of the case must not be a column of the wide frame either
    if width > WIDE_SLOW and set(c.get("backings", ["list"])) - set(WIDE_FAST_BACKINGS):
        return False
    return True


def wide_names(case):
    """The column names of the frame the implementation is given."""
    w = case.get("wide")
    if not w:
        return list(case["columns"])
    names = [PAD % j for j in range(w["width"])]
    for c, p in zip(case["columns"], w["at"]):
        names[p] = c
    return names


def _pad_cell(i, j):
    if j % 2 == 0:
        return "p%d.%d" % (j, i)
    return None if (i + j) % 4 == 1 else i * 1000 + j


def widen_rows(case, rows, start=0):
    """The rows as the wide frame holds them (row number `start + n` decides the filler cells)."""
    w = case.get("wide")
    if not w:
        return rows
    out = []
    for i, r in enumerate(rows, start):
        cells = [_pad_cell(i, j) for j in range(w["width"])]
        for p, x in zip(w["at"], r):
            cells[p] = x
        out.append(tuple(cells))
    return out


def same_key(case):
    """The equality of two key tuples (lists of cells): Python's `==` for a `keq` case — `1 == 1.0 == True`,
    `0 == -0.0 == False`, `None` equal to itself only, element by element — and structural equality (the
    same thing, on the domains of all other cases) otherwise."""
    if case.get("keq"):
        return lambda a, b: list(a) == list(b)
    return lambda a, b: wire.same(list(a), list(b))


def in_domain(case):
    """Python equality and structural equality coincide on the key tuples of the case; for a `keq` case:
    every key cell is a null, a boolean, an integer, a float that is not a NaN, or a text (the values on
    which `==` is an equivalence that agrees with `hash`, and which Model/GroupByEq.lean models)."""
    kidx = [case["columns"].index(k) for k in case["keys"] if k in case["columns"]]
    if case.get("keq"):
        return all(r[i] is None or (isinstance(r[i], (bool, int, float, str)) and r[i] == r[i])
                   for r in case["rows"] for i in kidx)
    rows = actual_rows(case)
    seen = []
    for r in rows:
        k = tuple(r[i] for i in kidx)
        for k2 in seen:
            if (k == k2) != wire.same(list(k), list(k2)):
                return False
        seen.append(k)
    return True


# --------------------------------------------------------------------------- implementation


BACKINGS = ("list", "gen", "dicts", "schema", "select", "filter", "take", "genselect", "decoy")
# "decoy": a list-backed frame, used after the same calls were made on ANOTHER frame with the same column names
# in another order and one more row, which is dropped before the frame of the case is built (its address may be
# reused): state shared between frames / GroupBy objects / the class (a cache keyed by column name, by the
# number of columns, by id(frame)) shows up here, in one self-contained case
# lazily backed: `_rows` is a generator until something materialises the frame
LAZY = {"gen", "select", "filter", "take", "genselect"}
_JUNK = ("junk", -7, None)


def decoy_case(case):
    """The same calls on a frame with the columns rotated by one place (every column is somewhere else)
    and one more row."""
    def rot(xs):
        return list(xs[1:]) + list(xs[:1])
    c = dict(case)
    c["columns"] = rot(case["columns"])
    rows = [rot(r) for r in case["rows"]]
    c["rows"] = rows[:1] + rows
    if "seq" in case:
        c["seq"] = [dict(el, row=rot(el["row"])) if el.get("op") == APPEND else el for el in case["seq"]]
    return c


def backing_label(b):
    if b == "decoy":
        return " [after the same calls on another frame with the same column names]"
    return " [%s-backed]" % ("gen" if b == "gen" else "lazily " + b if b in LAZY else b)


def fresh(v):
    """An equal value that is a new object where Python allows one (floats, big integers, texts of two or
    more characters): grouping is by equality, never by identity."""
    if isinstance(v, bool) or v is None:
        return v
    if isinstance(v, float):
        return float.fromhex(v.hex())
    if isinstance(v, int):
        return int(str(v))
    if isinstance(v, str):
        return "".join(list(v))
    if isinstance(v, Decimal):
        return Decimal(str(v))
    return v


def _frame(case, backing):
    from orso import DataFrame

    rows = widen_rows(case, [tuple(fresh(x) for x in r) for r in actual_rows(case)])
    cols = wide_names(case)
    if backing == "gen":
        return DataFrame(rows=(r for r in rows), schema=cols)
    if backing in ("select", "genselect"):
        # the projection of a wider frame (materialised, or itself lazily backed): select() hands a generator on
        wide = [tuple(r) + ("zz",) for r in rows]
        parent = DataFrame(rows=(wide if backing == "select" else (r for r in wide)), schema=cols + ["zz#"])
        return parent.select(cols)
    if backing in ("filter", "take"):
        # the frame's rows interleaved with rows that are filtered away / not taken
        junk = tuple(_JUNK[i % 3] for i in range(len(cols)))
        mixed, keep = [], []
        for i, r in enumerate(rows):
            if i % 2 == 0:
                mixed.append(junk)
            keep.append(len(mixed))
            mixed.append(tuple(r))
        mixed.append(junk)
        parent = DataFrame(rows=mixed, schema=cols)
        if backing == "filter":
            ks = set(keep)
            return parent.filter([i in ks for i in range(len(mixed))])
        return parent.take(keep)
    if backing == "dicts" and rows:
        return DataFrame([dict(zip(cols, r)) for r in rows])
    if backing == "schema":
        from orso.schema import FlatColumn, RelationSchema
        from orso.types import OrsoTypes

        sch = RelationSchema(name="t", columns=[FlatColumn(name=c, type=OrsoTypes.VARCHAR) for c in cols])
        return DataFrame(rows=list(rows), schema=sch)
    return DataFrame(rows=list(rows), schema=cols)


def _key_arg(case):
    """The argument object handed to `group_by`: a bare name, a tuple, a one-element set, or a list."""
    keys = case["keys"]
    if len(keys) == 1 and case.get("bare_key"):
        return keys[0]
    kc = case.get("key_container")
    if kc == "set" and len(keys) == 1:  # a set of several names has no order: the layout would be unspecified
        return set(keys)
    return tuple(keys) if kc == "tuple" else list(keys)


def _group_by(df, case, held=None):
    """`held`: a dictionary that receives the argument object under "arg" (the caller keeps it, and may edit it)."""
    arg = _key_arg(case)
    if held is not None:
        held["arg"] = arg
    return df.group_by(arg)


def _edit_in_place(obj, edit, names):
    """The caller edits, in place, an argument object it handed over earlier.  A bare name and a tuple cannot be
    edited; `names` is the content the object is given by a `become` edit."""
    kind = edit[0]
    if isinstance(obj, list):
        if kind == "append":
            obj.append(edit[1])
        elif kind == "clear":
            obj.clear()
        elif kind == "reverse":
            obj.reverse()
        elif kind == "sort":
            obj.sort()
        elif kind == "pop" and obj:
            obj.pop()
        elif kind == "replace" and obj:
            obj[edit[1] % len(obj)] = edit[2]
        elif kind == "become":
            obj[:] = list(names)
    elif isinstance(obj, set):
        if kind in ("append", "replace"):
            obj.add(edit[-1])
        elif kind in ("clear", "pop"):
            obj.clear()
        elif kind == "become":
            obj.clear()
            obj.update(names)


def _call(gb, case, held=None):
    """One call on the GroupBy object `gb`: ('ok', header, rows) with the implementation's own
    values, or ('err', exception class name).  The request list (the column list of a wrapper) is the caller's
    object: `held`, when given, is ONE list object reused for every call of a session (refilled in place), and
    whatever list was handed over is emptied after the call returned, before the result is read - a result is
    fixed when the call returns."""
    mine = []
    try:
        if case.get("op", "aggregate") == "groups":
            res = gb.groups()
        else:
            via = case.get("via", "aggregate")
            if via == "aggregate":
                mine = held if held is not None else []
                mine[:] = [(f, c) for f, c in case["reqs"]]
                res = gb.aggregate(mine)
            elif via == "aggregate_bare":
                res = gb.aggregate(tuple(case["reqs"][0]))  # one request, not wrapped in a list
            elif via == "count":
                res = gb.count()
            else:
                colsr = [c for _, c in case["reqs"]]
                cc = case.get("col_container")
                mine = colsr
                res = getattr(gb, via)(colsr[0] if len(colsr) == 1 and case.get("bare_col") else
                                       tuple(colsr) if cc == "tuple" else set(colsr) if cc == "set" else colsr)
        mine.clear()
        header = [str(c) for c in res.column_names]
        rows = []
        for r in res:  # a for loop: list(lazy frame) is [] on the pinned tree
            rows.append(list(r))
        return ("ok", header, rows)
    except Exception as e:  # noqa: BLE001 - the class is the observation
        return ("err", type(e).__name__)


def run_impl(case, backing="list"):
    """A fresh frame, a fresh GroupBy object, one call."""
    if backing == "decoy":
        run_impl(decoy_case(case), "list")
        backing = "list"
    try:
        gb = _group_by(_frame(case, backing), case)
    except Exception as e:  # noqa: BLE001
        return ("err", type(e).__name__)
    return _call(gb, case)


# ---- sequences of calls on one (or two) GroupBy objects of one frame

SUB_KEYS = ("columns", "vcols", "rows", "scale", "mixed", "vkind", "negzero", "keq", "wide")
# uses of the frame itself between two grouping calls; none of them may change any later result
NOOPS = ("len", "rowcount", "peek")
# ... and a mutation of the frame between two calls: `df.append(row)`.  The GroupBy objects hold a reference
# to the frame, so every later call is judged against the frame as it is then (theorem sequence_with_appends)
APPEND = "append"
# ... and the caller editing, in place, the list (set) of key columns it handed to `group_by` - after the GroupBy
# object was created (it is created by this element at the latest), before it is evaluated or between two
# evaluations.  {"op": "edit_keys", "gb": g, "edit": [kind, ...]}; the kind "become" gives the object the content
# of `gbs[edit[1]]` and creates THAT GroupBy object from the same list object (one list reused for the next
# grouping).  A GroupBy groups by the key columns as they were given when it was created (theorem
# keys_fixed_at_creation): the reference of every later call is unchanged.
EDIT_KEYS = "edit_keys"
EDIT_KINDS = {"append": 2, "clear": 1, "reverse": 1, "sort": 1, "pop": 1, "replace": 3, "become": 2}


def is_noop(el):
    """An element of a sequence that returns nothing to judge (it must not raise, though)."""
    return el.get("op") in NOOPS or el.get("op") == APPEND or el.get("op") == EDIT_KEYS


def has_key_edits(case):
    return any(isinstance(el, dict) and el.get("op") == EDIT_KEYS for el in case.get("seq", []))


def has_appends(case):
    return any(isinstance(el, dict) and el.get("op") == APPEND for el in case.get("seq", []))


def seq_subs(case):
    """[(element, the single-call case it stands for | None)]: the frame grows with every append."""
    rows = list(case["rows"])
    out = []
    for el in case["seq"]:
        if el.get("op") == APPEND:
            rows = rows + [el["row"]]
            out.append((el, None))
        elif is_noop(el):
            out.append((el, None))
        else:
            c = sub_case(case, el)
            c["rows"] = list(rows)
            out.append((el, c))
    return out


def sub_case(case, el):
    """The single-call case an element of a sequence stands for."""
    c = {k: case[k] for k in SUB_KEYS if k in case}
    c["keys"] = case["gbs"][el.get("gb", 0)]
    c["op"] = el.get("op", "aggregate")
    c["reqs"] = el.get("reqs", [])
    for k in ("via", "bare_col", "bare_key", "key_container", "col_container"):
        if k in el:
            c[k] = el[k]
    return c


def valid_seq_case(c):
    try:
        if not isinstance(c.get("gbs"), list) or not c["gbs"] or not isinstance(c.get("seq"), list) or not c["seq"]:
            return False
        if all(is_noop(el) for el in c["seq"] if isinstance(el, dict)):
            return False
        for el in c["seq"]:
            if not isinstance(el, dict):
                return False
            if el.get("op") == APPEND:
                # DataFrame.append sizes the row with msgpack: integers beyond 64 bits cannot be appended
                # (a limit of append, not of grouping), so appended cells stay inside the signed 64-bit range
                if not isinstance(el.get("row"), list) or any(
                        isinstance(x, int) and not isinstance(x, bool) and not -2**63 <= x < 2**63 for x in el["row"]):
                    return False
                probe = {k: c[k] for k in SUB_KEYS if k in c}
                probe.update(rows=[el.get("row")], keys=c["gbs"][0], op="groups", reqs=[])
                if not valid_case(probe):
                    return False
                continue
            if el.get("op") == EDIT_KEYS:
                ed = el.get("edit")
                if not isinstance(ed, list) or not ed or EDIT_KINDS.get(ed[0]) != len(ed):
                    return False
                if ed[0] == "become" and not (isinstance(ed[1], int) and 0 <= ed[1] < len(c["gbs"])):
                    return False
                if ed[0] == "replace" and not isinstance(ed[1], int):
                    return False
                if ed[0] in ("append", "replace") and not isinstance(ed[-1], str):
                    return False
            elif is_noop(el):
                continue
            if not isinstance(el.get("gb", 0), int) or not 0 <= el.get("gb", 0) < len(c["gbs"]):
                return False
        for el, sub in seq_subs(c):
            if sub is not None and not valid_case(sub):
                return False
        for b in c.get("backings", ["list"]):
            if b not in BACKINGS or (b == "schema" and has_appends(c)):  # the VARCHAR schema validates appended rows
                return False
        return True
    except Exception:
        return False


def run_impl_seq(case, backing="list"):
    """One frame, one GroupBy object per entry of `gbs`, the calls of `seq` in order."""
    if backing == "decoy":
        try:
            run_impl_seq(decoy_case(case), "list")
        except Exception:  # noqa: BLE001 - whatever happens on the other frame is not judged
            pass
        backing = "list"
    df = _frame(case, backing)
    gbs = {}
    args = {}  # the argument objects the caller handed to group_by, by object
    reqlist = []  # ONE request list object, the caller's, refilled in place for every `aggregate` call of the session

    def obj(g, sub):
        if g not in gbs:
            held = {}
            gbs[g] = _group_by(df, sub, held)
            args[g] = held["arg"]
        return gbs[g]

    out = []
    for el in case["seq"]:
        if is_noop(el):
            try:
                if el["op"] == EDIT_KEYS:
                    g = el.get("gb", 0)
                    obj(g, sub_case(case, el))
                    ed = el["edit"]
                    if ed[0] == "become":
                        _edit_in_place(args[g], ed, case["gbs"][ed[1]])
                        if ed[1] not in gbs and isinstance(args[g], (list, set)):
                            gbs[ed[1]] = df.group_by(args[g])  # the same list object, reused for the next grouping
                            args[ed[1]] = args[g]
                    else:
                        _edit_in_place(args[g], ed, None)
                elif el["op"] == APPEND:
                    new = [fresh(x) for x in actual_rows(dict(case, rows=[el["row"]]))[0]]
                    df.append(dict(zip(wide_names(case), widen_rows(case, [new], start=1000 + len(out))[0])))
                elif el["op"] == "len":
                    len(df)
                elif el["op"] == "rowcount":
                    df.rowcount
                else:
                    next(iter(df), None)  # start walking the frame and stop after one row
                out.append(("noop",))
            except Exception as e:  # noqa: BLE001
                out.append(("err", type(e).__name__))
            continue
        sub = sub_case(case, el)
        g = el.get("gb", 0)
        try:
            out.append(_call(obj(g, sub), sub, reqlist))
        except Exception as e:  # noqa: BLE001
            out.append(("err", type(e).__name__))
    return out


def oracle_seq(case, ctx=None, by_backing=None, wants=None):
    """The property on every call of the sequence. Returns (clause|None, results of the first backing).

    Lazily backed frames (a generator handed to DataFrame, the result of select / filter / take):
    DataFrame.__iter__ materialises the frame (repair C03-F04), so a second grouping of the same frame sees
    the same rows as the first; "one at a time or several together" and "lazily backed or materialised"
    make every call of the sequence subject to the property, and every call is judged (seeded change
    C12-w2s2: GroupBy._map reading the backing store directly consumes the generator, later calls see no
    rows)."""
    first = None
    if wants is None:
        wants = [None if sub is None else mirror(sub) for _, sub in seq_subs(case)]
    for b in case.get("backings", ["list"]):
        res = run_impl_seq(case, b)
        if by_backing is not None:
            by_backing[b] = res
        if first is None:
            first = res
        used = set()
        appended = False
        edited = False
        for i, ((el, sub), impl, want) in enumerate(zip(seq_subs(case), res, wants)):
            if is_noop(el):
                if impl[0] == "err":
                    return "%s %s raised %s%s" % (el["op"], "(creating the GroupBy object, then the caller's edit of its own list)"
                                                  if el["op"] == EDIT_KEYS else "of the frame", impl[1], backing_label(b)), res
                appended = appended or el["op"] == APPEND
                edited = edited or el["op"] == EDIT_KEYS
                continue
            g = el.get("gb", 0)
            cl = compare(sub, impl, want)
            if b in LAZY and i > 0 and ctx is not None:
                ctx.hit("lazy-later-call:" + ("as-reference" if cl is None else "err" if impl[0] == "err"
                                              else "no-rows" if not impl[2] else "other"))
            if cl is not None:
                if g in used:
                    cl = LATER_CALL + cl
                elif used:
                    cl = SECOND_OBJECT + cl
                if appended:
                    cl = APPENDED + cl
                if edited:
                    cl = KEYS_EDITED + cl
                if b != "list":
                    cl += backing_label(b)
                return cl, res
            used.add(g)
    return None, first


def model_lines_seq(case):
    """One driver line per GroupBy object: its calls in order.  (A frame with non-finite floats: one line
    per call — theorem `sequence_independent` is what makes the calls of a sequence independent.)"""
    if is_x(case) or has_appends(case) or case.get("keq"):
        return [model_line(sub) for _, sub in seq_subs(case) if sub is not None]
    lines = []
    for g, keys in enumerate(case["gbs"]):
        ops = []
        for el in case["seq"]:
            if not is_noop(el) and el.get("gb", 0) == g:
                ops.append(["groups"] if el.get("op", "aggregate") == "groups" else ["aggregate", el["reqs"]])
        lines.append("C12 sequence " + wire.line(case["columns"], case["rows"], keys, ops))
    return lines


def model_results_seq(case, texts):
    """The model's result for every element of the sequence, in the mirror's form."""
    if is_x(case) or has_appends(case) or case.get("keq"):
        it = iter(texts)
        return [("noop",) if sub is None else model_result(sub, next(it)) for _, sub in seq_subs(case)]
    per_gb = []
    for t in texts:
        if not t.startswith("ok "):
            raise InfraError("model rejected sequence case %r: %r" % (case, t))
        (m,) = wire.dec_all(t[3:])
        per_gb.append(m)
    pos = [0] * len(per_gb)
    out = []
    for el in case["seq"]:
        if is_noop(el):
            out.append(("noop",))
            continue
        g = el.get("gb", 0)
        m = per_gb[g]
        if m[0] == "err":
            out.append(("err", m[1]))
        else:
            out.append(_unscale(sub_case(case, el), m[1][pos[g]]))
            pos[g] += 1
    return out


# ---- the code-level model: the program read from the working tree, interpreted by the Lean driver


def code_line_seq(case, lazy):
    """The driver line for the whole sequence (all objects of the one frame), or None when a key column
    is not in the frame (the code-level model is not asked about that error path)."""
    cols = case["columns"]
    if any(k not in cols for keys in case["gbs"] for k in keys):
        return None
    if is_x(case) or has_appends(case):
        return None  # the code-level interpreter computes on integers, over one fixed frame
    if has_key_edits(case):
        return None if case.get("keq") else _code_session_line(case, lazy)
    calls = []
    for el in case["seq"]:
        if not is_noop(el):
            calls.append([el.get("gb", 0), ["groups"] if el.get("op", "aggregate") == "groups" else ["aggregate", el["reqs"]]])
    # `keq`: the dictionaries of the program find a group as Python's == and hash see its key (identKeyOf)
    return "C12 %s " % ("code_calls_eq" if case.get("keq") else "code_calls") + wire.line(cols, case["rows"], bool(lazy), case["gbs"], calls)


def _code_session_line(case, lazy):
    """The driver line of a session with key edits: the content of the caller's lists is worked out here (on
    lists of the same aliasing as in `run_impl_seq`), the model decides whether a GroupBy object sees it."""
    created, args, evs = set(), {}, []

    def obj(g, el):
        if g not in created:
            created.add(g)
            args[g] = _key_arg(sub_case(case, el))
        return args[g]

    for el in case["seq"]:
        g = el.get("gb", 0)
        if el.get("op") == EDIT_KEYS:
            a = obj(g, el)
            if isinstance(a, set):
                return None  # the order of a set's elements is not specified
            ed = el["edit"]
            _edit_in_place(a, ed, case["gbs"][ed[1]] if ed[0] == "become" else None)
            if ed[0] == "become" and ed[1] not in created and isinstance(a, list):
                created.add(ed[1])
                args[ed[1]] = a
            if isinstance(a, list):
                for h in sorted(created):
                    if args[h] is a:
                        evs.append(["edit", h, list(a)])
        elif not is_noop(el):
            obj(g, el)
            evs.append(["call", g, ["groups"] if el.get("op", "aggregate") == "groups" else ["aggregate", el["reqs"]]])
    return "C12 code_session " + wire.line(case["columns"], case["rows"], bool(lazy), case["gbs"], evs)


def code_results_seq(case, text):
    """Decode the code-level model's answer, one result per element of the sequence (None: not answered)."""
    if not text.startswith("ok "):
        return None  # outside what the code-level model is asked (bad-op)
    (m,) = wire.dec_all(text[3:])
    it = iter(m)
    out = []
    for el in case["seq"]:
        if is_noop(el):
            out.append(("noop",))
            continue
        r = next(it)
        out.append(("err", r[1]) if r[0] == "err" else _unscale(sub_case(case, el), r))
    return out


def as_seq(case):
    """A single-call case as a one-element sequence (for the code-level model)."""
    c = {k: case[k] for k in SUB_KEYS if k in case}
    c["gbs"] = [list(case["keys"])]
    c["seq"] = [{"op": case.get("op", "aggregate"), "reqs": case.get("reqs", []), "gb": 0}]
    return c


def compare_code(case, impl_by_backing, code_by_lazy):
    """The implementation against the code-level model (eager against eager, lazily backed against lazy).
    Returns a description of the first difference, or None."""
    for b, res in impl_by_backing.items():
        code = code_by_lazy.get(b in LAZY)
        if code is None:
            continue
        for i, (el, r, m) in enumerate(zip(case["seq"], res, code)):
            if is_noop(el):
                continue
            sub = sub_case(case, el)
            if m[0] == "err":
                if r[0] != "err":
                    return "call %d [%s]: the model read from the source raises %s, the implementation does not" % (i, b, m[1])
                continue  # the class of an exception is not compared
            cl = compare(sub, r, m)
            if cl is not None:
                return "call %d [%s]: %s" % (i, b, cl)
    return None


def evaluate_seq(ctx, cases):
    lines, spans, clines, cspans = [], [], [], []
    for c in cases:
        if not valid_seq_case(c):
            raise InfraError("generator produced an invalid sequence case: %r" % (c,))
        ls = model_lines_seq(c)
        spans.append((len(lines), len(ls)))
        lines.extend(ls)
        want_lazy = sorted({b in LAZY for b in c.get("backings", ["list"])})
        cl = [(z, code_line_seq(c, z)) for z in want_lazy]
        cl = [(z, l) for z, l in cl if l is not None]
        cspans.append((len(clines), [z for z, _ in cl]))
        clines.extend(l for _, l in cl)
    mouts = ctx.model.batch(lines)
    couts = ctx.model.batch(clines)
    for c, (lo, n), (clo, zs) in zip(cases, spans, cspans):
        subs = [sub for _, sub in seq_subs(c)]
        for sub in subs:
            if sub is not None and not in_domain(sub):
                raise InfraError("generator left the domain where == and structural equality coincide: %r" % (c,))
        wants = [None if sub is None else mirror(sub) for sub in subs]
        mres = model_results_seq(c, mouts[lo:lo + n])
        for sub, w, m in zip(subs, wants, mres):
            if sub is not None and not same_expected(w, m):
                raise InfraError("Lean model and Python mirror differ inside a sequence %r:\n model  %r\n mirror %r" % (c, m, w))
        mres = [m if sub is None else mask_unjudged(w, m) for sub, w, m in zip(subs, wants, mres)]
        code = {z: code_results_seq(c, couts[clo + j]) for j, z in enumerate(zs)}
        ncalls = sum(1 for el in c["seq"] if not is_noop(el))
        ctx.case(c, len(c["rows"]) >= 2 and ncalls >= 2)
        ctx.hit("seq-len:%s" % (ncalls if ncalls < 4 else "4+"))
        ctx.hit("seq-objects:%d" % len(c["gbs"]))
        if len({tuple(sorted(g)) for g in c["gbs"]}) > 1:
            ctx.hit("seq-objects-with-different-key-columns")
        ctx.hit("rows:%s" % (len(c["rows"]) if len(c["rows"]) < 7 else "7-19" if len(c["rows"]) < 20 else "20+"))
        for el in c["seq"]:
            ctx.hit("seq-op:" + (el["op"] if is_noop(el) else "groups" if el.get("op") == "groups" else el.get("via", "aggregate")))
            if el.get("op") == EDIT_KEYS:
                ctx.hit("caller-edits-its-key-list:%s%s" % (el["edit"][0], ":set" if el.get("key_container") == "set" else ""))
        if any(a == b for a, b in zip(c["seq"], c["seq"][1:])):
            ctx.hit("seq-identical-repeat")
        if c.get("keq"):
            ctx.hit("equal-keys:sequence-cases")
        for b in c.get("backings", ["list"]):
            ctx.hit("backing:" + b)
        if len(ctx.violations) >= 4:
            return
        by_backing = {}
        clause, impl = oracle_seq(c, ctx, by_backing, wants)
        if clause is not None and _norm(clause) in _SEEN_CLAUSES.setdefault(id(ctx), set()):
            ctx.hit("violation-dup:" + _norm(clause))
            continue
        if clause is not None:
            _SEEN_CLAUSES[id(ctx)].add(_norm(clause))

            def still(c2, clause=clause):
                if not valid_seq_case(c2) or not all(in_domain(sub) for _, sub in seq_subs(c2) if sub is not None):
                    return False
                try:
                    return _norm(oracle_seq(c2)[0]) == _norm(clause)
                except InfraError:
                    return False
            c_min = c if ctx.replaying else _plainest(_shrink(c, still, 600), still)
            c_min, clause, alone = self_contained(ctx, c, c_min, clause)
            by2 = {}
            cl2, impl2 = oracle_seq(c_min, None, by2)
            try:
                m2 = model_results_seq(c_min, ctx.model.batch(model_lines_seq(c_min)))
            except InfraError:
                m2 = None
            ctx.fail(c_min, cl2 or clause, impl=[_show(r) for r in impl2], model=None if m2 is None else [_show(r) for r in m2],
                     detail=_with_note(_code_detail(ctx, c_min, by2), alone))
            continue
        for i, (sub, r, m) in enumerate(zip(subs, impl, mres)):
            if sub is None:
                continue
            cl = compare(sub, r, m)
            if cl is not None:
                ctx.disagree(c, [_show(x) for x in impl], [_show(x) for x in mres], what="call %d: %s" % (i, cl))
                break
        else:
            ctx.hit("sequence:every-call-as-alone")
            _code_verdict(ctx, c, by_backing, code, mres)


def _code_verdict(ctx, seq_case, by_backing, code, mres=None):
    """Correspondence of the code-level model (the program read from the source) with the implementation.
    `mres`: the functional model's results, already found to agree with the implementation on every backing
    the oracle ran; a code-level answer equal to them needs no second comparison."""
    if not code or all(v is None for v in code.values()):
        ctx.hit("model-read-from-source:not-asked")
        return
    if mres is not None and all(v is None or (len(v) == len(mres) and all(
            a[0] == b[0] and (a[0] == "noop" or same_expected(a, b)) for a, b in zip(v, mres))) for v in code.values()):
        ctx.hit("model-read-from-source:as-implementation")
        return
    what = compare_code(seq_case, by_backing, code)
    if what is None:
        ctx.hit("model-read-from-source:as-implementation")
    else:
        first_b = next(iter(by_backing))
        ctx.disagree(seq_case, [_show(x) for x in by_backing[first_b]],
                     [_show(x) for x in code.get(first_b in LAZY) or []],
                     what="the model read from the source and the implementation differ: " + what)


def _code_detail(ctx, seq_case, by_backing):
    """For a failing input: does the program read from the source, interpreted, show the same behaviour?"""
    try:
        out = {}
        for z in sorted({b in LAZY for b in by_backing}):
            line = code_line_seq(seq_case, z)
            if line is None:
                continue
            res = code_results_seq(seq_case, ctx.model.one(line))
            if res is not None:
                out["lazy" if z else "materialised"] = [_show(r) for r in res]
        if not out:
            return None
        code = {z: code_results_seq(seq_case, ctx.model.one(code_line_seq(seq_case, z))) for z in sorted({b in LAZY for b in by_backing})}
        what = compare_code(seq_case, by_backing, code)
        return {"model_read_from_source": out,
                "model_read_from_source_reproduces_the_implementation": what is None}
    except Exception as e:  # noqa: BLE001 - never let the extra detail hide the failing input
        return {"model_read_from_source": "not available (%s)" % type(e).__name__}


# --------------------------------------------------------------------------- mirror of the spec


def exact(v):
    if isinstance(v, str):
        return v  # text values: only MIN, MAX and COUNT are asked of them
    if v is None:
        raise InfraError("not a number: %r" % (v,))
    if isinstance(v, bool):
        return Fraction(int(v))  # a boolean value column: True counts as 1 (Python's sum)
    return Fraction(v)


def xclass(v):
    """The non-finite floats: 'nan' | 'inf' | '-inf'; None for every other value."""
    if isinstance(v, float) and not math.isfinite(v):
        return "nan" if v != v else "inf" if v > 0 else "-inf"
    return None


def fold_reference(f, vs):
    """The aggregate `f` of the non-null values `vs` (real values), as usually defined: None | Fraction |
    text | one of the X_* cells.  NaN is a value: it is counted, and SUM / AVG of values with a NaN among
    them (or with both infinities) are NaN; a sum with one infinity is that infinity."""
    if f == "COUNT":
        return Fraction(len(vs))
    if not vs:
        return None
    kinds = {xclass(v) for v in vs}
    finite = [exact(v) for v in vs if xclass(v) is None]
    if f in ("MIN", "MAX"):
        if "nan" in kinds:
            return X_ANY  # `<` is not total on the group (theorem min_of_total_order_ignores_row_order)
        lo, hi = ("-inf", "inf") if f == "MIN" else ("inf", "-inf")
        if lo in kinds:
            return ("x", lo)
        if finite:
            return min(finite) if f == "MIN" else max(finite)
        return ("x", hi)
    if "nan" in kinds or ("inf" in kinds and "-inf" in kinds):
        return X_NAN
    if "inf" in kinds:
        return X_PINF
    if "-inf" in kinds:
        return X_NINF
    total = sum(finite, Fraction(0))
    return total if f == "SUM" else total / len(vs)


def mirror(case):
    """Partition-and-fold in plain Python.  ('ok', header, rows) | ('err', 'ValueError').
    Aggregate cells are None | Fraction (| a text | an X_* cell); key cells are the key values."""
    cols = case["columns"]
    keys = case["keys"]
    if any(k not in cols for k in keys):
        return ("err", "ValueError")
    kidx = [cols.index(k) for k in keys]
    rows = actual_rows(case)
    order, groups = [], []
    same = same_key(case)
    for r in rows:
        k = [r[i] for i in kidx]
        for j, k2 in enumerate(order):
            if same(k, k2):
                groups[j].append(r)
                break
        else:
            order.append(k)
            groups.append([r])
    key_header = list(dict.fromkeys(keys))

    def key_cells(k):
        d = {}
        for name, v in zip(keys, k):
            d[name] = v
        return [d[n] for n in key_header]

    if case.get("op", "aggregate") == "groups":
        return ("ok", key_header, [key_cells(k) for k in order])
    reqs = case["reqs"]
    labels = list(dict.fromkeys("%s(%s)" % (f, c) for f, c in reqs))
    out = []
    for k, g in zip(order, groups):
        cells = {}
        for f, c in reqs:
            if c in cols:
                vs = [r[cols.index(c)] for r in g if r[cols.index(c)] is not None]
            else:
                vs = [0] * len(g)  # the "*" pseudo column: one non-null marker per row
            cells["%s(%s)" % (f, c)] = fold_reference(f, vs)
        out.append([cells[l] for l in labels] + key_cells(k))
    return ("ok", labels + key_header, out)


# --------------------------------------------------------------------------- model


def is_x(case):
    return case.get("vkind") == "xfloat"


def model_rows(case):
    """The rows as the model reads them: the negative zero is the number zero."""
    if not is_x(case):
        return case["rows"]
    return [[0 if x == "-0" else x for x in r] for r in case["rows"]]


def model_line(case):
    if case.get("op", "aggregate") == "groups":
        return "C12 %s " % ("groups_eq" if case.get("keq") else "groups") + wire.line(case["columns"], model_rows(case), case["keys"])
    return "C12 %s " % ("aggregate_x" if is_x(case) else "aggregate_eq" if case.get("keq") else "aggregate") + wire.line(
        case["columns"], model_rows(case), case["keys"], case["reqs"])


def model_result(case, text):
    """Decode the driver's answer into the mirror's form (exact Fractions, unscaled)."""
    if not text.startswith("ok "):
        raise InfraError("model rejected case %r: %r" % (case, text))
    (m,) = wire.dec_all(text[3:])
    return _unscale(case, m)


def _unscale(case, m):
    if m[0] == "err":
        return ("err", m[1])
    header, rows = m[1], m[2]
    if case.get("op", "aggregate") == "groups":
        return ("ok", header, rows)
    s = case.get("scale", 1)
    funcs = {"%s(%s)" % (f, c): f for f, c in case["reqs"]}
    out = []
    for r in rows:
        cells = []
        for name, v in zip(header, r):
            f = funcs.get(name)
            if f is None:
                cells.append(v)
            elif v is None:
                cells.append(None)
            elif is_special(v):
                if v[1] not in ("nan", "inf", "-inf"):
                    raise InfraError("bad cell from the model: %r" % (v,))
                cells.append(("x", v[1]))
            elif isinstance(v, list):
                if v[0] != "avg" or v[2] <= 0:
                    raise InfraError("bad AVG cell from the model: %r" % (v,))
                cells.append(Fraction(v[1], v[2] * s))
            elif f == "COUNT":
                cells.append(Fraction(v))
            elif case.get("vkind") == "text":
                cells.append(TEXT_RANKS[v])
            else:
                cells.append(Fraction(v, s))
        out.append(cells)
    return ("ok", header, out)


def mask_unjudged(want, m):
    """The model's answer with the cells the mirror does not judge (MIN / MAX over a NaN) left open."""
    if want[0] != "ok" or m[0] != "ok" or not any(is_special(x) and tuple(x) == X_ANY for r in want[2] for x in r):
        return m
    return ("ok", m[1], [[X_ANY if is_special(x) and tuple(x) == X_ANY else y for x, y in zip(rw, rm)]
                         for rw, rm in zip(want[2], m[2])])


def same_expected(a, b):
    if a[0] != b[0]:
        return False
    if a[0] == "err":
        return a[1] == b[1]
    if a[1] != b[1] or len(a[2]) != len(b[2]):
        return False
    for ra, rb in zip(a[2], b[2]):
        if len(ra) != len(rb):
            return False
        for x, y in zip(ra, rb):
            if is_special(x) or is_special(y):
                # MIN / MAX over a group with a NaN: the model walks like Python, the mirror does not judge
                if not (tuple(x) == X_ANY or (is_special(x) and is_special(y) and tuple(x) == tuple(y))):
                    return False
            elif isinstance(x, Fraction) or isinstance(y, Fraction):
                if not (isinstance(x, Fraction) and isinstance(y, Fraction) and x == y):
                    return False
            elif not wire.same(x, y):
                return False
    return True


# --------------------------------------------------------------------------- the property on outputs


def cell_ok(func, got, want, vkind="number"):
    """Is the implementation's cell `got` the aggregate `want` (None | Fraction)?"""
    if want is None:
        return got is None
    if is_special(want):
        if tuple(want) == X_ANY:
            return True
        if not isinstance(got, (float, Decimal)):
            return False
        if want[1] == "nan":
            return got != got if isinstance(got, float) else got.is_nan()
        return got == XTOKENS[want[1]]
    if isinstance(want, str):
        return isinstance(got, str) and got == want
    if got is None:
        return False
    if isinstance(got, bool):
        # the least / greatest member of a boolean column is a boolean
        return vkind == "bool" and func in ("MIN", "MAX") and Fraction(int(got)) == want
    if func == "COUNT":
        return isinstance(got, int) and got == want
    if isinstance(got, float) and not math.isfinite(got):
        return False
    if not isinstance(got, (int, float, Decimal, Fraction)):
        return False
    if isinstance(got, Decimal) and not got.is_finite():
        return False
    g = Fraction(got)
    if func == "AVG":
        return abs(g - want) <= AVG_REL_TOL * abs(want)
    return g == want


def compare(case, impl, want):
    """First clause of the property that `impl` breaks against the expectation `want`, or None.
    Columns are found by name, rows are matched by key."""
    if want[0] == "err":
        return None if impl[0] == "err" and impl[1] == want[1] else "outcome differs on a key column that is not in the frame"
    if impl[0] == "err":
        return "raised %s" % impl[1]
    _, header, rows = impl
    _, wheader, wrows = want
    if sorted(header) != sorted(wheader):
        return "result columns are not the FUNC(column) labels next to the key columns"
    if len(set(header)) != len(header):
        return "result has a repeated column"
    if any(len(r) != len(header) for r in rows):
        return "a result row does not match the header"
    groups = case.get("op", "aggregate") == "groups"
    funcs = {} if groups else {"%s(%s)" % (f, c): f for f, c in case["reqs"]}
    key_names = [h for h in wheader if h not in funcs]
    pos = {h: i for i, h in enumerate(header)}
    wpos = {h: i for i, h in enumerate(wheader)}

    def key_of(r, p):
        return [r[p[n]] for n in key_names]

    remaining = list(range(len(rows)))
    same = same_key(case)
    if len(rows) != len(wrows):
        return "not one output row per distinct key (%d rows for %d keys)" % (len(rows), len(wrows))
    for wr in wrows:
        wk = key_of(wr, wpos)
        hit = None
        for j in remaining:
            if same(key_of(rows[j], pos), wk):
                hit = j
                break
        if hit is None:
            return "not one output row per distinct key (a key has no row)"
        remaining.remove(hit)
        for name, f in funcs.items():
            if not cell_ok(f, rows[hit][pos[name]], wr[wpos[name]], case.get("vkind", "number")):
                return "%s differs from the reference over the group's non-null values" % (
                    "COUNT(*)" if name == "COUNT(*)" else f)
    return None


def canonical(impl, unjudged=(), by_value=()):
    """Order-free rendering of an implementation result, for comparing runs with each other.
    `unjudged`: labels whose cells the property does not determine (MIN / MAX of a column with a NaN);
    `by_value`: key columns of a `keq` case — which member of a class of equal keys is shown depends on the
    row order (the first one is), so these cells are rendered by value (`1`, `1.0` and `True` alike)."""
    if impl[0] == "err":
        return repr(impl)
    _, header, rows = impl
    order = sorted(range(len(header)), key=lambda i: header[i])
    return repr((sorted(header), sorted(repr(["?" if header[i] in unjudged else _ck(r[i]) if header[i] in by_value else _c(r[i])
                                              for i in order]) for r in rows)))


def _ck(v):
    """A key cell by value."""
    if isinstance(v, (bool, int)) or (isinstance(v, float) and math.isfinite(v)):
        return "n%s" % Fraction(v)
    return _c(v)


def _c(v):
    if isinstance(v, int) and not isinstance(v, bool):
        return "n%s" % v  # by value: the least of 0 and -0.0 (an int among the floats) may be either
    if isinstance(v, float):
        if math.isfinite(v):
            return "n%s" % Fraction(v)  # by value: MIN of 0.0 and -0.0 may be either zero
        if v != v:
            return "nan"  # the sign and payload of a NaN depend on the order of the additions
        return "f%016x" % wire.fbits(v)
    if isinstance(v, Decimal):
        if v.is_nan():
            return "dnan"
        return "d" + str(v.normalize())
    return v


def unjudged_labels(case):
    """MIN(c) / MAX(c) of a value column that holds a NaN somewhere in the frame."""
    if not is_x(case) or case.get("op", "aggregate") == "groups":
        return set()
    cols = case["columns"]
    with_nan = {c for i, c in enumerate(cols) if c in case["vcols"] and any(r[i] == "nan" for r in case["rows"])}
    return {"%s(%s)" % (f, c) for f, c in case["reqs"] if f in ("MIN", "MAX") and c in with_nan}


def layout_matches(case, impl, want):
    """Does the implementation also have the model's column order and first-occurrence row order?"""
    if impl[0] != "ok" or want[0] != "ok":
        return True
    if impl[1] != want[1] or len(impl[2]) != len(want[2]):
        return False
    funcs = set() if case.get("op", "aggregate") == "groups" else {"%s(%s)" % (f, c) for f, c in case["reqs"]}
    kpos = [i for i, h in enumerate(want[1]) if h not in funcs]
    same = same_key(case)
    return all(same([r[i] for i in kpos], [w[i] for i in kpos]) for r, w in zip(impl[2], want[2]))


def shows_first_member(case, impl, want):
    """(`keq` cases, layout as the model's) does every output row show the key as the FIRST row of its class
    writes it?  The model does (theorem representative_is_first_occurrence); not part of the property."""
    funcs = set() if case.get("op", "aggregate") == "groups" else {"%s(%s)" % (f, c) for f, c in case["reqs"]}
    kpos = [i for i, h in enumerate(want[1]) if h not in funcs]
    return all(wire.same([r[i] for i in kpos], [w[i] for i in kpos]) for r, w in zip(impl[2], want[2]))


APPENDED = "after rows were appended to the frame: "
KEYS_EDITED = "after the caller edited the key-column list it had handed to group_by(): "


LATER_CALL = "a later call on the same GroupBy object: "
SECOND_OBJECT = "a call on a second GroupBy object of the same frame: "


def _norm(clause):
    """A clause up to its numbers, up to whether rows were appended before the failing call, up to where in a
    sequence the failing call stands and up to the backing it failed on — so that the shrinker drops the appends,
    the earlier calls, the other objects and the backings a failure does not need (the reported clause is that of
    the shrunk input), and so that the failing inputs of one run differ in more than their wrapping."""
    if clause is None:
        return None
    for pre in (KEYS_EDITED, APPENDED, LATER_CALL, SECOND_OBJECT):
        clause = clause.replace(pre, "")
    if clause.endswith("]") and " [" in clause:
        clause = clause[:clause.rindex(" [")]
    return "".join(ch for ch in clause if not ch.isdigit())


def variants(case):
    """The frames a case stands for: every backing, and the listed (or all) permutations of the rows."""
    out = []
    for b in case.get("backings", ["list"]):
        out.append((b, None, case))
    perms = case.get("perms", [])
    if case.get("all_perms") and len(case["rows"]) <= 6:
        perms = [list(p) for p in itertools.permutations(range(len(case["rows"])))][1:]
    for p in perms:
        if sorted(p) != list(range(len(case["rows"]))):
            continue  # a shrunk frame no longer has this permutation
        c2 = dict(case)
        c2["rows"] = [case["rows"][i] for i in p]
        out.append(("list", p, c2))
    return out


def oracle(case, by_backing=None, want=None):
    """Evaluate the property on the implementation alone. Returns (clause|None, impl of first variant).
    `want`: the mirror's answer for `case` when the caller has it already."""
    if want is None:
        want = mirror(case)
    first = None
    canon0 = None
    for b, p, c2 in variants(case):
        impl = run_impl(c2, b)
        if by_backing is not None and p is None:
            by_backing[b] = [impl]
        if first is None:
            first = impl
        w2 = want if p is None else mirror(c2)
        cl = compare(c2, impl, w2)
        if cl is not None:
            where = "" if (b == "list" and p is None) else (backing_label(b) if p is None else " [rows permuted]")
            return cl + where, impl
        can = canonical(impl, unjudged_labels(case), case["keys"] if case.get("keq") else ())
        if canon0 is None:
            canon0 = can
        elif can != canon0:
            return ("result depends on the order of the input rows" if p is not None
                    else "result depends on whether the frame is lazily backed"), impl
    return None, first


_SEEN_CLAUSES = {}


def _fresh(case):
    """(runs in the fresh interpreter) the oracle's verdict on one case"""
    return oracle_seq(case)[0] if "seq" in case else oracle(case)[0]


def fresh_clause(case, timeout=120):
    """The oracle's verdict on `case` in a fresh interpreter: nothing earlier cases of this run left in the
    process (module-level or class-level state of orso) can contribute.  None: the property holds there."""
    import subprocess
    import sys
    from ..core import REPO, _jsonable
    prog = ("import sys, json; sys.path.insert(0, %r); from harness import runner, core; runner.setup_impl_path(); "
            "from harness.props import c12; print('FRESH ' + json.dumps(c12._fresh(core.unjson(json.load(sys.stdin)))))" % VERIF)
    env = dict(os.environ, ORSO_REPO=REPO, PYTHONHASHSEED="0", PYTHONDONTWRITEBYTECODE="1")
    try:
        r = subprocess.run([sys.executable, "-c", prog], input=json.dumps(_jsonable(case)), capture_output=True, text=True,
                           timeout=timeout, cwd=VERIF, env=env)
    except subprocess.TimeoutExpired:
        raise InfraError("a fresh interpreter did not answer within %d s" % timeout)
    for line in r.stdout.splitlines():
        if line.startswith("FRESH "):
            return json.loads(line[6:])
    raise InfraError("a fresh interpreter failed on %r:\n%s" % (case, (r.stderr or r.stdout)[-1500:]))


def self_contained(ctx, c, c_min, clause):
    """A replay must fail alone.  (case to report, its clause, note | None): the shrunk case when it fails in a
    fresh interpreter; otherwise the failure needs state that earlier cases of this run left in the process
    (a module- or class-level cache in orso) — the same case behind a decoy frame, which recreates such state
    inside the case, is tried next, then the unshrunk case."""
    if ctx.replaying:
        return c_min, clause, None
    def decoyed(x):
        y = {k: v for k, v in x.items() if k not in ("perms", "all_perms")}
        y["backings"] = ["decoy"]
        return y
    seen = []
    for cand in (c_min, decoyed(c_min), c, decoyed(c)):
        if cand in seen or ("seq" in cand and not valid_seq_case(cand)) or ("seq" not in cand and not valid_case(cand)):
            continue
        seen.append(cand)
        got = fresh_clause(cand)
        if got is not None:
            ctx.hit("failing-input:fails-alone-in-a-fresh-interpreter" if cand is c_min else
                    "failing-input:needed-state-left-by-another-frame(reported behind a decoy frame or unshrunk)")
            return cand, got, None
    ctx.hit("failing-input:fails-only-after-earlier-cases-of-the-run")
    return c_min, clause, ("fails in this run only: in a fresh interpreter this input, also behind a decoy frame, satisfies the "
                           "property, so the failure needs state that earlier inputs left in the process")


def evaluate(ctx, cases, code_every=1):
    """`code_every`: the code-level model (the program read from the source) is asked about every n-th
    single-call case of an exhaustive scope; sequences, corpus, collision and random cases always."""
    cases = list(cases)
    seqs = [c for c in cases if "seq" in c]
    cases = [c for c in cases if "seq" not in c]
    if cases:
        _evaluate_single(ctx, cases, code_every)  # single calls first: their failing inputs are the simplest
    if seqs:
        evaluate_seq(ctx, seqs)


def _evaluate_single(ctx, cases, code_every):
    lines = [model_line(c) for c in cases]
    mouts = ctx.model.batch(lines)
    clines, cspans = [], []
    for i, c in enumerate(cases):
        sq = as_seq(c)
        cl = [] if i % code_every else [(z, code_line_seq(sq, z)) for z in sorted({b in LAZY for b in c.get("backings", ["list"])})]
        cl = [(z, l) for z, l in cl if l is not None]
        cspans.append((len(clines), [z for z, _ in cl]))
        clines.extend(l for _, l in cl)
    couts = ctx.model.batch(clines)
    for c, mo, (clo, zs) in zip(cases, mouts, cspans):
        if not valid_case(c):
            raise InfraError("generator produced an invalid case: %r" % (c,))
        if not in_domain(c):
            raise InfraError("generator left the domain where == and structural equality coincide: %r" % (c,))
        want = mirror(c)
        mres = model_result(c, mo)
        if not same_expected(want, mres):
            raise InfraError("Lean model and Python mirror of the specification differ on %r:\n model  %r\n mirror %r" % (c, mres, want))
        if mask_unjudged(want, mres) is not mres:
            ctx.hit("min-max-over-a-group-with-nan:not-judged")
            mres = mask_unjudged(want, mres)
        op = c.get("op", "aggregate")
        n = len(c["rows"])
        nontrivial = n >= 2 and want[0] == "ok" and len(want[2]) >= 1
        ctx.case(c, nontrivial)
        ctx.hit("op:" + op + ("" if op == "groups" else ":" + c.get("via", "aggregate")))
        ctx.hit("rows:%s" % (n if n < 7 else "7-19" if n < 20 else "20+"))
        ctx.hit("keys:%d" % len(c["keys"]))
        if want[0] == "ok":
            g = len(want[2])
            ctx.hit("groups:%s" % (g if g < 4 else "4+"))
        else:
            ctx.hit("err:" + want[1])
        for b in c.get("backings", ["list"]):
            ctx.hit("backing:" + b)
        if c.get("perms"):
            ctx.hit("permutations", len(c["perms"]))
        if op == "aggregate":
            ctx.hit("requests:%s" % (len(c["reqs"]) if len(c["reqs"]) < 4 else "4+"))
            for f, col in c["reqs"]:
                ctx.hit("func:%s%s" % (f, "(*)" if col == "*" else ""))
            if len({col for _, col in c["reqs"]}) < len(c["reqs"]):
                ctx.hit("repeated-column")
            if want[0] == "ok" and any(x is None for r in want[2] for x in r[: len(set("%s(%s)" % (f, cc) for f, cc in c["reqs"]))]):
                ctx.hit("null-aggregate-cell")
            ctx.hit("values:%s scale:%d%s" % (c.get("vkind", "number"), c.get("scale", 1), "m" if c.get("mixed") else ""))
        if c.get("keq"):
            _hit_equal_keys(ctx, c, want)
        if len(ctx.violations) >= 4:
            return  # enough distinct failing inputs; do not spend the budget on more of the same
        by_backing = {}
        clause, impl = oracle(c, by_backing, want)
        if clause is not None and _norm(clause) in _SEEN_CLAUSES.setdefault(id(ctx), set()):
            ctx.hit("violation-dup:" + _norm(clause))
            continue
        if clause is not None:
            _SEEN_CLAUSES[id(ctx)].add(_norm(clause))
            def still(c2, clause=clause):
                if not valid_case(c2) or not in_domain(c2):
                    return False
                try:
                    return _norm(oracle(c2)[0]) == _norm(clause)
                except InfraError:
                    return False
            c_min = c if ctx.replaying else _plainest(_shrink(_shrinkable(c), still, 300), still)
            c_min, clause, alone = self_contained(ctx, c, c_min, clause)
            by2 = {}
            cl2, impl2 = oracle(c_min, by2)
            try:
                m2 = model_result(c_min, ctx.model.one(model_line(c_min)))
            except InfraError:
                m2 = None
            ctx.fail(c_min, cl2 or clause, impl=_show(impl2), model=_show(m2),
                     detail=_with_note(_code_detail(ctx, as_seq(c_min), by2), alone))
            continue
        # correspondence proper: the model's answer against the implementation's (first variant)
        cl = compare(c, impl, mres)
        if cl is not None:
            ctx.disagree(c, _show(impl), _show(mres), what=cl)
        elif not layout_matches(c, impl, mres):
            ctx.hit("layout-differs-from-model(order only; not part of the property)")
        else:
            ctx.hit("layout:labels-then-keys,first-occurrence-order")
            if c.get("keq") and impl[0] == "ok":
                ctx.hit("equal-keys:shown-as-the-first-row-of-the-class-writes-it" if shows_first_member(c, impl, mres)
                        else "equal-keys:shown-as-another-member-of-the-class(not part of the property)")
        if cl is None and zs:
            sq = as_seq(c)
            _code_verdict(ctx, sq, by_backing, {z: code_results_seq(sq, couts[clo + j]) for j, z in enumerate(zs)}, [mres])


def _hit_equal_keys(ctx, c, want):
    """Input distribution of the `keq` stream: how many classes hold keys written in several ways, and which."""
    ctx.hit("equal-keys:cases")
    cols = c["columns"]
    kidx = [cols.index(k) for k in c["keys"] if k in cols]
    if want[0] != "ok" or len(kidx) != len(c["keys"]):
        return
    same = same_key(c)
    classes = []
    for r in c["rows"]:
        k = [r[i] for i in kidx]
        for cl in classes:
            if same(cl[0], k):
                if not any(wire.same(k, k2) for k2 in cl):
                    cl.append(k)
                break
        else:
            classes.append([k])
    multi = [cl for cl in classes if len(cl) > 1]
    ctx.hit("equal-keys:classes-written-in-several-ways:%s" % (len(multi) if len(multi) < 3 else "3+"))
    kinds = set()
    for cl in multi:
        for j in range(len(kidx)):
            ts = {type(k[j]).__name__ for k in cl}
            if len(ts) > 1:
                kinds.add("+".join(sorted(ts)))
            elif len({wire.fbits(k[j]) for k in cl if isinstance(k[j], float)}) > 1:
                kinds.add("0.0/-0.0")
    for t in kinds:
        ctx.hit("equal-keys:one-class-holds:" + t)
    if multi and len(kidx) > 1:
        ctx.hit("equal-keys:composite-key-differing-in-one-component-only")
    if len(classes) > len(multi) > 0:
        ctx.hit("equal-keys:next-to-keys-written-in-one-way")


def _shrink(c, still, budget):
    """`core.shrink`, preceded for long frames by halving the rows (the generic shrinker drops one row per try);
    a long frame that cannot be halved (the failure needs its length) gets a short budget: every try costs a
    pass over the whole frame."""
    def ok(x):
        try:
            return still(x)
        except Exception:  # noqa: BLE001
            return False
    c = _shrink_wide(c, ok)
    progress = len(c["rows"]) > 40
    while progress and len(c["rows"]) > 8:
        progress = False
        n = len(c["rows"])
        for part in (c["rows"][: n // 2], c["rows"][n // 2:], c["rows"][: n - n // 4], c["rows"][n // 4:]):
            c2 = dict(c, rows=part)
            c2.pop("perms", None)
            if ok(c2):
                c, progress = c2, True
                break
    return _shrink_wide(shrink(c, still, budget=budget if len(c["rows"]) <= 60 else 40), ok)


def _drop_column(c, i):
    name = c["columns"][i]
    c2 = dict(c, columns=c["columns"][:i] + c["columns"][i + 1:], vcols=[v for v in c["vcols"] if v != name],
              rows=[r[:i] + r[i + 1:] for r in c["rows"]])
    if c.get("wide"):
        c2["wide"] = {"width": c["wide"]["width"], "at": c["wide"]["at"][:i] + c["wide"]["at"][i + 1:]}
    if "seq" in c:
        c2["seq"] = [dict(el, row=el["row"][:i] + el["row"][i + 1:]) if el.get("op") == APPEND else el for el in c["seq"]]
    return c2


def _shrink_wide(c, ok):
    """A wide frame is shrunk by its own moves first (the generic shrinker walks a position down one by one, and cannot
    drop a column together with its position): no wide frame at all; fewer columns; every position at the smallest
    limit (`WIDE_LIMITS`) at which the input still fails; the narrowest frame that holds the positions."""
    if not c.get("wide"):
        return c
    c2 = {k: v for k, v in c.items() if k != "wide"}
    if ok(c2):
        return c2
    for i in reversed(range(len(c["columns"]))):
        if len(c["columns"]) > 1:
            c2 = _drop_column(c, i)
            if ok(c2):
                c = c2
    for i in range(len(c["columns"])):
        at, width = c["wide"]["at"], c["wide"]["width"]
        for p in WIDE_LIMITS:
            if p >= at[i]:
                break
            if p in at:
                continue
            c2 = dict(c, wide={"width": width, "at": at[:i] + [p] + at[i + 1:]})
            if ok(c2):
                c = c2
                break
    at, width = c["wide"]["at"], c["wide"]["width"]
    if max(at) + 1 < width:
        c2 = dict(c, wide={"width": max(at) + 1, "at": at})
        if ok(c2):
            c = c2
    return c


def _plainest(c_min, still):
    """The shrunk input on a plain list-backed frame when it fails there as well."""
    if c_min.get("backings", ["list"]) != ["list"]:
        c2 = dict(c_min, backings=["list"])
        try:
            if still(c2):
                return c2
        except Exception:  # noqa: BLE001
            pass
    return c_min


def _with_note(detail, note):
    if note is None:
        return detail
    d = dict(detail) if isinstance(detail, dict) else {}
    d["note"] = note
    return d


def _shrinkable(c):
    c2 = dict(c)
    if c2.get("perms"):
        c2.pop("perms")  # a permuted failure is re-found from the smaller frame's own permutations
        c2["all_perms"] = True
    return c2


def _show(res):
    if res is None:
        return None
    if res[0] in ("err", "noop"):
        return list(res)
    return ["ok", res[1], [[str(x) if isinstance(x, (Fraction, Decimal)) else x for x in r] for r in res[2]]]


# --------------------------------------------------------------------------- generators

ALL_SIX = [["COUNT", "*"], ["MIN", "v"], ["MAX", "v"], ["SUM", "v"], ["COUNT", "v"], ["AVG", "v"]]
FIXED_REQS = [
    ALL_SIX,
    [["SUM", "v"], ["COUNT", "v"], ["SUM", "w"]],
    [["AVG", "w"]],
    [["MAX", "w"], ["COUNT", "*"], ["MIN", "v"]],
]
REQ_ALPHABET = [[f, c] for c in ("v", "w") for f in FUNCS] + [["COUNT", "*"]]


def base(rows, reqs, **kw):
    c = {"columns": ["k", "v", "w"], "vcols": ["v", "w"], "keys": ["k"], "rows": [list(r) for r in rows],
         "reqs": [list(q) for q in reqs], "scale": 1}
    c.update(kw)
    return c


def row_alphabet(keys, vs, ws):
    return [[k, v, w] for k in keys for v in vs for w in ws]


def rotate_columns(case, r):
    """The same case with the columns of the frame rotated by `r` places: every column, a requested one
    included, is the FIRST column of the frame (position 0) in one of the rotations and the last in another."""
    r %= len(case["columns"])
    if r == 0:
        return case

    def rot(xs):
        return list(xs[r:]) + list(xs[:r])
    c = dict(case)
    c["columns"] = rot(case["columns"])
    c["rows"] = [rot(x) for x in case["rows"]]
    if "seq" in case:
        c["seq"] = [dict(el, row=rot(el["row"])) if el.get("op") == APPEND else el for el in case["seq"]]
    return c


def exhaustive_frames(ctx, nmax, alphabet, reqlists, backings, scale_cycle):
    i = 0
    for n in range(nmax + 1):
        for rows in itertools.product(alphabet, repeat=n):
            for reqs in reqlists:
                s, m = scale_cycle[i % len(scale_cycle)]
                i += 1
                # the lazily backed variant cycles through every way of getting a lazily backed frame
                bk = [LAZY_CYCLE[(i // 3) % len(LAZY_CYCLE)] if b == "gen" else b for b in backings]
                # ... and the columns through every rotation (a requested column at position 0, at the end)
                yield rotate_columns(base(rows, reqs, backings=bk, scale=s, mixed=m), i // 2)


LAZY_CYCLE = ["gen", "select", "filter", "take", "gen", "genselect"]
ODD_NAMES = ["é", "a b", "col(1)", "SUM", "日本", "v)", "(", "0", "None", "k.j", " ", "MIN(v", "K", "v "]


def rename_columns(c, mapping):
    """The same case with its columns renamed (keys, value columns and requests follow)."""
    def m(x):
        return mapping.get(x, x)
    c2 = dict(c)
    c2["columns"] = [m(x) for x in c["columns"]]
    c2["vcols"] = [m(x) for x in c["vcols"]]
    if "keys" in c:
        c2["keys"] = [m(x) for x in c["keys"]]
    if "reqs" in c:
        c2["reqs"] = [[f, m(col)] for f, col in c["reqs"]]
    if "gbs" in c:
        c2["gbs"] = [[m(x) for x in g] for g in c["gbs"]]
        c2["seq"] = [dict(el, reqs=[[f, m(col)] for f, col in el["reqs"]]) if "reqs" in el else dict(el) for el in c["seq"]]
    return c2


REPRESENTATIVE = [
    [],
    [[-1, 1, None]],
    [[-1, None, None]],
    [[-1, 1, 5], [-2, 2, None]],
    [[-1, None, 5], [-2, 2, None], [-1, None, None]],
    [[-1, 3, 5], [-1, 1, 7], [-1, 2, 6]],
    [["a", 2, None], [-2, None, None], ["a", 1, 4], [-1, 1, 1], [-2, None, 9]],
    [[0, -3, 2], [2**61 - 1, 3, -2], [0, None, 2], [2**61 - 1, 4, None], [None, 1, 1], [None, None, None]],
    [[True, 1, 1], [False, 2, 2], [None, 3, 3], [True, None, 4]],
    [[0.5, 1, 1], [-0.5, 2, 2], [0.5, 3, None], [1e300, None, None]],
    [["", 7, -7], ["a", -7, 7], ["", 0, 0], ["A", None, 0]],
    [[-1, 2**62, 1], [-1, 2**62, 1], [-2, -(2**62), 1], [-2, 1, None]],
]


def gen_key_value(rng, family):
    if rng.random() < 0.12:
        return None
    if family == "int":
        return rng.choice([-1, -2, 0, 2**61 - 1, 1, 2, 3, -3, 2**61, 2**61 - 2, -(2**61), 2**62, 10**20])
    if family == "text":
        # ... with pairs that a normalisation of text keys would merge: case, trailing blank, NFC / NFD, casefold
        return rng.choice(["a", "b", "", "A", "é", "ab", "a ", "日本", "-1", "None", "e\u0301", "ß", "ss", " a", "null"])
    if family == "bool":
        return rng.random() < 0.5
    if family == "float":
        return rng.choice([0.5, -0.5, 1.5, 2.25, 1e300, -1e-300, float("inf"), float("-inf"), 0.1])
    if family == "eqnum":
        # equal numbers written differently (bool / int / float, both zeros), exactness at 2**53, hash-colliding
        # neighbours (hash(2**61 - 1) == hash(0) == hash(False) == hash(0.0), hash(2.0**61) == hash(1) == hash(True))
        return rng.choice([0, 0.0, -0.0, False, 1, 1.0, True, 1, 1.0, True, 2, 2.0, -1, -1.0, -2, -2.0, 2**53, float(2**53), 2**53 + 1,
                           2**61 - 1, 2**61, float(2**61), 10**20, 1e20, 0.5, float("inf")])
    if family == "eqmix":
        # ... next to texts that look like them (never equal to a number) and to ordinary keys
        return rng.choice([0, -0.0, False, 1, 1.0, True, 2, 2.0, "1", "1.0", "True", "0", "", "a", 7, 7.0, 7.5])
    # mixed: no 0/1 ints next to the booleans, no integral floats next to ints
    return rng.choice(["a", "", "2", "-1", "True", "0.5", 2, -1, -2, 2**61 - 1, 7, True, False, 0.5, -1.5, 2.5])


def random_case(ctx, big=False):
    rng = ctx.rng
    nkeys = rng.choice([1, 1, 1, 2, 2, 3])
    kcols = ["k%d" % i for i in range(nkeys)]
    nv = rng.choice([1, 2, 2, 3])
    vcols = ["v", "w", "x"][:nv]
    # a share of the stream: keys that are equal but written differently (`keq`, judged by Python's ==)
    keq = rng.random() < 0.14
    if keq:
        families = [rng.choice(["eqnum", "eqnum", "eqmix", "text", "bool"]) for _ in kcols]
        families[rng.randrange(nkeys)] = rng.choice(["eqnum", "eqmix"])
    else:
        families = [rng.choice(["int", "int", "text", "bool", "float", "mixed"]) for _ in kcols]
    extra = ["pad"] if rng.random() < 0.3 else []
    cols = kcols + vcols + extra
    order = list(range(len(cols)))
    rng.shuffle(order)
    if big:
        n = rng.choice([30, 60, 120, 250])
    else:
        n = rng.choice([0, 1, 2, 3, 4, 5, 6, 8, 12, 20])
    vkind = rng.choice(["number"] * 7 + ["text", "decimal", "decimal", "bool", "xfloat", "xfloat"])
    if keq and vkind == "xfloat":
        vkind = "number"
    pspecial = 0.0
    if vkind == "xfloat":
        # floats with NaN, the infinities and the negative zero among them
        scale, mixed = rng.choice([(1, False), (4, False), (8, False), (4, True)])
        mag = rng.choice([3, 3, 20, 1000])
        pspecial = rng.choice([0.1, 0.3, 0.6])
        specials = rng.choice([["nan"], ["nan", "inf", "-inf", "-0"], ["nan", "nan", "inf", "-0"], ["inf", "-inf"], ["-0", "nan"]])
    elif vkind == "text":
        scale, mixed, mag = 1, False, None
    elif vkind == "bool":
        scale, mixed, mag = 1, False, None
    elif vkind == "decimal":
        scale, mixed = rng.choice(DECIMAL_SCALES), rng.random() < 0.4  # mixed: ints among the Decimals
        mag = rng.choice([3, 20, 1000, 10**15])
    else:
        scale, mixed = rng.choice([(1, False), (1, False), (4, False), (4, True), (8, True)])
        mag = rng.choice([3, 3, 20, 1000, 2**40]) if scale > 1 else rng.choice([3, 3, 20, 1000, 2**40, 2**64, 10**30])
    funcs = ["MIN", "MAX", "COUNT"] if vkind == "text" else FUNCS
    pnull = rng.choice([0.0, 0.2, 0.5, 0.9])
    small = [[gen_key_value(rng, f) for f in families] for _ in range(rng.choice([1, 2, 3, 5]))]
    rows = []
    for _ in range(n):
        key = list(rng.choice(small)) if rng.random() < 0.8 else [gen_key_value(rng, f) for f in families]
        vals = [None if rng.random() < pnull else rng.choice(specials) if rng.random() < pspecial else
                (rng.randrange(len(TEXT_RANKS)) if vkind == "text" else rng.randrange(2) if vkind == "bool"
                 else rng.randint(-mag, mag)) for _ in vcols]
        full = key + vals + ["p" for _ in extra]
        rows.append([full[i] for i in order])
    cols = [cols[i] for i in order]
    # null out the value columns of a whole group now and then
    if rows and rng.random() < 0.3:
        victim = rows[rng.randrange(len(rows))]
        kidx = [cols.index(k) for k in kcols]
        same = same_key({"keq": keq})
        for r in rows:
            if same([r[i] for i in kidx], [victim[i] for i in kidx]):
                for v in vcols:
                    if rng.random() < 0.8:
                        r[cols.index(v)] = None
    keys = list(kcols)
    rng.shuffle(keys)
    c = {"columns": cols, "vcols": list(vcols), "keys": keys, "rows": rows, "scale": scale, "mixed": mixed}
    if keq:
        c["keq"] = True
    if vkind != "number":
        c["vkind"] = vkind
    elif scale > 1 and not mixed and rng.random() < 0.3:
        c["negzero"] = True  # float zeros are -0.0
    r = rng.random()
    if r < 0.08:
        c["op"] = "groups"
        c["reqs"] = []
    elif r < 0.25:
        via = rng.choice(["min", "max", "count"] if vkind == "text" else ["min", "max", "sum", "avg", "count"])
        c["via"] = via
        if via == "count":
            c["reqs"] = [["COUNT", "*"]]
        else:
            k = rng.choice([1, 1, 2, 3])
            c["reqs"] = [[WRAPPERS[via], rng.choice(vcols)] for _ in range(k)]
            c["bare_col"] = rng.random() < 0.5
            c["col_container"] = rng.choice(["list", "list", "tuple", "set"])
    else:
        k = rng.choice([1, 1, 2, 2, 3, 3, 4, 6])
        c["reqs"] = [rng.choice([["COUNT", "*"]] + [[f, v] for f in funcs for v in vcols]) for _ in range(k)]
        if k == 1 and rng.random() < 0.3:
            c["via"] = "aggregate_bare"
    if len(keys) == 1:
        c["bare_key"] = rng.random() < 0.5
    if rng.random() < 0.2:
        c["key_container"] = "tuple"
    c["backings"] = rng.choice([["list"], ["gen"], ["list", "gen"], ["list", "gen", "dicts"], ["dicts"], ["schema", "gen"],
                                ["select"], ["filter", "list"], ["take"], ["genselect", "dicts"], ["list", "take", "select"],
                                ["decoy"], ["decoy", "gen"]])
    if 2 <= n <= 5 and rng.random() < 0.3:
        c["all_perms"] = True
    elif n > 5 and rng.random() < 0.3:
        ps = []
        for _ in range(3):
            p = list(range(n))
            rng.shuffle(p)
            ps.append(p)
        ps.append(list(reversed(range(n))))
        c["perms"] = ps
    if rng.random() < 0.03 and c.get("op") != "groups" and c.get("via", "aggregate") == "aggregate":
        c["keys"] = c["keys"] + ["nope"]  # a key column that is not in the frame (correspondence only)
    if rng.random() < 0.15:
        names = rng.sample(ODD_NAMES, len(c["columns"])) if len(c["columns"]) <= len(ODD_NAMES) else []
        c2 = rename_columns(c, dict(zip(c["columns"], names)))
        if names and valid_case(c2):
            c = c2  # non-ASCII names, blanks, parentheses, names that look like labels or numbers
    if not in_domain(c):
        return random_case(ctx, big)
    return c


def collision_case(ctx):
    """Keys that are distinct but hash alike in CPython: -1/-2, 0/2**61-1, and tuples of them."""
    rng = ctx.rng
    pool = rng.choice([[-1, -2], [0, 2**61 - 1], [-1, -2, 0, 2**61 - 1], [2**61, 1], [-(2**61 - 1) - 1, -2, -1],
                       [2 * (2**61 - 1), 0, 2**61 - 1]])
    nk = rng.choice([1, 2])
    n = rng.randint(2, 7)
    rows = [[rng.choice(pool) for _ in range(nk)] + [rng.choice([None, 1, 2, 5]), rng.choice([None, 3])] for _ in range(n)]
    cols = ["k0", "k1"][:nk] + ["v", "w"]
    reqs = rng.choice([ALL_SIX, [["SUM", "v"], ["SUM", "w"], ["COUNT", "*"]], [["COUNT", "*"]]])
    return {"columns": cols, "vcols": ["v", "w"], "keys": cols[:nk], "rows": rows, "reqs": reqs, "scale": 1,
            "backings": rng.choice([["list"], ["gen"], ["select"], ["take"], ["filter"]]), "all_perms": n <= 4}


SEQ_ALPHABET = [
    {"op": "aggregate", "reqs": [["SUM", "v"]]},
    {"op": "aggregate", "reqs": [["COUNT", "*"]], "via": "count"},
    {"op": "aggregate", "reqs": [["COUNT", "v"], ["MAX", "v"]]},
    {"op": "aggregate", "reqs": [["SUM", "v"]], "via": "sum", "bare_col": True},
    {"op": "aggregate", "reqs": [["AVG", "w"]], "via": "avg"},
    {"op": "aggregate", "reqs": [["MIN", "v"]], "via": "min"},
    {"op": "groups", "reqs": []},
    {"op": "aggregate", "reqs": [["SUM", "v"], ["SUM", "w"], ["COUNT", "*"]]},
    {"op": "aggregate", "reqs": [["MAX", "w"]], "via": "max", "bare_col": True},
]
SEQ_FRAMES = [
    [],
    [[-1, "a", 1, None]],
    [[-1, "a", 1, 5], [-2, "a", 2, None]],
    [[-1, "a", None, 5], [-2, "a", 2, None], [-1, "a", None, None]],
    [[0, "a", 3, 5], [0, "b", 1, 7], [2**61 - 1, "a", 2, 6], [0, "a", 4, None]],
    [[None, "", 2, None], [-2, "", None, None], [None, "", 1, 4], [-1, "x", 1, 1], [-2, "", None, 9]],
]


X_REQS = [
    [["COUNT", "v"], ["SUM", "v"], ["AVG", "v"], ["COUNT", "*"], ["MIN", "v"], ["MAX", "v"]],
    [["SUM", "v"], ["COUNT", "w"]],
    [["AVG", "v"]],
    [["COUNT", "v"]],
]
X_SEQ_FRAME = [[-1, "a", "nan", 5], [-2, "a", 2, None], [-1, "a", None, "inf"], [-1, "b", "-0", "-inf"], [-2, "a", "inf", "nan"]]


APPEND_ROWS = [[-1, "a", 7, None], [5, "z", None, None], [2**61 - 1, "a", 1, 1], [None, "", None, 2], [-2, "a", 0, 0]]


KEY_EDITS = [["append", "v"], ["clear"], ["reverse"], ["replace", 0, "j"], ["pop"], ["append", "j"], ["sort"],
             ["replace", 1, "w"], ["append", "nope"], ["become", 1]]


def key_edit_sessions(rows, seq, i):
    """create -> the caller edits its own key list -> evaluate (-> edit again -> evaluate again)."""
    ed = KEY_EDITS[i % len(KEY_EDITS)]
    ed2 = KEY_EDITS[(i // len(KEY_EDITS) + 3) % len(KEY_EDITS)]
    objs = [[["k", "j"], ["j"]], [["k"], ["k", "j"]], [["j", "k"], ["k", "j"]]][i % 3]
    back = ["list"] if i % 4 else [["gen", "take", "decoy", "select"][(i // 4) % 4]]
    first = {"op": EDIT_KEYS, "gb": 0, "edit": ed}
    if len(objs[0]) == 1 and i % 2:
        first["key_container"] = "set"
    if ed[0] == "become":
        # one list object reused for the next grouping: the object made from it groups by the new content, the
        # earlier one by the content it was created with
        if len(seq) == 1:
            yield seq_base(rows, [first, dict(seq[0], gb=1), dict(seq[0], gb=0)], objs, back)
        else:
            yield seq_base(rows, [dict(seq[0], gb=0), first, dict(seq[1], gb=1), dict(seq[0], gb=0)], objs, back)
    elif len(seq) == 1:
        yield seq_base(rows, [first, dict(seq[0], gb=0)], objs, back)
    else:
        # evaluated, edited, evaluated again (the registry of the object is filled by then); the other object too
        yield seq_base(rows, [dict(seq[0], gb=0), first, dict(seq[1], gb=0)], objs, back)
        if i % 2 == 0:
            yield seq_base(rows, [first, dict(seq[0], gb=0), {"op": EDIT_KEYS, "gb": 1, "edit": ed2}, dict(seq[1], gb=1),
                                  dict(seq[0], gb=0)], objs, back)


def seq_base(rows, seq, gbs, backings):
    return {"columns": ["k", "j", "v", "w"], "vcols": ["v", "w"], "rows": [list(r) for r in rows], "scale": 1,
            "gbs": [list(g) for g in gbs], "seq": [dict(e) for e in seq], "backings": list(backings)}


def exhaustive_sequences(ctx, maxlen):
    """Every sequence of 1..maxlen calls over SEQ_ALPHABET on one GroupBy object, and the same
    sequences alternating between two GroupBy objects of the frame with the key columns in both orders."""
    i = 0
    for rows in SEQ_FRAMES:
        for n in range(1, maxlen + 1):
            for seq in itertools.product(SEQ_ALPHABET, repeat=n):
                i += 1
                second = ["gen", "dicts", "schema", "select", "filter", "take", "genselect", "decoy"]
                back = ["list"] if i % 5 else ["list", second[(i // 5) % len(second)]]
                yield seq_base(rows, seq, [["k", "j"]], back)
                if n == 1 or i % 3 == 0:
                    yield from key_edit_sessions(rows, seq, i)
                if n >= 2:
                    alt = [dict(e, gb=j % 2) for j, e in enumerate(seq)]
                    yield seq_base(rows, alt, [["k", "j"], ["j", "k"]], ["list"])
                    if i % 3 == 0:
                        # objects that group by different columns, on a lazily backed frame
                        yield seq_base(rows, alt, [["k"], ["j", "k"]], [LAZY_CYCLE[(i // 3) % len(LAZY_CYCLE)]])
                if n == 2:
                    # a row is appended to the frame between the two calls (use, mutate, use again)
                    ab = ["list", "gen", "dicts", "select", "take", "filter", "genselect"][i % 7]
                    yield seq_base(rows, [seq[0], {"op": APPEND, "row": APPEND_ROWS[i % len(APPEND_ROWS)]}, seq[1]],
                                   [["k", "j"]], [ab])
                    if i % 4 == 0:
                        yield seq_base(rows, [dict(seq[0], gb=0), {"op": APPEND, "row": APPEND_ROWS[(i // 4) % len(APPEND_ROWS)]},
                                              dict(seq[1], gb=1), dict(seq[0], gb=0)], [["k"], ["j", "k"]], [ab])
                    # the frame itself is used between the two calls (len / rowcount / one step of an iteration)
                    mid = {"op": NOOPS[i % len(NOOPS)]}
                    objs = [[["k", "j"], ["j"]], [["k"], ["j"]]][(i // 2) % 2]  # also: as many key columns, other ones
                    yield seq_base(rows, [seq[0], mid, dict(seq[1], gb=i % 2)], objs, [LAZY_CYCLE[i % len(LAZY_CYCLE)]])


def random_seq_case(ctx, big=False):
    rng = ctx.rng
    while True:
        c = random_case(ctx, big)
        if c.get("op") != "groups" and "nope" not in c["keys"]:
            break
    vcols = c["vcols"]
    keys = c["keys"]
    gbs = [list(keys)]
    if rng.random() < 0.5:
        k2 = list(keys)
        rng.shuffle(k2)
        gbs.append(k2)
        if rng.random() < 0.3:
            gbs.append(list(reversed(keys)))
    if len(keys) >= 2 and rng.random() < 0.4:
        gbs.append(rng.sample(keys, rng.randint(1, len(keys) - 1)))  # an object grouping by fewer columns
        if rng.random() < 0.5:
            gbs.append(rng.sample(keys, len(gbs[-1])))  # … and one grouping by as many columns, possibly others
    seq = []
    for _ in range(rng.choice([1, 2, 2, 3, 3, 4, 6])):
        r = rng.random()
        if seq and rng.random() < 0.12:
            seq.append({"op": rng.choice(NOOPS)})  # the frame itself is used between two calls
        prior = [e for e in seq if not is_noop(e)]
        if prior and r < 0.25:
            el = dict(rng.choice(prior))  # an identical request again (possibly on another object)
        elif r < 0.4:
            el = {"op": "groups", "reqs": []}
        elif r < 0.6:
            via = rng.choice(["min", "max", "count"] if c.get("vkind") == "text" else ["min", "max", "sum", "avg", "count"])
            if via == "count":
                el = {"op": "aggregate", "via": "count", "reqs": [["COUNT", "*"]]}
            else:
                el = {"op": "aggregate", "via": via, "bare_col": rng.random() < 0.5,
                      "col_container": rng.choice(["list", "tuple", "set"]),
                      "reqs": [[WRAPPERS[via], rng.choice(vcols)] for _ in range(rng.choice([1, 1, 2]))]}
        else:
            el = {"op": "aggregate", "reqs": [rng.choice([["COUNT", "*"]] + [[f, v] for f in allowed_funcs(c) for v in vcols])
                                              for _ in range(rng.choice([1, 1, 2, 3, 4]))]}
        el["gb"] = rng.randrange(len(gbs))
        el.pop("bare_key", None)
        if len(gbs[el["gb"]]) == 1:
            el["bare_key"] = bool(c.get("bare_key"))
        seq.append(el)
    out = {k: c[k] for k in SUB_KEYS if k in c}
    out.update({"gbs": gbs, "seq": seq,
                "backings": rng.choice([["list"], ["list"], ["gen"], ["dicts"], ["schema"], ["list", "gen"], ["select"],
                                        ["filter"], ["take"], ["genselect"], ["take", "list"], ["decoy"], ["decoy"]])})
    if rng.random() < 0.2 and "schema" not in out["backings"]:
        # rows are appended to the frame between calls: cells resampled column by column from the frame
        rows = out["rows"]
        for _ in range(rng.choice([1, 1, 2, 3])):
            new = [rng.choice(rows)[i] if rows else None for i in range(len(out["columns"]))]
            new = [x % 2**40 if isinstance(x, int) and not isinstance(x, bool) and not -2**63 <= x < 2**63 else x for x in new]
            out["seq"].insert(rng.randrange(len(out["seq"]) + 1), {"op": APPEND, "row": new})
    if rng.random() < 0.25:
        # the caller edits, in place, a key list it handed to group_by (before the first evaluation or between two)
        for _ in range(rng.choice([1, 1, 2])):
            g = rng.randrange(len(gbs))
            kind = rng.choice(["append", "append", "clear", "reverse", "sort", "pop", "replace", "become"])
            ed = [kind]
            if kind in ("append", "replace"):
                if kind == "replace":
                    ed.append(rng.randrange(4))
                ed.append(rng.choice(out["columns"] + ["nope"]))
            elif kind == "become":
                ed.append(rng.randrange(len(gbs)))
            el = {"op": EDIT_KEYS, "gb": g, "edit": ed}
            if len(gbs[g]) == 1 and rng.random() < 0.3:
                el["key_container"] = "set"
            out["seq"].insert(rng.randrange(len(out["seq"])), el)
    if not valid_seq_case(out) or not all(in_domain(sub) for _, sub in seq_subs(out) if sub is not None):
        return random_seq_case(ctx, big)
    return out


EQ_ROWS1 = row_alphabet([1, 1.0, True, 0, -0.0, False, None], [None, 3], [1])
EQ_ROWS2 = [[k, j, v, 1] for k in (1, True, 1.0, 0) for j in ("a", 1, 1.0, None) for v in (None, 2)]
EQ_REQS = [ALL_SIX, [["SUM", "v"], ["COUNT", "*"]], [["COUNT", "v"], ["MAX", "v"], ["SUM", "w"]]]
EQ_SEQ_FRAME = [[1, "a", 1, 5], [1.0, "a", 2, None], [True, "b", None, 1], [0, "a", 3, 3], [-0.0, "a", None, None], [False, "b", 4, 4]]
EQ_APPEND_ROWS = [[True, "a", 7, None], [0.0, "b", None, None], [2, "a", 1, 1], [1.0, "b", 0, 0]]


def equal_key_cases(ctx, nmax):
    """Keys that are equal but written differently (seeded change C12-w5s1: a group identified by
    (type, value) pairs)."""
    i = 0
    for n in range(nmax + 1):
        for rows in itertools.product(EQ_ROWS1, repeat=n):
            i += 1
            bk = ["list"] if i % 4 else ["list", (LAZY_CYCLE + ["dicts", "schema", "decoy"])[(i // 4) % (len(LAZY_CYCLE) + 3)]]
            if i % 11 == 0:
                yield dict(base(rows, [], backings=bk, keq=True), op="groups")
            else:
                yield base(rows, EQ_REQS[i % len(EQ_REQS)] if n >= 3 else EQ_REQS[0], backings=bk, keq=True,
                           all_perms=(2 <= n <= 3 and i % 5 == 0), bare_key=bool(i % 2))
    for n in range(3):
        for rows in itertools.product(EQ_ROWS2, repeat=n):
            i += 1
            yield {"columns": ["k", "j", "v", "w"], "vcols": ["v", "w"], "keys": [["k", "j"], ["j", "k"]][i % 2], "rows": [list(r) for r in rows],
                   "reqs": EQ_REQS[i % len(EQ_REQS)], "scale": 1, "keq": True, "all_perms": n == 2 and i % 3 == 0,
                   "backings": ["list"] if i % 3 else [LAZY_CYCLE[(i // 3) % len(LAZY_CYCLE)]], "key_container": ["list", "tuple"][(i // 2) % 2]}
    for seq in itertools.product(SEQ_ALPHABET, repeat=2):
        i += 1
        yield dict(seq_base(EQ_SEQ_FRAME, seq, [["k", "j"]], ["list"] if i % 2 else [LAZY_CYCLE[i % len(LAZY_CYCLE)]]), keq=True)
        yield dict(seq_base(EQ_SEQ_FRAME, [dict(seq[0], gb=0), dict(seq[1], gb=1)], [["k"], ["j", "k"]], ["list"]), keq=True)
        yield dict(seq_base(EQ_SEQ_FRAME, [seq[0], {"op": APPEND, "row": EQ_APPEND_ROWS[i % len(EQ_APPEND_ROWS)]}, seq[1]],
                            [["k", "j"]], [["list", "gen", "dicts", "take"][i % 4]]), keq=True)


def scale_cases(ctx):
    """Frames beyond every round number a fast path or a batch size could hide behind (DataFrame.arraysize = 100,
    to_batches(1000), 256 / 512 / 1024 groups): many rows in few groups, and as many groups as rows."""
    rng = ctx.rng
    shapes = ctx.scale([(1030, 5), (300, 300)], [(1100, 7), (600, 600), (2100, 1100), (5000, 3), (1030, 515), (300, 257)])
    for n, g in shapes:
        ks = [(i % g) - g // 2 for i in range(n)]
        rng.shuffle(ks)
        rows = [[k, "a" if k % 3 else "b", None if rng.random() < 0.3 else rng.randint(-9, 9), 1 if i == 0 else None]
                for i, k in enumerate(ks)]
        yield {"columns": ["k", "j", "v", "w"], "vcols": ["v", "w"], "keys": ["k"] if g > 100 else ["j", "k"], "rows": rows, "scale": 1,
               "reqs": [["COUNT", "*"], ["SUM", "v"], ["MAX", "w"]], "backings": [rng.choice(["list", "gen", "take", "dicts"])]}
        yield {"columns": ["k", "j", "v", "w"], "vcols": ["v", "w"], "rows": rows, "scale": 1, "gbs": [["k"]],
               "seq": [{"op": "groups", "reqs": []}, {"op": "aggregate", "reqs": [["COUNT", "v"]], "gb": 0}],
               "backings": [rng.choice(["list", "select"])]}


def observe_outside_domain(ctx):
    """Inputs the property does not speak about (see design_notes/C12.md, "What the property demands of the
    values"): what orso does with them is recorded in the evidence and never judged."""
    from orso import DataFrame

    nan = float("nan")

    def obs(name, fn):
        try:
            r = fn()
        except Exception as e:  # noqa: BLE001 - the class is the observation
            r = "raises " + type(e).__name__
        ctx.hit("outside-domain:%s:%s" % (name, r))

    def agg(rows, reqs, cols=("k", "v"), keys="k"):
        res = DataFrame(rows=list(rows), schema=list(cols)).group_by(keys).aggregate(list(reqs))
        return [tuple(r) for r in res]

    def same(a, b):
        return "order-independent" if repr(a) == repr(b) else "depends-on-row-order"

    # MIN / MAX need a total order on the values (theorem min_of_total_order_ignores_row_order)
    obs("min-over-nan", lambda: same(agg([("a", nan), ("a", 1.0)], [("MIN", "v")]), agg([("a", 1.0), ("a", nan)], [("MIN", "v")])))
    obs("count-over-nan", lambda: "counts-nan-as-a-value" if agg([("a", nan), ("a", None)], [("COUNT", "v")])[0][0] == 1 else "other")
    obs("min-over-int-and-text", lambda: agg([("a", 1), ("a", "x")], [("MIN", "v")]) and "returns")
    obs("count-over-int-and-text", lambda: "counts" if agg([("a", 1), ("a", "x")], [("COUNT", "v")])[0][0] == 2 else "other")
    obs("sum-over-float-and-decimal", lambda: agg([("a", 0.5), ("a", Decimal("0.5"))], [("SUM", "v")]) and "returns")
    obs("sum-over-text", lambda: agg([("a", "x")], [("SUM", "v")]) and "returns")
    # keys: grouping is by Python equality of the key tuples
    # (equal keys written differently — True / 1 / 1.0, 0.0 / -0.0 — are inside the property: the `keq` stream)
    obs("keys-Decimal-1-and-1", lambda: "%d group(s)" % len(agg([(Decimal(1), 1), (1, 2)], [("COUNT", "*")])))
    obs("keys-two-nan-objects", lambda: "%d group(s)" % len(agg([(float("nan"), 1), (float("nan"), 2)], [("COUNT", "*")])))
    obs("keys-one-nan-object-twice", lambda: "%d group(s)" % len(agg([(nan, 1), (nan, 2)], [("COUNT", "*")])))
    obs("key-unhashable", lambda: agg([([1], 1)], [("COUNT", "*")]) and "returns")
    # requests
    obs("no-requests", lambda: "%d row(s) for 2 keys" % len(agg([("a", 1), ("b", 2)], [])))
    obs("function-not-in-AGGREGATORS", lambda: agg([("a", 1)], [("MEDIAN", "v")]) and "returns")
    obs("column-not-in-frame-SUM", lambda: agg([("a", 1)], [("SUM", "nope")]) and "returns")
    obs("column-not-in-frame-COUNT", lambda: "counts-rows" if agg([("a", 1), ("a", None)], [("COUNT", "nope")])[0][0] == 2 else "other")


WIDE_ROWS = [[-1, "a", 1, 5], [-2, "b", 2, None], [-1, "a", None, 7], [-1, "b", 4, None], [-2, "b", None, None], [-1, "a", 6, 1]]
WIDE_REQS = [[["COUNT", "*"], ["SUM", "v"]], ALL_SIX, [["MAX", "w"], ["COUNT", "v"], ["AVG", "w"]], [["MIN", "w"]]]
WIDE_WIDTHS = (129, 257, 300)
WIDE_HUGE = (32769, 65537)


def wide_cases(ctx):
    """Deterministic: few rows, many columns.  The columns k, j (keys) and v, w (values) stand at every choice of
    positions from {0, 127, 128, 255, 256, width-1} (huge widths: also 32767, 32768, 65535, 65536) — one column at a
    limit and the others at the start, all four around one limit, keys past it and values before it and the other
    way round — for one- and two-column keys, every backing (huge widths: list, generator, dictionaries), single
    calls, groups(), the wrappers, and sessions (two objects; a row appended between two calls)."""
    cols = ["k", "j", "v", "w"]
    n = 0

    def case(width, at, keys, reqs, backings, **kw):
        c = {"columns": list(cols), "vcols": ["v", "w"], "keys": list(keys), "rows": [list(r) for r in WIDE_ROWS],
             "reqs": [list(q) for q in reqs], "scale": 1, "backings": list(backings), "wide": {"width": width, "at": list(at)}}
        c.update(kw)
        return c

    def layouts(width, marks):
        marks = sorted({m for m in marks if 0 <= m < width})
        seen = []
        # one column at a mark, the others in the first places
        for i in range(4):
            for m in marks:
                rest = [p for p in range(4) if p != m][:3]
                at = rest[:i] + [m] + rest[i:]
                seen.append(at)
        # all four around one mark, in both orders
        for m in marks:
            lo = min(max(m - 1, 0), width - 4)
            seen.append([lo, lo + 1, lo + 2, lo + 3])
            seen.append([lo + 3, lo + 2, lo + 1, lo])
        # keys at the two highest marks and values at the two lowest, and the other way round
        if len(marks) >= 4:
            seen.append([marks[-1], marks[-2], marks[0], marks[1]])
            seen.append([marks[0], marks[1], marks[-1], marks[-2]])
            seen.append([marks[-2], marks[0], marks[-1], marks[1]])
        out = []
        for at in seen:
            if len(set(at)) == 4 and at not in out:
                out.append(at)
        return out

    all_backings = [["list", "gen"], ["dicts", "select"], ["filter", "take"], ["genselect", "schema"], ["list", "decoy"]]
    for width in WIDE_WIDTHS:
        for at in layouts(width, (0, 127, 128, 255, 256, width - 1)):
            for keys in (["k"], ["k", "j"], ["j", "k"]):
                n += 1
                bk = all_backings[n % len(all_backings)]
                yield case(width, at, keys, WIDE_REQS[n % len(WIDE_REQS)], bk)
                if n % 3 == 0:
                    yield case(width, at, keys, [], bk[:1], op="groups")
                if n % 5 == 0:
                    yield case(width, at, keys, [["SUM", "v"], ["SUM", "w"]], ["list"], via="sum")
                if n % 7 == 0:
                    yield case(width, at, keys, [["COUNT", "*"]], ["gen"], via="count")
                if n % 4 == 0:
                    c = case(width, at, keys, [], bk[:1])
                    c.pop("keys"), c.pop("reqs")
                    c["gbs"] = [list(keys), ["j"]]
                    c["seq"] = [{"op": "aggregate", "gb": 0, "reqs": [["SUM", "v"], ["COUNT", "*"]]},
                                {"op": APPEND, "row": [-2, "a", 9, 9]},
                                {"op": "aggregate", "gb": 1, "reqs": [["MAX", "w"], ["COUNT", "v"]]},
                                {"op": "groups", "gb": 0}]
                    yield c
    huge = WIDE_HUGE if ctx.tier == "thorough" or ctx.time_left() > 30 else ()
    for width in huge:
        for i, at in enumerate(layouts(width, (0, 32767, 32768, 65535, 65536, width - 1))):
            if ctx.tier != "thorough" and i % 3 and not (at[0] >= 32767 and max(at[1:]) < 4):
                continue  # quick tier: a third of the layouts, and every one with the key column k alone at a limit
            n += 1
            yield case(width, at, (["k"], ["k", "j"], ["j", "k"])[n % 3], WIDE_REQS[n % 2], (["list"], ["gen"], ["dicts"])[n % 3],
                       rows=[list(r) for r in WIDE_ROWS[:3]])


def corpus_cases():
    out = []
    for p in sorted(glob.glob(os.path.join(VERIF, "corpus", "C12", "*.json"))):
        out.append(unjson(json.load(open(p))))
    for p in [os.path.join(VERIF, "findings", "C12.json")]:
        if os.path.exists(p):
            for e in json.load(open(p)):
                if "witness" in e:
                    out.append(unjson(e["witness"]))
    return out


def _batches(ctx, gen, size=2000, code_every=1):
    batch = []
    total = 0
    for c in gen:
        batch.append(c)
        if len(batch) >= size:
            evaluate(ctx, batch, code_every)
            total += len(batch)
            batch = []
            if ctx.violations:
                return total
            if ctx.time_left() < 0:
                # a slow or loaded machine: the scope is cut short and the evidence says so (the cases already
                # evaluated stand; nothing is claimed about the rest), instead of ending the check with exit 2
                cut = getattr(ctx, "_c12_cut_short", [])
                cut.append({"after_cases": total})
                ctx._c12_cut_short = cut
                ctx.note("exhaustive_cut_short", cut)
                return total
    evaluate(ctx, batch, code_every)
    return total + len(batch)


def run(ctx):
    ctx.note("rule", "a case is a frame + key columns + request list (+ backings and row permutations) run on orso, on the "
             "Lean model and on the Python mirror; non-trivial = at least 2 rows and at least one group; distinct by canonical JSON")
    ctx.note("assumptions", [
        "keys: outside the dedicated stream they are drawn from domains on which Python == and structural equality coincide (no "
        "True next to 1, no 1.0 next to 1, no NaN, no -0.0; checked per case); the `keq` stream holds keys that are equal but "
        "written differently (1 / 1.0 / True, 0 / 0.0 / -0.0 / False, 2**53 / 2.0**53, composite keys differing in one such "
        "component) and is judged by a reference that partitions by Python's == (one output row per class of equal keys; which "
        "member of the class the row shows is not demanded), Lean model Model/GroupByEq.lean; a NaN is never a key",
        "every cell handed to the implementation is a fresh object: equal keys are not identical objects by accident",
        "value columns hold ints and dyadic floats (sums exact and order independent); the model computes on the integers "
        "x of x/scale, the Python mirror on the real values, and the two are compared exactly on every case",
        "a float NaN is a value, not a null: float columns with NaN, inf, -inf and -0.0 are judged NaN-aware for COUNT, SUM, AVG "
        "and COUNT(*) (Lean model Model/GroupByX.lean); MIN / MAX over a group that holds a NaN depend on the row order in "
        "Python and are not judged",
        "rows appended to the frame between two calls (DataFrame.append) are seen by every later call; appended integers stay "
        "within 64 bits (append sizes the row with msgpack)",
        "a failing input is re-judged in a fresh interpreter before it is reported, so that every replay fails alone",
        "AVG is compared as an exact rational with orso's decimal quotient within 1e-25 relative",
        "output order (of rows and of columns) is not part of the property: columns are matched by name, rows by key; "
        "whether the implementation also has the model's layout is recorded in input_distribution",
    ])
    import time
    secs = {}
    t0 = time.time()
    evaluate(ctx, corpus_cases())
    observe_outside_domain(ctx)
    scope = []
    # E0: wide frames — the key and value columns at and past the limits of small integer containers
    wc = list(wide_cases(ctx))
    evaluate(ctx, wc)
    for c in wc:
        ctx.hit("wide:width:%d" % c["wide"]["width"])
        keys = c["keys"] if "keys" in c else c["gbs"][0]
        for name, p in zip(c["columns"], c["wide"]["at"]):
            kind = "key" if name in keys else "value"
            ctx.hit("wide:%s-column-at:%s" % (kind, p if p in WIDE_LIMITS else "width-1" if p == c["wide"]["width"] - 1 else "near-a-limit"))
        ctx.hit("wide:keys:%d" % len(keys))
    scope.append("wide frames: %d rows, widths %s, the key columns k, j and the value columns v, w at positions from {0, 127, 128, "
                 "255, 256, 32767, 32768, 65535, 65536, width-1} (one column at a limit, all four around a limit in both orders, "
                 "keys past and values before a limit and the other way round), one- and two-column keys, every backing "
                 "(widths past %d: list, generator, dictionaries), aggregate / groups / wrappers / sessions with an append "
                 "(%d cases)" % (len(WIDE_ROWS), sorted({c["wide"]["width"] for c in wc}), WIDE_SLOW, len(wc)))
    secs["E0"] = round(time.time() - t0, 1)
    # E1: every frame of 0..n rows over a 12-row alphabet (colliding keys, nulls, all-null groups),
    #     four request lists, all three backings
    n1 = ctx.scale(3, 4)
    a1 = row_alphabet([-1, -2], [None, 1, 2], [None, 5])
    t = _batches(ctx, exhaustive_frames(ctx, n1, a1, FIXED_REQS, ["list", "gen", "dicts"],
                                        [(1, False), (4, False), (4, True)]), code_every=3)
    scope.append("all frames of 0..%d rows over %d distinct rows x %d request lists x 3 backings (list, dictionaries, and a lazily "
                 "backed one cycling through generator / select / filter / take) (%d cases)" % (n1, len(a1), len(FIXED_REQS), t))
    secs["E1"] = round(time.time() - t0, 1)
    # E2: every frame of 4..6 rows over a 4-row alphabet, with every permutation class covered by closure
    n2 = 6
    a2 = row_alphabet([-1, -2], [None, 1], [3])
    def e2():
        for n in range(4, n2 + 1):
            for rows in itertools.product(a2, repeat=n):
                yield base(rows, ALL_SIX, backings=["gen"] if n % 2 else ["list"])
                if n < 6 or ctx.tier == "thorough":
                    yield base(rows, [["SUM", "v"], ["SUM", "v"], ["COUNT", "v"]], backings=["list"])
    t = _batches(ctx, e2(), code_every=3)
    scope.append("all frames of 4..%d rows over %d distinct rows x 1-2 request lists (%d cases)" % (n2, len(a2), t))
    secs["E2"] = round(time.time() - t0, 1)
    # E3: every request list of length <= 3 over 11 requests, on representative frames
    reps = REPRESENTATIVE[: ctx.scale(7, len(REPRESENTATIVE))]
    def e3():
        for rows in reps:
            for k in (1, 2, 3):
                for reqs in itertools.product(REQ_ALPHABET, repeat=k):
                    yield base(rows, reqs, backings=["list"])
    t = _batches(ctx, e3(), code_every=3)
    scope.append("all request lists of length 1..3 over %d requests on %d representative frames (%d cases)" % (len(REQ_ALPHABET), len(reps), t))
    secs["E3"] = round(time.time() - t0, 1)
    # E4: every permutation of frames of <= 5 rows
    def e4():
        for rows in REPRESENTATIVE:
            if 2 <= len(rows) <= 5:
                for reqs in FIXED_REQS:
                    yield base(rows, reqs, all_perms=True, backings=["list", "gen"])
    t = _batches(ctx, e4())
    scope.append("all permutations of %d frames of 2..5 rows (plus: E1/E2 are closed under permutation)" % (t // len(FIXED_REQS)))
    # E5: every sequence of <= 3 calls over 8 calls on ONE GroupBy object (and alternating between two)
    t = _batches(ctx, (rotate_columns(c, j // 3) for j, c in enumerate(exhaustive_sequences(ctx, 3))), size=1000)
    scope.append("all sequences of 1..3 calls over %d calls (aggregate lists, sum/avg/min/count wrappers, groups) on one GroupBy "
                 "object, alternating between two objects with the key columns in both orders, every third also between two "
                 "objects with different key columns on a lazily backed frame, and every pair of calls with a use of the frame "
                 "itself (len / rowcount / one step of an iteration) in between, on %d frames (%d cases)"
                 % (len(SEQ_ALPHABET), len(SEQ_FRAMES), t))
    secs["E5"] = round(time.time() - t0, 1)
    # E6: every frame of 0..3 rows over a float column with NaN, both infinities and the negative zero
    a6 = row_alphabet([-1, -2], [None, 1, "nan", "inf", "-inf", "-0"], [3])
    def e6():
        i = 0
        for n in range(0, 4):
            for rows in itertools.product(a6, repeat=n):
                i += 1
                bk = ["list"] if i % 4 else ["list", LAZY_CYCLE[(i // 4) % len(LAZY_CYCLE)]]
                yield base(rows, X_REQS[i % len(X_REQS)] if n == 3 else X_REQS[0], vkind="xfloat", scale=(2, 4, 8)[i % 3],
                           backings=bk, all_perms=(n == 3 and i % 7 == 0))
        for seq in itertools.product(SEQ_ALPHABET, repeat=2):
            yield dict(seq_base(X_SEQ_FRAME, seq, [["k", "j"]], ["list"]), vkind="xfloat", scale=2)
    t = _batches(ctx, e6())
    scope.append("all frames of 0..3 rows over %d distinct rows whose value column holds NaN, inf, -inf, -0.0, a number or null "
                 "(COUNT / SUM / AVG / COUNT(*) judged everywhere, MIN / MAX where the group holds no NaN), and all pairs of "
                 "calls on one object over such a frame (%d cases)" % (len(a6), t))
    secs["E6"] = round(time.time() - t0, 1)
    # E7: keys that are EQUAL but written differently (1 / 1.0 / True, 0 / -0.0 / False), judged by Python's ==
    t = _batches(ctx, (rotate_columns(c, j // 2) for j, c in enumerate(equal_key_cases(ctx, ctx.scale(3, 4)))))
    scope.append("keys equal but written differently: all frames of 0..%d rows over %d distinct rows with the keys 1, 1.0, True, "
                 "0, -0.0, False, null; all frames of 0..2 rows over %d distinct rows with a two-column key differing in one "
                 "component only; all pairs of calls (one object, two objects, a row with an equal key appended in between) "
                 "over such a frame (%d cases)" % (ctx.scale(3, 4), len(EQ_ROWS1), len(EQ_ROWS2), t))
    secs["E7"] = round(time.time() - t0, 1)
    ctx.note("exhaustive_scope", scope)
    ctx.exhaustive = False
    # the dedicated stream of unequal keys with equal hashes
    evaluate(ctx, [collision_case(ctx) for _ in range(ctx.scale(400, 5000))])
    # frames beyond the round numbers (rows: 100, 1000, 1024; groups: 256, 512, 1024)
    big = list(scale_cases(ctx))
    evaluate(ctx, big)
    for c in big:
        ctx.hit("scale:%d rows in %d groups" % (len(c["rows"]), len({r[0] for r in c["rows"]})))
    secs["scale"] = round(time.time() - t0, 1)
    n_random = ctx.scale(4000, 60000)
    done = 0
    # at least 1000 random cases whatever the load on the machine (the widest generators live here)
    while done < n_random and (done < 1000 or ctx.time_left() > (3 if ctx.tier == "quick" else 60)) and not ctx.violations:
        evaluate(ctx, [random_case(ctx, big=(i % 25 == 24)) for i in range(350)]
                 + [random_seq_case(ctx, big=(i % 25 == 24)) for i in range(150)])
        done += 500
    ctx.note("random_cases", done)
    secs["random"] = round(time.time() - t0, 1)
    ctx.note("seconds_at_end_of_scope", secs)


def intensify(ctx):
    t_end = 40 if ctx.tier == "quick" else 300
    import time
    t0 = time.time()
    while time.time() - t0 < t_end and not ctx.violations:
        evaluate(ctx, [random_case(ctx) for _ in range(400)] + [random_seq_case(ctx) for _ in range(200)]
                 + [collision_case(ctx) for _ in range(100)])


def replay(ctx, case):
    evaluate(ctx, [case])


KNOWN_PREDICATES = {}
