"""C20 — Log sanitiser never emits values of sensitive keys.

Implementation under test: orso.logging.log_formatter.LogFormatter (format / clean_record /
sanitize_record), the formatter built by orso.logging.create_logger.get_logger(), and
GoogleLogger.write_event.  Records are real logging.LogRecord objects, formatted by real
logging.Formatter layouts; colour is switched through COLORTERM / TERM / suppress_color.

Oracle (the property, evaluated on the implementation's own output text, no model involved):
every value is scanned for *tokens* (runs of 8+ upper-case letters / digits).  A token that occurs
only below a sensitive key (at any depth of nested objects, whatever the value's type) must not
occur in the output, nor its first / last six characters (the digests are taken out first); a
token stored under other keys must occur; the implementation's own digest (`hash_it(str(value))`) of
every redacted member must be present.  URL records: no token of the user-info of any URL in the
message may occur.

Correspondence: the same inputs go to Model/Sanitise.lean (`format`, `clean`, `sens`, `url`);
outputs are compared as exact text.  The digest, the JSON parser, logging.Formatter's line and
Python's str() of numbers / lists enter the model as parameters computed by the running code.

Round 2: `text` cases carry the oracle whenever json.loads of the message text (decided here, not by the
implementation) returns a dict - duplicate keys, NaN/Infinity, numbers beyond double range, unpaired
surrogates, escapes inside keys; `gurl` / `gtext` drive GoogleLogger.write_event with a text message,
`ginst` the methods of a GoogleLogger() instance (what get_logger() returns under K_SERVICE), `e2e`
replays a failure seen through get_logger(); the digest parameter is pinned to SHA-256 of str(value).

Readings (documented in design_notes/C20.md): keys are always visible; objects inside arrays are
outside the quantifier ("nested objects") so no demand is made on tokens below a sensitive key
inside an array element; keys containing one of the four non-ASCII characters that re.IGNORECASE
folds onto ASCII letters, or ending in a newline, carry no demand; a value containing `://` may be
cut by the URL rule, so records containing `://` carry the secrecy demand only.
"""
import contextlib
import io
import json
import logging
import os
import re

from .. import wire
from ..core import InfraError, shrink

TOKEN = re.compile(r"[A-Z0-9]{8,}")
RFC_URL = re.compile(r"[A-Za-z][A-Za-z0-9+.\-]*://([^\s/?#@]*)@")
AMBIGUOUS_KEY_CHARS = "\u017f\u212a\u0131\u0130"
SUFFIXES = ("password", "pwd", "_secret", "_key", "_token")
INFIXES = ("credentials",)

LAYOUTS = [
    ("create_logger", None, None),
    ("%(message)s", "%", None),
    ("%(levelname)-8s | %(message)s", "%", None),
    ("%(name)s | %(levelname)-8s | %(asctime)s | %(message)s", "%", None),
    ("{name} | {levelname:<8} | {message}", "{", None),
    (" | %(levelname)-8s | %(funcName)s | | %(message)s", "%", None),
    ("%(name)s|%(levelname)s|%(message)s", "%", "%H:%M"),
    ("$name | $levelname | ${message}", "$", None),
]
LEVELS = [("DEBUG", 10), ("INFO", 20), ("WARNING", 30), ("ERROR", 40), ("AUDIT", 80), ("ALERT", 90)]
# (suppress_color, COLORTERM, TERM)
COLOURS = [(False, "yes", ""), (False, "", ""), (False, "", "xterm-256color"), (False, "truecolor", "xterm"), (True, "yes", "xterm-256color"), (False, "no", "vt100")]

_STATE = {}
_GEN = {}


def generated(key, default=None):
    """an item harness/extractors/c20.py read from the working tree on this run"""
    if not _GEN:
        from .. import core
        try:
            _GEN.update(json.load(open(os.path.join(core.LEAN, "OrsoVerif", "Generated", "generated.json"))))
        except OSError:
            _GEN["<missing>"] = True
    return _GEN.get(key, default)


_DEGRADED = []


def degraded(what):
    """The harness could not read something off the running code the usual way (a renamed or restructured
    attribute): it falls back and says so in the evidence (`harness_degraded`); it never stops the check."""
    if what not in _DEGRADED:
        _DEGRADED.append(what)


def soft(obj, name, default=None):
    """getattr for attributes of the implementation that are not part of what the property is about"""
    try:
        return getattr(obj, name)
    except AttributeError:
        degraded("%s has no attribute %r" % (getattr(obj, "__name__", None) or type(obj).__name__, name))
        return default
    except Exception as e:  # a property / __getattr__ that raises
        degraded("%s.%s raised %s" % (getattr(obj, "__name__", None) or type(obj).__name__, name, type(e).__name__))
        return default


def soft_call(obj, name, *args):
    f = soft(obj, name)
    if callable(f):
        try:
            return f(*args)
        except Exception as e:
            degraded("%s(...) raised %s" % (name, type(e).__name__))
    return None


def forget_warnings(mod):
    """the duplicate-warning suppression is state (a module-level dict): start each call afresh"""
    d = soft(mod, "logging_seen_warnings")
    if hasattr(d, "clear"):
        d.clear()
        return True
    _STATE_NOT_RESET.add(getattr(mod, "__name__", "?"))
    return False


_STATE_NOT_RESET = set()  # modules whose duplicate-warning table the harness could not find (renamed / restructured)
_CALIBRATION = [0]


def calibration_message():
    """an innocuous message, a new one each time: a WARNING seen before would be suppressed when the table cannot be reset"""
    _CALIBRATION[0] += 1
    return {"zz9": "c%d" % _CALIBRATION[0]}


def unjudged_duplicate(out, printed, err):
    """the structured logger answered "suppressed" (a repeated WARNING) and the harness could not reset the table it
    keeps: nothing was emitted, nothing to judge, nothing to compare (a renamed table must not look like a defect)"""
    return bool(_STATE_NOT_RESET) and err is None and out == "suppressed" and not printed


def key_sources():
    """The regular-expression sources the running code tests a key with: the table as written, else the
    patterns of whatever was compiled from it, else what the extractor read / pinned.  Never an error."""
    lf = impl()["lf"]
    v = getattr(lf, "KEYS_TO_SANITIZE", None)
    if isinstance(v, (list, tuple)) and v and all(isinstance(x, str) for x in v):
        return list(v)
    c = getattr(lf, "COMPILED_KEYS_TO_SANITIZE", None)
    srcs = [p.pattern for p in (c if isinstance(c, (list, tuple)) else [c]) if isinstance(getattr(p, "pattern", None), str)]
    if srcs:
        degraded("log_formatter.KEYS_TO_SANITIZE is not a list of texts: key patterns read from COMPILED_KEYS_TO_SANITIZE")
        return srcs
    g = generated("c20.KEYS_TO_SANITIZE")
    degraded("log_formatter has neither KEYS_TO_SANITIZE nor COMPILED_KEYS_TO_SANITIZE: key patterns as extracted / pinned")
    return [x for x in g if isinstance(x, str)] if isinstance(g, list) else list(PATTERN_WORDS)


def forget_exit_reports(*mods):
    """log_for_level / write_event register an exit-time report for every first WARNING: drop them (the
    report of a suppressed duplicate is measured by observe_suppression_report, it is not part of a run)"""
    import atexit

    for mod in mods:
        f = getattr(mod, "report_suppressions", None)
        if callable(f):
            atexit.unregister(f)


def guard_strip():
    iso = generated("c20.isolate")
    return iso[1] if isinstance(iso, list) and len(iso) == 3 and isinstance(iso[1], str) else " \t\r\n\ufeff"


def impl():
    """Import the implementation once; register the level names the way get_logger() does."""
    if _STATE:
        return _STATE
    os.environ.pop("K_SERVICE", None)
    from orso.logging import create_logger, google_cloud_logger, log_formatter

    soft_call(soft(create_logger, "get_logger"), "cache_clear")
    logger = create_logger.get_logger()
    handlers = getattr(logger, "handlers", None) or []
    real = getattr(handlers[0], "formatter", None) if handlers else None
    if not isinstance(real, getattr(log_formatter, "LogFormatter", ())):
        # not a harness error: records logged through get_logger() are then judged by what is emitted
        degraded("get_logger() did not install a LogFormatter on its first handler")
    import sys

    _STATE.update(lf=log_formatter, cl=create_logger, gl=google_cloud_logger, real=real, logger=logger, al=sys.modules.get("orso.logging.add_level"))
    return _STATE


# --------------------------------------------------------------------------- the property's words


def spec_sensitive(key):
    """The statement: ends in password, pwd, _secret, _key or _token, or contains credentials,
    case-insensitively."""
    k = key.lower()
    return any(k.endswith(s) for s in SUFFIXES) or any(s in k for s in INFIXES)


def ambiguous_key(key):
    return any(c in key for c in AMBIGUOUS_KEY_CHARS) or key.endswith("\n")


def tokens_of(v):
    if isinstance(v, bool) or v is None:
        return set()
    if isinstance(v, (int, float)):
        return set(TOKEN.findall(str(v)))
    if isinstance(v, str):
        return set(TOKEN.findall(v))
    if isinstance(v, list):
        out = set()
        for x in v:
            out |= tokens_of(x)
        return out
    if isinstance(v, dict):
        out = set()
        for k, x in v.items():
            out |= tokens_of(x)
        return out
    return set()


def classify(obj):
    """-> (secret tokens, visible tokens, undemanded tokens, values whose placeholder is due)."""
    secret, visible, free = set(), set(), set()
    due = []

    def walk_array(xs, into):
        # objects inside arrays: outside the quantifier -> tokens below a sensitive key carry no demand
        for x in xs:
            if isinstance(x, dict):
                for k, y in x.items():
                    free.update(TOKEN.findall(k))
                    if spec_sensitive(k) or ambiguous_key(k):
                        free.update(tokens_of(y))
                    elif isinstance(y, (dict, list)):
                        walk_array([y] if isinstance(y, dict) else y, into)
                    else:
                        into.update(tokens_of(y))
            elif isinstance(x, list):
                walk_array(x, into)
            else:
                into.update(tokens_of(x))

    def walk(d):
        for k, v in d.items():
            visible.update(TOKEN.findall(k))
            if ambiguous_key(k):
                free.update(tokens_of(v))
            elif spec_sensitive(k):
                secret.update(tokens_of(v))
                due.append(v)
            elif isinstance(v, dict):
                walk(v)
            elif isinstance(v, list):
                walk_array(v, visible)
            else:
                visible.update(tokens_of(v))

    walk(obj)
    secret -= visible | free
    visible -= free
    return secret, visible, free, due


def spec_object(text):
    """The statement's "the log message is a JSON object", decided without the implementation: Python's
    json.loads of the message text (the str the caller logged) returns a dict.  What the parser accepts
    beyond RFC 8259 (NaN / Infinity literals, numbers beyond double range, duplicate keys, unpaired
    surrogates raw or escaped) is inside; what it rejects (a leading BOM, single quotes, comments, a
    trailing comma, integers of more than 4300 digits, nesting beyond the recursion limit) is a plain text."""
    try:
        d = json.loads(text)
    except (ValueError, RecursionError):
        return None
    return d if isinstance(d, dict) else None


class _Pairs(list):
    """an object of the message text with *every* member it spells, overwritten duplicates included"""


def classify_text(text):
    """classify() for a message given as text: the object json.loads builds decides what must stay
    visible; a value spelt under a sensitive key must be hidden even if a later duplicate of the key
    overwrote it (it is then simply absent), so the secret tokens are collected from all pairs."""
    d = spec_object(text)
    if d is None:
        return None
    secret, visible, free, due = classify(d)
    try:
        tree = json.loads(text, object_pairs_hook=_Pairs)
    except (ValueError, RecursionError):
        return d, secret, visible, free, due
    extra = set()

    def all_tokens(v):
        if isinstance(v, _Pairs):
            out = set()
            for _, x in v:
                out |= all_tokens(x)
            return out
        if isinstance(v, list):
            out = set()
            for x in v:
                out |= all_tokens(x)
            return out
        return tokens_of(v)

    def walk(ps):
        last = {}
        for i, (k, v) in enumerate(ps):
            last[k] = i
        for i, (k, v) in enumerate(ps):
            if ambiguous_key(k):
                free.update(all_tokens(v))
            elif spec_sensitive(k):
                extra.update(all_tokens(v))
            elif last[k] != i:
                gone(v)  # an overwritten member under another key: not shown, but what it hid stays hidden
            elif isinstance(v, _Pairs):
                walk(v)

    def gone(v):
        if isinstance(v, _Pairs):
            for k, x in v:
                if spec_sensitive(k) and not ambiguous_key(k):
                    extra.update(all_tokens(x))
                else:
                    gone(x)
        else:
            free.update(all_tokens(v))

    walk(tree)
    secret = (set(secret) | extra) - visible - free
    return d, secret, visible, free, due


def array_of_objects(v, inside=False):
    if isinstance(v, dict):
        return inside or any(array_of_objects(x, False) for x in v.values())
    if isinstance(v, list):
        return any(array_of_objects(x, True) for x in v)
    return False


def model_printable(ch):
    """Model/Sanitise.lean `pyEsc`: which characters repr() leaves as they are."""
    o = ord(ch)
    if o < 0x80:
        return 32 <= o < 127
    return not (0x80 <= o <= 0xA0 or o == 0xAD or 0x200B <= o <= 0x200F or 0x2028 <= o <= 0x202E or 0x2060 <= o <= 0x2064 or o == 0xFEFF)


def inside_repr_assumption(v):
    """Python's notion of printable (a Unicode table outside the model) agrees with the model on every character."""
    if isinstance(v, str):
        return all(ord(ch) < 0x80 or ch.isprintable() == model_printable(ch) for ch in v)
    if isinstance(v, list):
        return all(inside_repr_assumption(x) for x in v)
    if isinstance(v, dict):
        return all(inside_repr_assumption(k) and inside_repr_assumption(x) for k, x in v.items())
    return True


def has_url_marker(v):
    if isinstance(v, str):
        return "://" in v
    if isinstance(v, list):
        return any(has_url_marker(x) for x in v)
    if isinstance(v, dict):
        return any("://" in k or has_url_marker(x) for k, x in v.items())
    return False


# --------------------------------------------------------------------------- running the implementation


@contextlib.contextmanager
def colour_env(colour):
    suppress, ct, term = colour
    old = {k: os.environ.get(k) for k in ("COLORTERM", "TERM")}
    os.environ["COLORTERM"] = ct
    os.environ["TERM"] = term
    try:
        yield suppress
    finally:
        for k, v in old.items():
            if v is None:
                os.environ.pop(k, None)
            else:
                os.environ[k] = v


def make_formatter(layout_i, suppress):
    st = impl()
    fmt, style, datefmt = LAYOUTS[layout_i % len(LAYOUTS)]
    orig = None
    if fmt == "create_logger":
        orig = getattr(st["real"], "orig_formatter", None)
        if not isinstance(orig, logging.Formatter):
            # the formatter get_logger() wraps cannot be read off the handler: build it from the constant, else a plain one
            degraded("the inner formatter of get_logger()'s LogFormatter is not readable: layout 0 rebuilt")
            lfmt = getattr(st["cl"], "LOG_FORMAT", None)
            orig = logging.Formatter(lfmt if isinstance(lfmt, str) else LAYOUTS[3][0])
    else:
        orig = logging.Formatter(fmt, datefmt=datefmt, style=style)
    return st["lf"].LogFormatter(orig, suppress_color=suppress), orig


def encode_message(obj, enc):
    import orjson

    enc = enc % 4
    if enc == 0:
        return json.dumps(obj)
    if enc == 1:
        return json.dumps(obj, ensure_ascii=False)
    if enc == 2:
        try:
            return orjson.dumps(obj).decode()  # what logger.error({...}) does (add_level.py)
        except TypeError:  # integers beyond 64 bits
            return json.dumps(obj)
    return json.dumps(obj, indent=1)


def message_of(case):
    if case["kind"] == "json":
        return encode_message(case["obj"], case.get("enc", 0))
    if case["kind"] in ("url", "gurl"):
        return "%s%s://%s:%s@%s%s" % (case["pre"], case["scheme"], case["user"], case["password"], case["host"], case["post"])
    if case["kind"] in ("text", "gtext"):
        return case["text"]
    raise InfraError("bad kind")


def make_record(case, msg):
    name, levelno = LEVELS[case.get("level", 3) % len(LEVELS)]
    rec = logging.LogRecord(case.get("name", "DEFAULT"), levelno, "/srv/app/module_x.py", 12, msg, None, None, func="run")
    rec.created = 1790000000.25
    rec.msecs = 250.0
    return rec


def to_wire(v):
    if v is None or isinstance(v, (bool, str)):
        return v
    if isinstance(v, (int, float)):
        return ["n", str(v)]
    if isinstance(v, list):
        return ["a", [to_wire(x) for x in v]]
    if isinstance(v, dict):
        return {k: to_wire(x) for k, x in v.items()}
    raise InfraError("value outside JSON: %r" % (v,))


def digests_of(d, hash_it, out):
    for k, v in d.items():
        try:
            out.append([to_wire(v), hash_it(str(v))])
        except InfraError:
            raise
        except Exception as e:  # the digest is a parameter; if it is undefined the model cannot run
            out.append([to_wire(v), "!" + type(e).__name__])
        if isinstance(v, dict):
            digests_of(v, hash_it, out)


def model_digests(obj, f=None):
    """the digest parameter of the model for every member of `obj`; None when the running code has no hash_it to ask"""
    f = f if f is not None else impl()["lf"].LogFormatter(None)
    hash_it = soft(f, "hash_it")
    if not callable(hash_it):
        return None
    digs = []
    digests_of(obj, hash_it, digs)
    return digs


def wire_ok(v):
    try:
        wire.line(v)
        json.dumps(v).encode()
        if isinstance(v, str):
            v.encode("utf-8")
        return True
    except Exception:
        return False


def run_format(case):
    """-> dict(out=text | None, err=name | None, line=..., can=..., model_line=str | None)."""
    msg = message_of(case)
    with colour_env(COLOURS[case.get("colour", 0) % len(COLOURS)]) as suppress:
        fmtr, orig = make_formatter(case.get("layout", 0), suppress)
        rec = make_record(case, msg)
        line = orig.format(rec)
        can = soft_call(fmtr, "_can_colorize")  # None: the model cannot be given the colour setting -> oracle only
        try:
            out = fmtr.format(make_record(case, msg))
            err = None
        except Exception as e:
            out, err = None, type(e).__name__
    res = {"out": out, "err": err, "line": line, "can": can, "model_line": None}
    tables = parameter_tables(line, can, fmtr, res)
    if tables is not None:
        res["model_line"] = "C20 format " + wire.line(bool(can), line, *tables)
    return res


def parameter_tables(line, can, fmtr, res):
    """the model's parameters for one formatted line: what the real parser says about each candidate, the real digests
    -> (parses, digests) or None (then the record is judged by the oracle alone)"""
    try:
        hash_it = soft(fmtr, "hash_it")
        if not isinstance(can, bool) or not callable(hash_it):
            raise wire.WireError("a parameter of the model is not readable off the running code")
        parts = line.split("|")
        if len(parts) * len(line) > 600_000:
            # the parameter table (one parse per candidate) would be quadratic: oracle only
            raise wire.WireError("record too long for the candidate table")
        parses, digs = [], []
        for i in range(len(parts)):
            cand = "|".join(parts[i:])
            try:
                d = json.loads(cand.encode("UTF8", "surrogatepass"))
            except ValueError:
                d = None
            if isinstance(d, dict) != (spec_object(cand) is not None):
                res["parser_param_differs_from_json_loads_of_text"] = cand[:40]
            if isinstance(d, dict):
                # hypothesis `hparse` of C20.split_recovers_json_syntactic, checked on the real parser
                if cand.lstrip(" \t\n\r")[:1] != "{" and cand.lstrip(guard_strip())[:1] != "{":
                    res["parser_assumption_violated"] = cand[:40]
                parses.append([cand, to_wire(d)])
                digests_of(d, hash_it, digs)
            else:
                parses.append([cand, None])
        wire.line(bool(can), line, parses, digs)
        return parses, digs
    except (wire.WireError, UnicodeEncodeError, InfraError):
        return None  # lone surrogates etc.: oracle only


def url_hidden_tokens(msg, spans, elsewhere=""):
    """tokens that occur in `msg` only inside the given spans (user-infos of URLs) - and nowhere in `elsewhere`"""
    hidden, keep, pos = set(), [], 0
    for lo, hi in sorted(spans):
        hidden |= set(TOKEN.findall(msg[lo:hi]))
        if lo >= pos:
            keep.append(msg[pos:lo])
            pos = hi
        else:
            pos = max(pos, hi)
    keep.append(msg[pos:])
    return hidden - set(TOKEN.findall("\x00".join(keep))) - set(TOKEN.findall(elsewhere))


def oracle_url(case, msg, out):
    a = len(case["pre"]) + len(case["scheme"]) + 3
    spans = [(a, a + len(case["user"]) + 1 + len(case["password"]))]
    # every other URL with user-info in the surrounding text counts as well
    spans += [m.span(1) for m in RFC_URL.finditer(msg)]
    for t in sorted(url_hidden_tokens(msg, spans)):
        if t in out:
            return "URL user-info is emitted"
    return None


def oracle_format(case, out):
    """Clause that fails, or None."""
    if out is None:
        return None
    if case["kind"] == "json":
        return oracle_text(case["obj"], out)
    if case["kind"] == "url":
        return oracle_url(case, message_of(case), out)
    if case["kind"] == "text":
        # a message handed over as text: it is a JSON object iff json.loads (of the text itself) says so
        c = classify_text(case["text"])
        if c is not None:
            return oracle_text(c[0], out, classified=c[1:])
    return None


def valid_case(c):
    if isinstance(c, dict) and c.get("kind") == "rec":
        return valid_rec(c) and rec_combination_ok(c.get("style", 0), c.get("via", 0))
    if not isinstance(c, dict) or c.get("kind") not in ("json", "url", "text", "clean", "google", "gurl", "gtext", "ginst"):
        return False
    for k in ("layout", "colour", "level", "enc", "severity", "span", "method", "loglevel"):
        if k in c and not (isinstance(c[k], int) and not isinstance(c[k], bool) and c[k] >= 0):
            return False
    if "name" in c and not isinstance(c["name"], str):
        return False
    if c["kind"] in ("json", "clean", "google", "ginst"):
        if not isinstance(c.get("obj"), dict):
            return False
        if c["kind"] != "json" and not isinstance(c.get("colorize", True), bool):
            return False
        return json_ok(c["obj"])
    if c["kind"] in ("url", "gurl"):
        if not all(isinstance(c.get(k), str) for k in ("pre", "scheme", "user", "password", "host", "post")):
            return False
        ui = c["user"] + c["password"]
        # RFC 3986 user-info: no '@', no '/', no white space / control characters
        return not any(ch in ui for ch in "@/?#\n\r \t") and ":" not in c["user"] and "@" not in c["host"][:1]
    if c["kind"] in ("text", "gtext"):
        return isinstance(c.get("text"), str)
    return True


def json_ok(v, depth=0, nonfinite=False):
    if depth > 8:
        return False
    if v is None or isinstance(v, (bool, int, str)):
        return True
    if isinstance(v, float):
        return nonfinite or (v == v and abs(v) != float("inf"))
    if isinstance(v, list):
        return all(json_ok(x, depth + 1, nonfinite) for x in v)
    if isinstance(v, dict):
        return all(isinstance(k, str) and json_ok(x, depth + 1, nonfinite) for k, x in v.items())
    return False


# --------------------------------------------------------------------------- clean_record / write_event


def run_clean(case):
    st = impl()
    f = st["lf"].LogFormatter(None)
    colorize = case.get("colorize", True)
    try:
        out = f.clean_record(case["obj"], colorize)
        res = [[k, v] for k, v in out.items()]
        err = None
    except Exception as e:
        res, err = None, type(e).__name__
    digs = model_digests(case["obj"], f)
    return res, err, (None if digs is None else "C20 clean " + wire.line(bool(colorize), to_wire(case["obj"]), digs))


def severities():
    """every severity write_event is called with: the six LEVELS members, their plain integers, None"""
    try:
        from orso.logging.levels import LEVELS as L

        named = [L.DEBUG, L.INFO, L.WARNING, L.ERROR, L.AUDIT, L.ALERT]
    except (ImportError, AttributeError):
        degraded("orso.logging.levels.LEVELS does not have the six members: plain integers used as severities")
        named = [10, 20, 30, 40, 80, 90]
    return named + [10, 20, 30, 40, 80, 90, None, 25]


SPANS = [None, "", "span-1", "SPANID77XX9Q"]
_GOOGLE_BASE = {}


def _google_call(gl, obj, severity, span):
    return gl.GoogleLogger.write_event(obj, system="sys", severity=severity, spanId=span)


def _google_invoke(gl, obj, severity, span):
    """Every call of write_event goes through this one line, so that extract_caller() (which reports the
    frame four levels up: this function) gives the same source location for the calibration call and
    for the calls under test."""
    buf = io.StringIO()
    forget_warnings(gl)  # duplicate-warning suppression is state: start each call afresh
    with contextlib.redirect_stdout(buf):
        out = _google_call(gl, obj, severity, span)
    return out, buf.getvalue()


def google_base(sev_i, span_i):
    """`structured_log` as it is before the message is stored (severity, labels, source location, span
    id): a parameter of the model, read off a calibration call with an innocuous message."""
    import orjson

    key = (sev_i, span_i)
    if key not in _GOOGLE_BASE:
        gl = impl()["gl"]
        out, _ = _google_invoke(gl, calibration_message(), severities()[sev_i], SPANS[span_i])
        d = orjson.loads(out)
        d.pop("message", None)
        d.pop("zz9", None)
        for k, v in d.items():
            if not (isinstance(v, str) or (isinstance(v, dict) and all(isinstance(x, str) for x in v.values()))):
                raise InfraError("unexpected shape of the structured log: %r" % (d,))
        _GOOGLE_BASE[key] = d
    return _GOOGLE_BASE[key]


def run_google(case):
    st = impl()
    sev_i = case.get("severity", 0) % len(severities())
    span_i = case.get("span", 0) % len(SPANS)
    try:
        out, printed = _google_invoke(st["gl"], case["obj"], severities()[sev_i], SPANS[span_i])
        err = None
    except Exception as e:
        out, printed, err = None, "", type(e).__name__
    digs = model_digests(case["obj"])
    try:
        base = google_base(sev_i, span_i)
    except InfraError:
        raise
    except Exception as e:  # write_event fails even on the calibration message: a defect, not a harness error
        return out, printed, err or type(e).__name__, None
    return out, printed, err, (None if digs is None else "C20 event " + wire.line(base, to_wire(case["obj"]), digs))


def run_google_text(case):
    """write_event with a text message (the `else` branch): the URL rule, then the message as it is"""
    st = impl()
    msg = message_of(case)
    sev_i = case.get("severity", 0) % len(severities())
    span_i = case.get("span", 0) % len(SPANS)
    try:
        out, printed = _google_invoke(st["gl"], msg, severities()[sev_i], SPANS[span_i])
        err = None
    except Exception as e:
        out, printed, err = None, "", type(e).__name__
    try:
        base = google_base(sev_i, span_i)
        ml = "C20 eventtext " + wire.line(base, msg)
    except InfraError:
        raise
    except (wire.WireError, UnicodeEncodeError):
        ml = None
    except Exception as e:
        return out, printed, err or type(e).__name__, None
    return out, printed, err, ml


GMETHODS = ["debug", "info", "warning", "error", "audit", "alert", "__call__"]
GLEVELS = [0, 25, 35, 85]
_GINST_BASE = {}


def _ginst_call(logger, method, obj):
    return getattr(logger, method)(obj)


def _ginst_invoke(gl, loglevel, method, obj, reuse):
    """GoogleLogger() as get_logger() builds it under K_SERVICE, one of its level methods (or the object
    itself) called with a dict.  With `reuse` the same object first logs another record and has its
    level set again (the closures are rebuilt), then logs `obj`: use, mutate, use again."""
    old = os.environ.get("LOGGING_LEVEL")
    os.environ["LOGGING_LEVEL"] = str(loglevel)
    try:
        logger = gl.GoogleLogger()
    finally:
        if old is None:
            os.environ.pop("LOGGING_LEVEL", None)
        else:
            os.environ["LOGGING_LEVEL"] = old
    buf = io.StringIO()
    forget_warnings(gl)
    with contextlib.redirect_stdout(io.StringIO()):
        if reuse:
            _ginst_call(logger, "alert", {"zz8": "first"})
            logger.setLevel(loglevel)
    with contextlib.redirect_stdout(buf):
        out = _ginst_call(logger, method, obj)
    return out, buf.getvalue()


def ginst_base(level_i, method_i):
    import orjson

    key = (level_i, method_i)
    if key not in _GINST_BASE:
        gl = impl()["gl"]
        out, printed = _ginst_invoke(gl, GLEVELS[level_i], GMETHODS[method_i], calibration_message(), False)
        if out is None and printed.endswith("\n") and GMETHODS[method_i] == "__call__":
            out = printed[:-1]  # GoogleLogger.__call__ returns nothing: the printed line is the output
        if out is None:
            _GINST_BASE[key] = None  # the level filter drops this method at this level
        else:
            d = orjson.loads(out)
            d.pop("message", None)
            d.pop("zz9", None)
            for k, v in d.items():
                if not (isinstance(v, str) or (isinstance(v, dict) and all(isinstance(x, str) for x in v.values()))):
                    raise InfraError("unexpected shape of the structured log: %r" % (d,))
            _GINST_BASE[key] = d
    return _GINST_BASE[key]


def run_ginst(case):
    st = impl()
    level_i = case.get("loglevel", 1) % len(GLEVELS)
    method_i = case.get("method", 3) % len(GMETHODS)
    try:
        out, printed = _ginst_invoke(st["gl"], GLEVELS[level_i], GMETHODS[method_i], case["obj"], bool(case.get("reuse")))
        err = None
    except Exception as e:
        out, printed, err = None, "", type(e).__name__
    digs = model_digests(case["obj"])
    try:
        base = ginst_base(level_i, method_i)
    except InfraError:
        raise
    except Exception as e:
        return out, printed, err or type(e).__name__, None, False
    if base is None:
        return out, printed, err, None, True
    return out, printed, err, (None if digs is None else "C20 event " + wire.line(base, to_wire(case["obj"]), digs)), False


def oracle_text(obj, text, placeholders=True, classified=None):
    secret, visible, free, due = classified if classified is not None else classify(obj)
    for t in sorted(secret):
        if t in text:
            return "value under a sensitive key is emitted"
    # part of a value is a value too: the two ends of every secret token
    rest = "".join(sorted(visible | free)) + json.dumps(list(_all_keys(obj)))
    hash_it = getattr(impl()["lf"].LogFormatter(None), "hash_it", None)
    body = text
    if hash_it is not None:
        # the digests themselves are allowed to appear: take them out before looking for fragments
        # (an all-digit fragment of a numeric secret could otherwise collide with hex digits)
        for v in due:
            try:
                dg = hash_it(str(v))
                if isinstance(dg, str) and len(dg) >= 4:
                    body = body.replace(dg, "<digest>")
            except Exception:
                pass
    for t in sorted(secret):
        for frag in (t[:6], t[-6:]):
            if frag in body and frag not in rest:
                return "part of a value under a sensitive key is emitted"
    if has_url_marker(obj) or "://" in text:
        return None  # the URL rule may have cut a visible value: secrecy demand only
    for t in sorted(visible):
        if t not in text:
            return "value under a non-sensitive key is not visible"
    if placeholders:
        # "a short digest placeholder appears instead": the implementation's own digest of the value
        if hash_it is not None:
            for v in due:
                try:
                    dg = hash_it(str(v))
                except Exception:
                    return "digest placeholder missing"
                if not isinstance(dg, str) or dg not in text:
                    return "digest placeholder missing"
    return None


def _all_keys(d):
    for k, v in d.items():
        yield k
        if isinstance(v, dict):
            yield from _all_keys(v)


# --------------------------------------------------------------------------- the ways a message reaches the formatter

# Round 4.  LogFormatter.format is handed a LogRecord: a template (record.msg - a text, or any object with __str__, a dict,
# bytes), %-arguments (a tuple, or one dict for %(name)s), exc_info / stack_info, attributes given by `extra=`.  The
# payload (a URL with user-info, a JSON object text, a plain text) is put into each of these places, and the record is
# made by each kind of call: a LogRecord built by hand, logger.<level>(...) (orso's replaced methods), logger.log(level, ...),
# logger.exception(...), a LoggerAdapter, logger.critical(...) (a stdlib method orso does not replace).
REC_STYLES = ["inline", "pct-s", "pct-two", "pct-dict", "msg-object", "msg-object-args", "arg-object", "whole-arg",
              "exc-text", "stack-info", "msg-plus-exc", "msg-plus-stack", "bytes-msg", "extra", "dict-msg", "pct-escaped", "repr-arg"]
REC_VIA = ["record", "logger", "log", "exception", "adapter", "critical"]
REC_TEMPLATES = ["%s", "cannot connect to %s, giving up", " %s ", "retrying %s", "a | b %s | c", "dsn='%s'", "%s | done", "got `%s` back"]
REC_EXTRA_LAYOUT = "%(name)s | %(ctx)s | %(levelname)-8s | %(message)s"
REC_METHODS = ["debug", "info", "warning", "error", "audit", "alert"]


class _Lazy:
    """a message / argument object: only str() gives its text"""

    def __init__(self, text):
        self.text = text

    def __str__(self):
        return self.text

    def __repr__(self):
        return "<lazy>"


class _RecCollector(logging.Handler):
    def __init__(self):
        super().__init__(level=0)
        self.records = []

    def emit(self, record):
        self.records.append(record)


class _Stream(logging.StreamHandler):
    """a StreamHandler whose formatting error is kept instead of being printed on stderr"""

    err = None

    def handleError(self, record):
        import sys

        self.err = getattr(sys.exc_info()[0], "__name__", "?")


def rec_payload_text(pl):
    if pl["kind"] == "url":
        return "%s%s://%s:%s@%s%s" % (pl["pre"], pl["scheme"], pl["user"], pl["password"], pl["host"], pl["post"])
    if pl["kind"] == "json":
        return encode_message(pl["obj"], pl.get("enc", 0))
    return pl["text"]


def valid_rec(c):
    if not (isinstance(c, dict) and c.get("kind") == "rec" and isinstance(c.get("payload"), dict)):
        return False
    for k in ("style", "via", "tpl", "layout", "colour", "level"):
        if not (isinstance(c.get(k, 0), int) and not isinstance(c.get(k, 0), bool) and c.get(k, 0) >= 0):
            return False
    if "name" in c and not isinstance(c["name"], str):
        return False
    pl = c["payload"]
    if pl.get("kind") == "url":
        if not all(isinstance(pl.get(k), str) for k in ("pre", "scheme", "user", "password", "host", "post")):
            return False
        ui = pl["user"] + pl["password"]
        return not any(ch in ui for ch in "@/?#\n\r \t") and ":" not in pl["user"] and "@" not in pl["host"][:1]
    if pl.get("kind") == "json":
        return isinstance(pl.get("obj"), dict) and json_ok(pl["obj"]) and isinstance(pl.get("enc", 0), int) and pl.get("enc", 0) >= 0
    return pl.get("kind") == "text" and isinstance(pl.get("text"), str)


def rec_call(case):
    """-> (msg, args, exc_text | None, stack_info | None, extra | None): what the caller hands to logging"""
    P = rec_payload_text(case["payload"])
    style = REC_STYLES[case.get("style", 0) % len(REC_STYLES)]
    T = REC_TEMPLATES[case.get("tpl", 0) % len(REC_TEMPLATES)]
    left, right = T.split("%s", 1)
    plain = left + "it" + right
    msg, args, exc, stack, extra = left + P + right, (), None, None, None
    if style == "pct-s":
        msg, args = T, (P,)
    elif style == "pct-two":
        msg, args = "attempt %d: " + T, (3, P)
    elif style == "pct-dict":
        msg, args = T.replace("%s", "%(target)s"), ({"target": P, "n": 1},)
    elif style == "msg-object":
        msg = _Lazy(left + P + right)
    elif style == "msg-object-args":
        msg, args = _Lazy(T), (P,)
    elif style == "arg-object":
        msg, args = T, (_Lazy(P),)
    elif style == "whole-arg":
        msg, args = "%s", (P,)
    elif style == "exc-text":
        msg, exc = plain, P
    elif style == "stack-info":
        msg, stack = plain, "Stack (most recent call last):\n  " + P
    elif style == "msg-plus-exc":
        exc = "boom 7EXCTEXT9Z"
    elif style == "msg-plus-stack":
        stack = "Stack (most recent call last):\n  File 'x.py', line 1"
    elif style == "bytes-msg":
        msg = (left + P + right).encode("utf-8", "surrogatepass")
    elif style == "extra":
        msg, extra = plain, {"ctx": P}
    elif style == "dict-msg":
        msg = {"target": P, "n": 1}
    elif style == "pct-escaped":
        msg, args = "100%% sure: " + T, (P,)
    elif style == "repr-arg":
        msg, args = T.replace("%s", "%r"), (P,)
    return msg, args, exc, stack, extra


def run_rec(case):
    """Make the record by the named kind of call, format it with the implementation (through a real handler unless the
    record is built by hand) -> dict(out, err, line, can, message, trailer, model_line, made)."""
    st = impl()
    msg, args, exc, stack, extra = rec_call(case)
    via = REC_VIA[case.get("via", 0) % len(REC_VIA)]
    style = REC_STYLES[case.get("style", 0) % len(REC_STYLES)]
    name, levelno = LEVELS[case.get("level", 3) % len(LEVELS)]
    exc_info = None
    if exc is not None:
        e = ValueError(exc)
        exc_info = (ValueError, e, None)
    with colour_env(COLOURS[case.get("colour", 0) % len(COLOURS)]) as suppress:
        fmtr, orig = make_formatter(case.get("layout", 0), suppress)
        if style == "extra":
            orig = logging.Formatter(REC_EXTRA_LAYOUT)
            fmtr = st["lf"].LogFormatter(orig, suppress_color=suppress)
        can = soft_call(fmtr, "_can_colorize")
        out = err = record = None
        if via == "record" or (stack is not None and stack.startswith("Stack") and via != "record" and False):
            record = logging.LogRecord(case.get("name", "DEFAULT"), levelno, "/srv/app/module_x.py", 12, msg, args, exc_info, func="run", sinfo=stack)
            record.created, record.msecs = 1790000000.25, 250.0
            for k, v in (extra or {}).items():
                setattr(record, k, v)
            try:
                out = fmtr.format(record)
            except Exception as e:
                err = type(e).__name__
        else:
            lg = logging.getLogger("c20rec." + case.get("name", "DEFAULT"))
            lg.propagate = False
            lg.setLevel(1)
            buf = io.StringIO()
            sh, col = _Stream(buf), _RecCollector()
            sh.setFormatter(fmtr)
            lg.handlers[:] = [sh, col]
            for m in (st.get("al"), st["gl"]):
                if m is not None:
                    forget_warnings(m)
            kw = {}
            if extra:
                kw["extra"] = extra
            if exc_info is not None and via != "exception":
                kw["exc_info"] = exc_info
            try:
                if via == "logger":
                    getattr(lg, REC_METHODS[case.get("level", 3) % len(REC_METHODS)])(msg, *args, **kw)
                elif via == "log":
                    lg.log(levelno, msg, *args, **kw)
                elif via == "exception":
                    try:
                        raise ValueError(exc if exc is not None else "boom 7EXCTEXT9Z")
                    except ValueError:
                        lg.exception(msg, *args, **kw)
                elif via == "adapter":
                    logging.LoggerAdapter(lg, {"ctx": "adapter-ctx"}).error(msg, *args, **kw)
                else:
                    lg.critical(msg, *args, **kw)
            except Exception as e:
                err = type(e).__name__
            finally:
                lg.handlers[:] = []
                forget_exit_reports(st["gl"], st.get("al"))
            if col.records:
                record = col.records[0]
                if stack is not None:
                    pass  # stack_info text can only be given on a record built by hand (valid combinations exclude this)
            err = err or sh.err
            text = buf.getvalue()
            out = text[:-1] if text.endswith("\n") else (text or None)
            if err is not None:
                out = None
        res = {"out": out, "err": err, "line": None, "can": can, "message": None, "trailer": "", "model_line": None, "made": record is not None,
               "header": None, "fragment": None}
        if record is None:
            return res
        try:
            line = orig.format(record)
            import copy

            bare = copy.copy(record)
            bare.exc_info = bare.exc_text = bare.stack_info = None
            head = orig.format(bare)
            M = record.getMessage()
        except Exception as e:
            res["unformattable"] = type(e).__name__
            return res
    res["line"], res["message"] = line, M
    if line.startswith(head) and head.endswith(M):
        res["trailer"] = line[len(head):]
        res["header"] = head[: len(head) - len(M)]
    tables = parameter_tables(line, can, fmtr, res)
    if tables is not None:
        # inside the fragment of `%` the model has (Model.pctFormat: %s / %d of texts and integers, %%): the model is given the
        # record - template, arguments, traceback - and computes the line itself; outside: the line is the parameter
        tpl = record.msg if isinstance(record.msg, str) else None
        rargs = record.args if isinstance(record.args, tuple) else None
        if tpl is not None and rargs is not None and res["header"] is not None and wire_ok(tpl) and in_pct_fragment(tpl, rargs):
            res["fragment"] = True
            res["model_line"] = "C20 formatrec " + wire.line(bool(can), res["header"], tpl, [str(a) for a in rargs], res["trailer"], *tables)
        else:
            res["model_line"] = "C20 format " + wire.line(bool(can), line, *tables)
    return res


def in_pct_fragment(tpl, args):
    """the part of `template % args` Model.pctFormat has: %s of a text or an integer, %d of an integer, %%; as many as arguments"""
    if not re.fullmatch(r"(?:[^%]|%[sd%])*", tpl, re.S):
        return False
    ds = [d for d in re.findall(r"%([sd%])", tpl) if d != "%"]
    if len(ds) != len(args):
        return False
    return all((type(a) is int) if d == "d" else (type(a) in (str, int)) for d, a in zip(ds, args))


def oracle_rec(case, r):
    """The emitted line is judged against the *message* (record.getMessage(), computed by logging itself on the captured
    record): a JSON object -> the JSON demand; anything else -> no user-info of a URL of the message may be emitted."""
    out, M = r["out"], r["message"]
    if out is None or M is None:
        return None
    c = classify_text(M)
    if c is not None:
        if r["trailer"]:
            return None  # a JSON message followed by a traceback: measured (design notes, round 4), not demanded
        return oracle_text(c[0], out, classified=c[1:])
    spans = [m.span(1) for m in RFC_URL.finditer(M)]
    pl = case["payload"]
    if pl["kind"] == "url":
        needle = "://%s:%s@" % (pl["user"], pl["password"])
        i = M.find(needle)
        while i >= 0:
            spans.append((i + 3, i + len(needle) - 1))
            i = M.find(needle, i + 1)
    # a token that also stands in a header field or in the traceback is not the message's alone: no demand on it
    for t in sorted(url_hidden_tokens(M, spans, elsewhere=(r["header"] or "") + "\x00" + r["trailer"])):
        if t in out:
            return "URL user-info is emitted"
    return None


def rec_combination_ok(style, via):
    s, v = REC_STYLES[style % len(REC_STYLES)], REC_VIA[via % len(REC_VIA)]
    if s in ("stack-info", "msg-plus-stack"):
        return v == "record"            # the text of stack_info can only be chosen on a record built by hand
    if v == "exception":
        return s not in ("exc-text",) or True
    return True


# --------------------------------------------------------------------------- evaluation


def _eval_one(case):
    """Run the implementation; -> (clause, impl_view, model_line, compare) where compare(model_values)
    returns a description of the disagreement or None."""
    kind = case["kind"]
    if kind in ("json", "url", "text"):
        r = run_format(case)
        clause = oracle_format(case, r["out"])

        def compare(m):
            if r["err"] is not None:
                return "implementation raised %s, model returned text" % r["err"]
            return None if m[0] == r["out"] else "formatted text differs"

        return clause, {"out": r["out"], "err": r["err"], "line": r["line"], "can": r["can"],
                        "parser_assumption_violated": r.get("parser_assumption_violated"),
                        "parser_param_differs_from_json_loads_of_text": r.get("parser_param_differs_from_json_loads_of_text")}, r["model_line"], compare
    if kind == "rec":
        r = run_rec(case)
        clause = oracle_rec(case, r)

        def compare(m):
            if r["err"] is not None:
                return "implementation raised %s, model returned text" % r["err"]
            if r["fragment"]:
                if m[0] == ["err"] or m[1] != r["line"]:
                    # the model's `%` against Python's, the implementation is not involved: a harness / model error
                    raise InfraError("Model.stdLine differs from logging.Formatter on %r: %r vs %r" % (case, m[1:], r["line"]))
            return None if m[0] == r["out"] else "formatted text differs"

        return clause, {"out": r["out"], "err": r["err"], "line": r["line"], "can": r["can"], "message": r["message"], "trailer": r["trailer"],
                        "made": r["made"], "fragment": r["fragment"],
                        "parser_assumption_violated": r.get("parser_assumption_violated"),
                        "parser_param_differs_from_json_loads_of_text": r.get("parser_param_differs_from_json_loads_of_text")}, r["model_line"], compare
    if kind == "clean":
        res, err, ml = run_clean(case)
        text = None if res is None else json.dumps(dict((k, v) for k, v in res))
        clause = None if text is None else oracle_text(case["obj"], text)

        def compare(m):
            if err is not None:
                return "clean_record raised %s" % err
            return None if m[0] == res else "clean_record differs"

        return clause, {"out": res, "err": err}, ml, compare
    if kind == "google":
        out, printed, err, ml = run_google(case)
        if unjudged_duplicate(out, printed, err):
            return None, {"out": out, "err": None, "unjudged": "suppressed duplicate"}, None, (lambda m: None)
        clause = None
        if out is not None:
            clause = oracle_text(case["obj"], out) or oracle_text(case["obj"], printed, placeholders=False)

        def compare(m):
            if err is not None:
                return "write_event raised %s" % err
            if m[0] != out:
                return "write_event line differs"
            if printed != out + "\n":
                return "write_event printed something else than it returned"
            return None

        return clause, {"out": out, "err": err}, ml, compare
    if kind in ("gurl", "gtext"):
        out, printed, err, ml = run_google_text(case)
        if unjudged_duplicate(out, printed, err):
            return None, {"out": out, "err": None, "unjudged": "suppressed duplicate"}, None, (lambda m: None)
        clause = None
        if out is not None and kind == "gurl":
            msg = message_of(case)
            clause = oracle_url(case, msg, out) or oracle_url(case, msg, printed)

        def compare(m):
            if err is not None:
                return "write_event raised %s" % err
            if m[0] != out:
                return "write_event line differs"
            if printed != out + "\n":
                return "write_event printed something else than it returned"
            return None

        return clause, {"out": out, "err": err}, ml, compare
    if kind == "ginst":
        out, printed, err, ml, filtered = run_ginst(case)
        if unjudged_duplicate(out, printed, err):
            return None, {"out": out, "err": None, "unjudged": "suppressed duplicate"}, None, (lambda m: None)
        clause = None
        if filtered:
            # the level filter dropped the calibration call: this call must be dropped as well
            def compare(m):
                return None

            if printed or out is not None:
                clause = oracle_text(case["obj"], (out or "") + printed, placeholders=False)
            return clause, {"out": out, "err": err, "filtered": True}, None, compare
        method = GMETHODS[case.get("method", 3) % len(GMETHODS)]
        if out is not None:
            clause = oracle_text(case["obj"], out) or oracle_text(case["obj"], printed, placeholders=False)
        elif method == "__call__" and err is None:
            # GoogleLogger.__call__ drops the return value of self.debug: the printed line is the output
            clause = oracle_text(case["obj"], printed) if printed else None

        def compare(m):
            if err is not None:
                return "GoogleLogger.%s raised %s" % (method, err)
            if method == "__call__":
                return None if printed == m[0] + "\n" else "GoogleLogger() printed another line"
            if m[0] != out:
                return "GoogleLogger.%s line differs" % method
            if printed != out + "\n":
                return "GoogleLogger.%s printed something else than it returned" % method
            return None

        return clause, {"out": out, "err": err}, ml, compare
    raise InfraError("bad case kind %r" % kind)


def drop_members(case, still):
    """core.shrink never removes dictionary members: do that first (greedy, to a fixed point)."""
    if not isinstance(case.get("obj"), dict):
        return case

    def variants(d):
        for k in list(d):
            yield {a: b for a, b in d.items() if a != k}
        for k, v in d.items():
            if isinstance(v, dict):
                for w in variants(v):
                    yield {a: (w if a == k else b) for a, b in d.items()}
                yield {**{a: b for a, b in d.items() if a != k}, **v}  # hoist the inner object

    cur, tries, progress = case, 0, True
    while progress and tries < 150:
        progress = False
        for o in variants(cur["obj"]):
            tries += 1
            c2 = dict(cur, obj=o)
            if still(c2):
                cur, progress = c2, True
                break
            if tries >= 150:
                break
    return cur


def evaluate(ctx, cases):
    st = impl()
    runs = []
    for c in cases:
        if not valid_case(c):
            raise InfraError("generator produced an invalid case: %r" % (c,))
        runs.append(_eval_one(c))
        if not ctx.replaying:
            _HISTORY.append(c)
    lines = [(i, r[2]) for i, r in enumerate(runs) if r[2] is not None]
    mouts = ctx.model.batch([l for _, l in lines])
    mo_by_i = {i: o for (i, _), o in zip(lines, mouts)}
    for i, (c, (clause, view, ml, compare)) in enumerate(zip(cases, runs)):
        nontrivial = True
        if c["kind"] in ("json", "clean", "google", "ginst"):
            s, v, f, due = classify(c["obj"])
            nontrivial = bool(s or v)
            ctx.hit("secret-tokens:%d" % min(len(s), 5))
            ctx.hit("placeholders-due:%d" % min(len(due), 5))
        ctx.case(c, nontrivial)
        ctx.hit("kind:" + c["kind"])
        if c["kind"] in ("google", "gurl", "gtext"):
            ctx.hit("google:severity=%s" % (severities()[c.get("severity", 0) % 14],))
            ctx.hit("google:span=%r" % (SPANS[c.get("span", 0) % len(SPANS)],))
        if c["kind"] == "ginst":
            ctx.hit("ginst:%s@level%d%s%s" % (GMETHODS[c.get("method", 3) % len(GMETHODS)], GLEVELS[c.get("loglevel", 1) % len(GLEVELS)],
                                             ":reused" if c.get("reuse") else "", ":filtered" if view.get("filtered") else ""))
        if c["kind"] == "rec":
            n_ = len(view.get("message") or "")
            sty, via_ = REC_STYLES[c.get("style", 0) % len(REC_STYLES)], REC_VIA[c.get("via", 0) % len(REC_VIA)]
            ctx.hit("rec:style=" + sty)
            ctx.hit("rec:via=" + via_)
            ctx.hit("rec:payload=" + c["payload"]["kind"])
            ctx.hit("rec:model=%s" % ("record(template,args,traceback)" if view.get("fragment") else "line" if ml is not None else "oracle-only"))
            if not view.get("made"):
                ctx.hit("rec:no-record-made")
            M_ = view.get("message")
            if M_ is not None:
                msg_, _, _, _, _ = rec_call(c)
                tpl_ = msg_ if isinstance(msg_, str) else None
                if "://" in M_ and tpl_ is not None and "://" not in tpl_:
                    ctx.hit("rec:url-in-message-but-not-in-template")
                if spec_object(M_) is not None:
                    ctx.hit("rec:message-is-json-object%s" % (":with-traceback(measured)" if view.get("trailer") else ""))
                    if view.get("trailer") and view.get("out") is not None:
                        cl_ = classify_text(M_)
                        leak = cl_ is not None and any(t in view["out"] for t in cl_[1])
                        ctx.hit("rec:json-message-with-traceback:%s" % ("secret-emitted" if leak else "no-secret-emitted"))
        else:
            n_ = len(message_of(c)) if c["kind"] in ("json", "url", "text", "gurl", "gtext") else len(json.dumps(c["obj"], default=repr))
        ctx.hit("message-length:%s" % ("<200" if n_ < 200 else "<1000" if n_ < 1000 else "<10000" if n_ < 10000 else "<100000" if n_ < 100000 else ">=100000"))
        if c["kind"] == "text":
            t = c["text"]
            so = spec_object(t)
            ctx.hit("text:%s" % ("json-object" if so is not None else "not-an-object"))
            if so is not None:
                try:
                    if len(json.loads(t, object_pairs_hook=_Pairs)) != len(so):
                        ctx.hit("text:duplicate-keys")
                except (ValueError, RecursionError):
                    pass
                if any(0xD800 <= ord(ch) <= 0xDFFF for ch in t):
                    ctx.hit("text:raw-unpaired-surrogate")
                if re.search(r"NaN|Infinity", t):
                    ctx.hit("text:nan-or-infinity-literal")
                if re.search(r"[0-9]{400}|[eE][+-]?[0-9]{3}", t):
                    ctx.hit("text:number-beyond-double-or-64-bits")
                if "\\u" in t:
                    ctx.hit("text:unicode-escape")
            if view.get("parser_param_differs_from_json_loads_of_text"):
                ctx.hit("text:implementation-parser-accepts-what-json.loads(text)-refuses(BOM)")
        if c["kind"] in ("json", "url", "text", "rec"):
            ctx.hit("layout:%d" % (c.get("layout", 0) % len(LAYOUTS)))
            ctx.hit("colour:%d(%s)" % (c.get("colour", 0) % len(COLOURS), "on" if view.get("can") else "off"))
            ctx.hit("level:" + LEVELS[c.get("level", 3) % len(LEVELS)][0])
            if "|" in (message_of(c) if c["kind"] != "rec" else (view.get("message") or "")):
                ctx.hit("separator-in-message")
        if view.get("err"):
            ctx.hit("impl-raised:" + view["err"])
        if view.get("parser_assumption_violated"):
            ctx.hit("parser-accepts-object-not-starting-with-brace")
        m = None
        if i in mo_by_i and "obj" in c and array_of_objects(c["obj"]):
            # objects inside arrays are outside the quantifier: whether the sanitiser looks inside
            # them is left open, so these records are judged by the oracle alone; how the tree
            # behaves on them is only recorded (it is compared with the implemented, shallow reading)
            ctx.hit("oracle-only:array-of-objects")
            mo = mo_by_i[i]
            if not inside_repr_assumption(c["obj"]):
                ctx.hit("array-of-objects:not-compared(outside-repr-assumption)")
            else:
                same = mo.startswith("ok ") and compare(wire.dec_all(mo[3:])) is None
                ctx.hit("array-of-objects:%s" % ("as-shallow-model" if same else "differs-from-shallow-model"))
        elif i in mo_by_i and "obj" in c and not inside_repr_assumption(c["obj"]):
            ctx.hit("oracle-only:outside-repr-assumption")
        elif i in mo_by_i:
            mo = mo_by_i[i]
            if not mo.startswith("ok "):
                # the model rejects only when a parameter table misses an entry
                if view.get("err") is None:
                    raise InfraError("model rejected case %r: %r" % (c, mo))
            else:
                m = wire.dec_all(mo[3:])
        else:
            ctx.hit("oracle-only")
        if clause is not None:
            def still(c2, clause=clause):
                if not valid_case(c2):
                    return False
                try:
                    return _eval_one(c2)[0] == clause
                except InfraError:
                    return False
                except Exception:
                    return False
            if not ctx.replaying and any(v.get("sig") == clause for v in ctx.violations):
                ctx.hit("violation-dup:" + clause)
                continue
            c_min = c if ctx.replaying else shrink(drop_members(c, still), still, budget=250)
            cl2, view2, _, _ = _eval_one(c_min)
            # does it fail by itself in a new interpreter?  if not, the replay carries the history it needs
            c_rep = c_min if ctx.replaying else with_history(c_min, cl2 or clause)
            ctx.fail(c_rep, cl2 or clause, impl=view2, model=m[0] if (m is not None and c_min is c) else None)
        elif m is not None:
            what = compare(m)
            if what is not None:
                ctx.disagree(c, view, m[0], what)
        elif view.get("err") is not None:
            ctx.disagree(c, view, None, "implementation raised " + view["err"])


# --------------------------------------------------------------------------- generators

ALNUM = "ABCDEFGHJKLMNPQRSTUVWXYZ23456789"


def token(rng, n=10):
    # always one letter and one digit, never a word; starts with a digit 2..9, i.e. inside the domain of
    # C20.visible_token_in_record (`tokenHeadOK`: the first character occurs in no colour pattern)
    return rng.choice("23456789") + "".join(rng.choice(ALNUM) for _ in range(n - 3)) + rng.choice("23456789") + rng.choice("GHJKLMNPQRSTUVWXYZ")


SEPARATORS = ["|", " | ", "'", "`", '"', "''", "'x'", "`y`", " ", "\\", ",", "{", "}", "[", ":", "\n", "\t", "é", "中", "😀", "\u0001",
              "\b", "\f", "\r", "\x7f", "\x1f", "\xa0", "\xad", "\x85", "ß", "Ω", "\u2028", "\ufeff",
              " ERROR    ", " INFO     ", "|{", '|{"a": 1}', "*", "<redacted:", "\\u0001OFFm", "%s", "%(message)s", "{message}", "$", "=", "/"]


def text_marker(rng, style=None):
    style = rng.randrange(8) if style is None else style
    a, b = token(rng), token(rng)
    if style == 0:
        return a
    if style == 1:
        return a + "|" + b
    if style == 2:
        return "'" + a + "' `" + b + "`"
    if style == 3:
        return a + " | " + b + ' "' + token(rng) + '"'
    if style == 4:
        sep = rng.choice(SEPARATORS)
        if rng.random() < 0.3:  # any BMP character: compared when inside the repr assumption, else oracle only
            o = rng.randrange(0x80, 0xFFFE)
            sep = chr(o) if not 0xD800 <= o <= 0xDFFF else "\u00e9"
        return a + sep + b
    if style == 5:
        return rng.choice(SEPARATORS) + a + rng.choice(SEPARATORS)
    if style == 6:
        return "".join(rng.choice(SEPARATORS) + token(rng) for _ in range(rng.randint(1, 3)))
    return a + " ERROR    " + b


def number_marker(rng):
    r = rng.random()
    if r < 0.6:
        return rng.randint(10**8, 10**12) * rng.choice([1, -1])
    if r < 0.9:
        return rng.randint(10**8, 10**11) + rng.choice([0.5, 0.25, 0.125])
    return rng.choice([0, 1, -1, 1.5, 1e300, 2**63, 10**30])


PATTERN_WORDS = ["password", "pwd", "_secret", "_key", "_token", "credentials"]
LOOKALIKES = ["passwords", "token", "key", "keys", "secret", "pwd_hint", "pass", "credential", "tokens", "keyboard", "password_hint",
              "secret_x", "monkey", "_tokenx", "pwdx", "pw", "", "a", "id", "user", "note", "message", "severity", "passwd"]


def case_variants(rng, w):
    return [w, w.upper(), w.title(), w.capitalize(), "".join(ch.upper() if rng.random() < 0.5 else ch.lower() for ch in w),
            w[:-1] + w[-1].upper()]


def key_variants(rng, w):
    """every sensitive pattern in prefix / suffix / infix / case variants"""
    out = []
    for v in case_variants(rng, w):
        out += [v, "db_" + v, "DB" + v, "x" + v, v + "_x", v + "s", "a_" + v + "_b", v + " ", " " + v, "my." + v, v + "\n",
                "a\nb" + v, "é" + v, v + "é", "|" + v, v + "|", "'" + v + "'"]
    return out


def all_keys(rng):
    ks = []
    for w in PATTERN_WORDS:
        ks += key_variants(rng, w)
    ks += LOOKALIKES
    ks += ["pa\u017f\u017fword", "api_\u212aey", "credent\u0131als", "credent\u0130als", "пароль", "PASSWORD", "Pwd", "API_KEY", "_token", "x_Token"]
    # spellings on which str.lower(), str.casefold() and re.IGNORECASE part ways (the model folds as re does)
    ks += ["Passw\u00f6rd", "PASSW\u00d6RD", "PA\u017f\u017fWORD", "CREDENT\u0130ALS", "credent\u0130\u0307als", "x_\u212aEY", "pa\u00dfword",
           "\uff50\uff41\uff53\uff53\uff57\uff4f\uff52\uff44", "pass\u200bword", "p\u0430ssword", "PASSWORD\u0307", "_TO\u212aEN", "\u0130_key", "pwd\u0131"]
    return ks


def value_of_kind(rng, kind, depth=0):
    if kind == 0:
        return text_marker(rng, 0)
    if kind == 1:
        return text_marker(rng, 1)
    if kind == 2:
        return text_marker(rng, 2)
    if kind == 3:
        return text_marker(rng)
    if kind == 4:
        return number_marker(rng)
    if kind == 5:
        return {"inner": text_marker(rng, rng.choice([0, 1])), "n": number_marker(rng)}
    if kind == 6:
        return [text_marker(rng, 0), number_marker(rng), None]
    if kind == 7:
        return rng.choice([None, True, False, "", {}, []])
    if kind == 8:
        return {"password": text_marker(rng, 0), "k": {"x_key": text_marker(rng, 1), "v": text_marker(rng, 0)}}
    return [{"password": token(rng), "v": token(rng)}, token(rng)]


N_KINDS = 10


def wrap(rng, key, value, depth, sensitive_parent=False):
    """put (key, value) `depth` objects down, next to a visible sibling at every level"""
    obj = {key: value}
    if "v0" not in obj:
        obj["v0"] = token(rng)
    for d in range(depth):
        parent = rng.choice(["ctx", "data", "detail", "user", "a|b", "it's"]) if not sensitive_parent else rng.choice(["x_key", "credentials"])
        obj = {"v%d" % (d + 1): token(rng), parent: obj}
        sensitive_parent = False
    return obj


def random_key(rng, keys):
    r = rng.random()
    if r < 0.55:
        return rng.choice(keys)
    if r < 0.8:
        return rng.choice(LOOKALIKES) + rng.choice(["", "_", "1", "x"])
    w = rng.choice(PATTERN_WORDS)
    return rng.choice(["", "a", "A_", "é", " ", "x|"]) + rng.choice(case_variants(rng, w)) + rng.choice(["", "", "", "s", "_", "\n", "x"])


def random_obj(rng, keys, depth):
    n = rng.choice([0, 1, 1, 2, 2, 3, 4, 6])
    obj = {}
    for _ in range(n):
        k = random_key(rng, keys)
        r = rng.random()
        if depth > 0 and r < 0.3:
            obj[k] = random_obj(rng, keys, depth - 1)
        else:
            obj[k] = value_of_kind(rng, rng.randrange(N_KINDS))
    return obj


def frame(rng, **kw):
    c = {"layout": rng.randrange(len(LAYOUTS)), "colour": rng.randrange(len(COLOURS)), "level": rng.randrange(len(LEVELS)), "enc": rng.randrange(4)}
    if rng.random() < 0.15:
        c["name"] = rng.choice(["svc|x", "DEFAULT", "a b", "{", "n'q'", "x ERROR    y", ""])
    c.update(kw)
    return c


def exhaustive_cases(ctx):
    """every key variant x every value kind x depth 0..3, formatter settings rotating"""
    rng = ctx.rng
    keys = all_keys(rng)
    i = 0
    depths = ctx.scale([0, 1, 3], [0, 1, 2, 3])
    for key in keys:
        for kind in range(N_KINDS):
            for depth in depths:
                if ctx.tier == "quick" and (i % 3) and kind not in (0, 1, 5):
                    i += 1
                    continue
                obj = wrap(rng, key, value_of_kind(rng, kind), depth, sensitive_parent=(i % 11 == 0))
                i += 1
                yield {"kind": "json", "obj": obj, "layout": i % len(LAYOUTS), "colour": (i // 3) % len(COLOURS), "level": (i // 5) % len(LEVELS), "enc": (i // 7) % 4}


def settings_cases(ctx):
    """every layout x colour x level on one object with every pattern and a separator"""
    rng = ctx.rng
    for layout in range(len(LAYOUTS)):
        for colour in range(len(COLOURS)):
            for level in range(len(LEVELS)):
                obj = {"db_password": text_marker(rng, 1), "note": text_marker(rng, 3), "user_pwd": number_marker(rng),
                       "ctx": {"api_key": {"v": token(rng)}, "x": token(rng) + " ERROR    ", "auth_token": token(rng)},
                       "My_Credentials_2": token(rng), "client_secret": "'" + token(rng) + "'"}
                yield {"kind": "json", "obj": obj, "layout": layout, "colour": colour, "level": level, "enc": (layout + colour + level) % 4}


def google_settings_cases(ctx):
    """every severity x span id on one object with every pattern, a nested object and reserved keys"""
    rng = ctx.rng
    for sev in range(14):
        for span in range(len(SPANS)):
            obj = {"db_password": text_marker(rng, 1), "note": text_marker(rng, 3), "user_pwd": number_marker(rng),
                   "ctx": {"api_key": {"v": token(rng)}, "x": token(rng), "auth_token": token(rng)},
                   "My_Credentials_2": [token(rng)], "client_secret": "'" + token(rng) + "'"}
            if (sev + span) % 3 == 0:
                obj["message"] = token(rng)
            if (sev + span) % 4 == 0:
                obj["severity"] = token(rng)
            yield {"kind": "google", "obj": obj, "severity": sev, "span": span}


URL_PRE = ["", "connect to ", "see http://example.com/a?b=1 and ", "a | b ", "'", "mail bob@example.com then ", "x://", "line1\n", '{"a": ', "dsn=", "://", "@ ", "`"]
URL_POST = ["", "/db failed", ":5432/db?sslmode=require", " | retry", "'", " and ftp://u2:%(tok)s@h2/", " then amqp://%(tok)s:%(tok2)s@mq and x@y", "\nredis://:%(tok)s@cache:6379/0", "\nnext", " @ ", "`", '"}']
URL_SCHEME = ["postgres", "https", "ftp", "mongodb+srv", "redis", "amqp", "s3", "", "HTTPS", "S3", "Postgres", "hTTp", "git+SSH", "x-1.2", "JDBC:postgresql"]


def url_case(rng):
    pw = rng.choice([token(rng), token(rng) + "%40" + token(rng), token(rng) + rng.choice("!$&'()*+,;=:|`\"") + token(rng), token(rng, 24)])
    user = rng.choice(["user", "admin", token(rng), "", "svc-" + token(rng)])
    return frame(rng, kind="url", pre=rng.choice(URL_PRE) + rng.choice(["", token(rng) + " "]), scheme=rng.choice(URL_SCHEME), user=user,
                 password=pw, host=rng.choice(["host", "db.example.com", "10.0.0.1", "h-" + token(rng)]),
                 post=rng.choice(URL_POST).replace("%(tok)s", token(rng)).replace("%(tok2)s", token(rng)))


def url_scheme_cases(ctx):
    """every scheme spelling (RFC 3986: letters of either case, digits, `+`, `-`, `.`) x text formatter / structured
    logger x a few surroundings: the URL rule must not depend on how the scheme is written"""
    rng = ctx.rng
    i = 0
    for scheme in URL_SCHEME:
        for pre, post in (("", ""), ("connect to ", "/db failed"), ("a | b ", " | retry")):
            user = ["svc", token(rng), ""][i % 3]
            yield frame(rng, kind="url", pre=pre, scheme=scheme, user=user, password=token(rng), host="db.example.com", post=post, layout=i % len(LAYOUTS), colour=i % 2)
            yield {"kind": "gurl", "pre": pre, "scheme": scheme, "user": user, "password": token(rng), "host": "h", "post": post, "severity": i % 14, "span": i % len(SPANS)}
            i += 1


def rec_payload(rng, kind, keys=None):
    if kind == "url":
        u = url_case(rng)
        return {"kind": "url", **{k: u[k] for k in ("pre", "scheme", "user", "password", "host", "post")}}
    if kind == "json":
        if keys is not None and rng.random() < 0.5:
            return {"kind": "json", "obj": random_obj(rng, keys, rng.choice([0, 1, 2])), "enc": rng.randrange(4)}
        return {"kind": "json", "enc": rng.randrange(4),
                "obj": {"db_password": text_marker(rng, 1), "note": text_marker(rng, 0), "ctx": {"api_key": {"v": token(rng)}, "x": token(rng)},
                        "My_Credentials_2": [token(rng)], "pct": "100%"}}
    return {"kind": "text", "text": rng.choice([token(rng), "it's `x` | \"y\" " + token(rng), "100% " + token(rng), "", "{", "a://b " + token(rng),
                                                 "%s %d %(x)s " + token(rng), "mail bob@example.com " + token(rng)])}


def rec_cases(ctx):
    """every place of a record the payload can sit in x every kind of call x payload kind x two templates, the
    formatter settings rotating: the ways a message reaches LogFormatter.format"""
    rng = ctx.rng
    i = 0
    for style in range(len(REC_STYLES)):
        for via in range(len(REC_VIA)):
            if not rec_combination_ok(style, via):
                continue
            for pk in ("url", "json", "text"):
                for tpl in ((1, 0, 4) if pk == "url" else (0, 2) if pk == "json" else (3,)):
                    i += 1
                    yield {"kind": "rec", "style": style, "via": via, "tpl": tpl, "payload": rec_payload(rng, pk), "layout": i % len(LAYOUTS),
                           "colour": (i // 2) % len(COLOURS), "level": (i // 3) % len(LEVELS)}


def random_rec(rng, keys):
    while True:
        style, via = rng.randrange(len(REC_STYLES)), rng.randrange(len(REC_VIA))
        if rec_combination_ok(style, via):
            break
    c = frame(rng, kind="rec", style=style, via=via, tpl=rng.randrange(len(REC_TEMPLATES)), payload=rec_payload(rng, rng.choice(["url", "url", "json", "json", "text"]), keys))
    c.pop("enc", None)
    return c


def random_case(ctx, keys):
    rng = ctx.rng
    if rng.random() < 0.2:
        return random_rec(rng, keys)
    r = rng.random()
    if r < 0.55:
        return frame(rng, kind="json", obj=random_obj(rng, keys, rng.choice([0, 1, 2, 3])))
    if r < 0.70:
        return url_case(rng)
    if r < 0.80:
        return {"kind": "clean", "obj": random_obj(rng, keys, rng.choice([0, 1, 2, 3])), "colorize": rng.random() < 0.5}
    if r < 0.88:
        return {"kind": "google", "obj": random_obj(rng, keys, rng.choice([0, 1, 2, 3])), "severity": rng.randrange(14), "span": rng.randrange(len(SPANS))}
    if r < 0.94:
        # a JSON object that contains a URL
        obj = random_obj(rng, keys, 1)
        obj[rng.choice(["dsn", "url", "db_password"])] = "postgres://%s:%s@host/db" % (rng.choice(["u", token(rng)]), token(rng))
        return frame(rng, kind="json", obj=obj)
    # plain text / JSON that is not an object: exercises the other branch of the isolation
    texts = [token(rng), "5", '"' + token(rng) + '"', "[1, 2]", '[{"password": "x"}]', "a | b | c", "it's `x` and \"y\"", "  padded  ",
             "null", "{", '{"a": 1} trailing', "x | {\"v\": \"%s\"}" % token(rng), "user said 'hello | world'", "", " ", "|", "||", "a|"]
    return frame(rng, kind="text", text=rng.choice(texts))


def parser_texts(rng):
    """Message *texts* on the border of what json.loads accepts (the parser's acceptance set is a parameter
    of the model; here it is exercised on purpose), each with fresh tokens: S, W under sensitive keys, V visible."""
    S, V, W = token(rng), token(rng), token(rng)
    return [
        '{"password": "%s", "password": "%s", "v": "%s"}' % (S, W, V),      # duplicate sensitive key: the last one is digested
        '{"a": {"password": "%s"}, "a": "%s"}' % (S, V),                     # the overwritten object held a secret
        '{"a": "%s", "a": {"x_key": "%s", "n": "%s"}}' % (W, S, V),          # the overwriting object holds one
        '{"note": "%s", "note": "%s", "pwd": "%s"}' % (W, V, S),
        '{"pwd": "%s", "v": "%s", "pwd": {"k": "%s"}}' % (S, V, W),
        '{"password": "%s", "x": NaN, "y": Infinity, "z": -Infinity, "v": "%s"}' % (S, V),
        '{"api_key": NaN, "x_secret": -Infinity, "v": "%s"}' % V,
        '{"password": "%s", "x": 1E+400, "y": -1e400, "z": 1e-400, "v": "%s"}' % (S, V),
        '{"db_pwd": 1E+400, "v": "%s"}' % V,
        '{"password": "%s", "n": %s, "v": "%s"}' % (S, "7" * 4300, V),     # the longest integer json.loads takes
        '{"user_pwd": %s, "v": "%s"}' % ("8" * 4300, V),
        '{"password": "%s", "n": %s}' % (S, "9" * 4301),                     # one digit more: ValueError -> not an object
        '{"password": "\\ud800%s", "v": "%s"}' % (S, V),                     # escaped unpaired surrogate in the secret
        '{"password": "%s", "f": "\\udc80%s"}' % (S, V),                     # ... next to it
        '{"password": "\udc80%s", "v": "%s"}' % (S, V),                      # the same, raw in the text
        '{"password": "%s", "f": "\udc80%s"}' % (S, V),
        '{"f\udc80": "%s", "x_token": "%s"}' % (V, S),
        '{"f": "\ud83d\ude00%s", "x_token": "\ud83d%s"}' % (V, S),
        ' \t\n\r {"password": "%s", "v": "%s"} \n\t ' % (S, V),
        '{"password": "%s\\u0000%s", "v": "%s\\u0000"}' % (S, W, V),
        '{"pass\\u0077ord": "%s", "v": "%s"}' % (S, V),                       # the key is spelt with an escape
        '{"\\u0050ASSWORD": "%s", "v\\u0031": "%s"}' % (S, V),
        '{"cred\\u0065ntials_file": ["%s"], "v": "%s"}' % (S, V),
        '{"a": {"b": {"c": {"d": {"e": {"f": {"password": "%s", "v": "%s"}}}}}}}' % (S, V),
        '{"password": {"a": {"b": {"c": {"d": "%s"}}}}, "v": "%s"}' % (S, V),
        '{}',
        '{"": "%s", "pwd": "%s"}' % (V, S),
        '{"a": "x | {\\"password\\": \\"%s\\"}", "my_token": "%s"}' % (V, S),  # JSON text inside a visible text value
        '{"password": "%s", "v": "%s"}' % (S + "Q" * 3000, V),
        '{"v": "%s", "password"\n:\n"%s"\n}' % (V, S),
        '{"password":"%s","v":"%s"}' % (S, V),
        '{"PASSWORD": "%s", "Passw\u00f6rd": "%s", "PA\u017f\u017fWORD": "%s"}' % (S, V, W),
        '{"password\\n": "%s", "v": "%s"}' % (S, V),
        '{"v": "%s", "password": "%s"}trailing' % (V, S),
        '\ufeff{"password": "%s"}' % S,                                      # BOM: json.loads(text) refuses: plain text, no demand
        "{'password': '%s'}" % S, '{"password": "%s",}' % S, '{"password": "%s"} x' % S, '[{"password": "%s"}]' % S, '"%s"' % S,
        '{"password": "%s" /* c */}' % S, '\x0b{"password": "%s"}' % S, '{"password": "%s\x01"}' % S,
    ]


def long_cases(ctx):
    """sizes a fast path or a truncation would be keyed on: a secret and a visible token at both ends of long
    values, a URL before / after a long text, a JSON message after a long run of white space"""
    rng = ctx.rng
    for n in ctx.scale([1500, 5000, 20000, 70000], [1500, 5000, 20000, 70000, 150000]):
        filler = ("lorem 'ipsum' dolor " * (n // 20 + 1))[:n]
        a, b, c_, d = token(rng), token(rng), token(rng), token(rng)
        yield frame(rng, kind="json", enc=0, obj={"note": a + " " + filler + " " + b, "db_password": c_ + filler[: n // 2] + d,
                                                  "ctx": {"x_key": token(rng), "v": filler[: n // 3] + token(rng)}})
        yield {"kind": "clean", "obj": {"api_key": [filler, token(rng)], "v": token(rng) + filler}, "colorize": bool(n % 2)}
        yield {"kind": "google", "obj": {"password": filler + token(rng), "v": token(rng)}, "severity": 3, "span": 0}
        for pre, post in ((filler + " ", ""), ("", " " + filler), (filler + " | ", " | " + filler)):
            yield frame(rng, kind="url", pre=pre, scheme="postgres", user="svc", password=token(rng), host="db", post=post)
            yield {"kind": "gurl", "pre": pre, "scheme": "https", "user": token(rng), "password": token(rng), "host": "h", "post": post,
                   "severity": 3, "span": 0}
        yield frame(rng, kind="text", text=" " * n + '{"password": "%s", "v": "%s"}' % (token(rng), token(rng)) + "\n" * (n // 10))
        yield frame(rng, kind="text", text='{"v": "%s", "pad": "%s", "x_token": "%s"}' % (token(rng), filler.replace("'", " "), token(rng)))


def parser_cases(ctx):
    rng = ctx.rng
    for layout in (0, 1, 2, 6):
        for colour in (0, 1):
            for t in parser_texts(rng):
                yield {"kind": "text", "text": t, "layout": layout, "colour": colour, "level": rng.randrange(len(LEVELS))}


def google_text_cases(ctx, n):
    """write_event with a text message: URLs with user-info in arbitrary surrounding text, under every
    severity x span id; plus texts that are no URL (compared with the model only)"""
    rng = ctx.rng
    i = 0
    for sev in range(14):
        for span in range(len(SPANS)):
            c = url_case(rng)
            for k in ("layout", "colour", "level", "enc", "name"):
                c.pop(k, None)
            c.update(kind="gurl", severity=sev, span=span)
            yield c
            i += 1
    texts = ["plain text", "", " ", "://", "a://b", "x://u@h", "see http://example.com/a and mail bob@example.com", "@://@", "a\nb://c\n@d",
             '{"password": "x"}', "it's `x` | \"y\"", "\u00e9\u4e2d\U0001f600 ://\u00e9@\u4e2d", "://" * 5 + "@" * 5, "tab\tsep\\back\x01ctl"]
    for _ in range(n):
        if rng.random() < 0.6:
            c = url_case(rng)
            for k in ("layout", "colour", "level", "enc", "name"):
                c.pop(k, None)
            c.update(kind="gurl", severity=rng.randrange(14), span=rng.randrange(len(SPANS)))
            yield c
        else:
            yield {"kind": "gtext", "text": rng.choice(texts) + rng.choice(["", " " + token(rng)]), "severity": rng.randrange(14), "span": rng.randrange(len(SPANS))}


def ginst_cases(ctx, n):
    """GoogleLogger() (what get_logger() returns under K_SERVICE): every method x every level setting,
    fresh and re-used object, then random"""
    rng = ctx.rng
    keys = all_keys(rng)
    for level in range(len(GLEVELS)):
        for method in range(len(GMETHODS)):
            for reuse in (False, True):
                obj = {"db_password": text_marker(rng, 1), "note": text_marker(rng, 0), "ctx": {"api_key": {"v": token(rng)}, "x": token(rng)},
                       "My_Credentials_2": [token(rng)]}
                yield {"kind": "ginst", "obj": obj, "method": method, "loglevel": level, "reuse": reuse}
    for _ in range(n):
        yield {"kind": "ginst", "obj": random_obj(rng, keys, rng.choice([0, 1, 2])), "method": rng.randrange(len(GMETHODS)),
               "loglevel": rng.randrange(len(GLEVELS)), "reuse": rng.random() < 0.5}


# --------------------------------------------------------------------------- impl-free checks (exit 2 on failure)


def check_fold_table(ctx):
    """Model.foldChar against re.IGNORECASE over every code point, for the characters of the patterns."""
    st = impl()
    # the characters a key pattern can contain: the statement's words and whatever the running code compiles
    chars = sorted({ch for src in list(PATTERN_WORDS) + key_sources() for ch in src if ch.isalnum() or ch == "_"})
    top = ctx.scale(0x3000, 0x110000)
    universe = "".join(chr(i) for i in range(top) if not 0xD800 <= i <= 0xDFFF)
    py = {}
    for ch in chars:
        for d in re.compile(re.escape(ch), re.IGNORECASE).findall(universe):
            py.setdefault(d, set()).add(ch)
    sample = "".join(chr(i) for i in range(0x3000) if not 0xD800 <= i <= 0xDFFF) + "".join(sorted(py))
    out = ctx.model.one("C20 fold " + wire.line(sample))
    if not out.startswith("ok "):
        raise InfraError("fold op rejected")
    folded = wire.dec_all(out[3:])[0]
    bad = []
    for d, fd in zip(sample, folded):
        for ch in chars:
            m = (fd == ch.lower()) if ch.isalpha() else (fd == ch)
            if m != (ch in py.get(d, ())):
                bad.append((hex(ord(d)), ch))
    ctx.note("fold_table_checked_code_points", top)
    return bad


def check_sens_vs_spec(ctx, keys):
    """Lean `sensitive` against the key test of the running code (observed through clean_record) and,
    where the statement is unambiguous, against the statement's words."""
    ks = [k for k in dict.fromkeys(keys) if wire_ok(k)]
    outs = ctx.model.batch(["C20 sens " + wire.line(k) for k in ks])
    f = impl()["lf"].LogFormatter(None)
    probe = "PROBE7VALUE9Z"
    for k, o in zip(ks, outs):
        if not o.startswith("ok "):
            raise InfraError("sens op rejected %r" % k)
        m = wire.dec_all(o[3:])[0]
        _HISTORY.append({"kind": "clean", "obj": {k: probe}, "colorize": False})
        try:
            i = probe not in "".join(f.clean_record({k: probe}, False).values())
        except Exception:
            continue
        if not ambiguous_key(k) and m != spec_sensitive(k) and i == spec_sensitive(k):
            # model against the statement with the implementation agreeing with the statement: the model is wrong
            raise InfraError("Lean `sensitive` disagrees with the statement and the code on key %r" % k)
        if m != bool(i):
            ctx.disagree({"kind": "clean", "obj": {k: "TOKEN12345A"}, "colorize": False}, {"sensitive": bool(i)}, {"sensitive": m}, "key test differs on %r" % k)
        ctx.hit("key:%s" % ("sensitive" if m else "plain"))


CORPUS = [
    {"kind": "json", "obj": {"db_password": "HUNTER2HUNTER2A", "user_pwd": "SECRETPWD1234", "auth_token": "TOK99887766X", "my_credentials": "CRED1234ABCD", "v": "VISIBLE12345"}, "layout": 0, "colour": 1, "level": 3},
    {"kind": "json", "obj": {"password": {"value": "HUNTER2HUNTER2B"}, "ok": {"n": "VISIBLE12346"}}, "layout": 0, "colour": 1, "level": 3},
    {"kind": "json", "obj": {"password": "HUNTER2|HUNTER2C9", "v": "VISIBLE12347"}, "layout": 0, "colour": 1, "level": 3},
    {"kind": "json", "obj": {"password": "HUNTER2HUNTER2D", "note": "VISIBLE1|2348888"}, "layout": 0, "colour": 0, "level": 3},
    {"kind": "json", "obj": {"password": "HUNTER2HUNTER2E", "note": "x ERROR    VISIBLE12349"}, "layout": 0, "colour": 0, "level": 3},
    {"kind": "text", "text": '{"password": "\\ud800HUNTER2HUNTER2F"}', "layout": 0, "colour": 1, "level": 3},
    {"kind": "url", "pre": "connect to ", "scheme": "postgres", "user": "admin", "password": "HUNTER2HUNTER2G", "host": "db", "post": ":5432/x failed", "layout": 0, "colour": 1, "level": 3},
    {"kind": "google", "obj": {"db_password": "HUNTER2HUNTER2H", "password": {"a": "HUNTER2HUNTER2J"}, "v": "VISIBLE12350"}},
    {"kind": "clean", "obj": {"ctx": {"API_KEY": ["HUNTER2HUNTER2K"], "n": 123456789012}}, "colorize": True},
]


def oracle_surrogate(ctx):
    """A sensitive value with an escaped lone surrogate cannot travel on the wire: oracle only."""
    c = CORPUS[5]
    r = run_format(c)
    ctx.case(c, True)
    ctx.hit("kind:text-surrogate")
    if r["out"] is None or "HUNTER2HUNTER2F" in r["out"]:
        ctx.fail(c, "value under a sensitive key is emitted", impl={"out": r["out"], "err": r["err"]})


E2E_METHODS = ["error", "info", "audit", "alert", "debug", "warning"]
E2E_FILLER = "lorem ipsum dolor sit amet "  # lower case: no token, no escape, one character = one byte


@contextlib.contextmanager
def captured(logger):
    """everything a call on the logger writes: the stream of every handler, and stdout (the structured logger)"""
    buf = io.StringIO()
    olds = []
    for h in getattr(logger, "handlers", None) or []:
        if hasattr(h, "stream"):
            olds.append((h, h.stream))
            h.stream = buf
    try:
        with contextlib.redirect_stdout(buf):
            yield buf
    finally:
        for h, o in olds:
            h.stream = o


def e2e_text(obj):
    """the message text add_level.py makes of a dict (orjson first, then json): its length is what a size
    threshold anywhere between the call and the handler would be keyed on"""
    import orjson

    try:
        return orjson.dumps(obj).decode()
    except Exception:
        try:
            return json.dumps(obj, default=str)
        except Exception:
            return str(obj)


def e2e_obj(case):
    """the dict an `e2e` case logs.  `pad_to` = N and `pad_key` = k: the text value under k (top level) is
    extended with lower-case filler until the message text is exactly N characters long (if it is shorter)."""
    obj = case["obj"]
    n, k = case.get("pad_to"), case.get("pad_key")
    if not isinstance(n, int) or isinstance(n, bool) or not isinstance(k, str):
        return obj
    obj = dict(obj)
    obj[k] = obj[k] if isinstance(obj.get(k), str) else ""
    short = n - len(e2e_text(obj))
    if short > 0:
        obj[k] = obj[k] + (E2E_FILLER * (short // len(E2E_FILLER) + 1))[:short]
    return obj


def valid_e2e(c):
    return (isinstance(c, dict) and c.get("kind") == "e2e" and isinstance(c.get("obj"), dict) and json_ok(c["obj"], nonfinite=True)
            and c.get("method", "error") in E2E_METHODS and isinstance(c.get("colour", 0), int) and c.get("colour", 0) >= 0
            and c.get("as", "dict") in E2E_AS and isinstance(c.get("repeat", False), bool)
            and ("pad_to" not in c or (isinstance(c["pad_to"], int) and not isinstance(c["pad_to"], bool) and 0 <= c["pad_to"] <= 1 << 23))
            and ("pad_key" not in c or isinstance(c["pad_key"], str)) and ("log_name" not in c or isinstance(c["log_name"], str))
            and ("before" not in c or (isinstance(c["before"], list) and all(valid_e2e(b) and "before" not in b for b in c["before"]))))


E2E_AS = ["dict", "text", "bytes"]
_WARNED = set()


class _Collector(logging.Handler):
    """sees the LogRecord before any formatter does: what `log_for_level` handed to `Logger._log`"""

    def __init__(self):
        super().__init__(level=0)
        self.msgs = []

    def emit(self, record):
        self.msgs.append(record.msg)


def run_e2e(case, logger=None):
    """logger.<method>(dict | its JSON text | its JSON bytes) through get_logger() -> (emitted text, the dict,
    failing clause | None, info).  `repeat`: the same call is made twice and the second one is judged (use, use
    again: a repeated WARNING is dropped, anything else is emitted again).  info["handed"] is the text that
    reached Logger._log (None when nothing did), info["model_line"] the same question put to the model."""
    st = impl()
    logger = logger if logger is not None else st["logger"]
    obj = e2e_obj(case)
    how = case.get("as", "dict")
    method = case.get("method", "error")
    old_level = getattr(logger, "level", None)
    reset = all([forget_warnings(m) for m in (st.get("al"), st["gl"]) if m is not None])
    arg = obj if how == "dict" else e2e_text(obj) if how == "text" else e2e_text(obj).encode("utf-8", "surrogatepass")
    col = _Collector() if callable(getattr(logger, "addHandler", None)) else None
    err = None
    try:
        logger.setLevel(1)
        if col is not None:
            logger.addHandler(col)
        for turn in range(2 if case.get("repeat") else 1):
            if col is not None:
                del col.msgs[:]
            with captured(logger) as buf, colour_env(COLOURS[case.get("colour", 0) % len(COLOURS)]):
                try:
                    getattr(logger, method)(arg)
                except Exception as e:
                    err = type(e).__name__
            text = buf.getvalue()
    finally:
        if col is not None:
            logger.removeHandler(col)
        if old_level is not None:
            logger.setLevel(old_level)
    info = {"handed": None, "model_line": None, "err": err}
    # add_level.py: a repeated WARNING is suppressed.  When the table of seen warnings could not be reset (renamed), a text
    # this process has sent before counts as repeated, too.
    stale = (not reset) and method == "warning" and e2e_text(obj) in _WARNED
    if method == "warning":
        _WARNED.add(e2e_text(obj))
    dropped = (bool(case.get("repeat")) or stale) and method == "warning"
    if col is not None:
        info["handed"] = col.msgs[0] if len(col.msgs) == 1 and isinstance(col.msgs[0], str) else (None if not col.msgs else ["?"] + [repr(m)[:80] for m in col.msgs])
        try:
            import orjson

            try:
                oj = orjson.dumps(obj).decode()
            except Exception:
                oj = None
            try:
                js = json.dumps(obj, default=str)
            except Exception:
                js = None
            warg = to_wire(obj) if how == "dict" else arg if how == "text" else ["b", arg.decode("utf-8", "surrogatepass")]
            if len(e2e_text(obj)) <= 300000:
                info["model_line"] = "C20 logmsg " + wire.line(warg, oj, js, str(obj), True, method == "warning", dropped)
        except (wire.WireError, UnicodeError, InfraError, RecursionError):
            info["model_line"] = None
    if any(isinstance(x, float) and (x != x or x in (float("inf"), float("-inf"))) for x in obj.values()):
        view = {k: v for k, v in obj.items() if not isinstance(v, float)}  # nan/inf are written as null: nothing to see
    else:
        view = obj
    if not text:
        if dropped and err is None:
            return text, obj, None, info
        return text, obj, "record was not emitted" + (" (%s raised)" % err if err else ""), info
    if how != "dict" and spec_object(e2e_text(obj)) is None:
        return text, obj, None, info  # a text the parser refuses (a raw surrogate in bytes ...) is a plain text
    return text, obj, oracle_text(view, text, placeholders=not dropped), info


def e2e_full(case):
    """an `e2e` case with everything it names: the logger name set first (a new logger is built), the calls listed
    under `before` made first (not judged), then the call itself -> (text, dict, clause, info)"""
    st = impl()
    logger = None
    try:
        if isinstance(case.get("log_name"), str) and callable(getattr(st["cl"], "set_log_name", None)):
            st["cl"].set_log_name(case["log_name"])
            logger = st["cl"].get_logger()
        for b in case.get("before", []):
            run_e2e(b, logger)
        return run_e2e(case, logger)
    finally:
        if logger is not None:
            st["cl"].set_log_name("DEFAULT")
            st["logger"] = st["cl"].get_logger()
        forget_exit_reports(st["gl"], st.get("al"))


def clause_of(case):
    """the failing clause of any replayable case, implementation and oracle only (no model): what a fresh
    interpreter is asked when a failure may depend on what the process did before"""
    kind = case.get("kind") if isinstance(case, dict) else None
    if kind == "hist":
        for b in case["before"]:
            try:
                clause_of(b)
            except InfraError:
                raise
            except Exception:
                pass
        return clause_of(case["case"])
    if kind == "e2e":
        return e2e_full(case)[2] if valid_e2e(case) else None
    if kind == "pre":
        return pre_judged(case["pre"], pre_run(case["pre"], [case["case"]])[0]) if valid_pre(case) else None
    if kind == "seq":
        if not valid_seq(case):
            return None
        return next((r[3] for r in run_seq(case) if r[3]), None)
    return _eval_one(case)[0] if valid_case(case) else None


def valid_hist(c):
    ok = lambda x: valid_case(x) or valid_e2e(x) or valid_seq(x)
    return (isinstance(c, dict) and c.get("kind") == "hist" and isinstance(c.get("before"), list) and all(ok(b) for b in c["before"])
            and ok(c.get("case")))


def fresh_clause(case):
    """the same question asked in a NEW interpreter: module-level state of the implementation (a cache, a table of
    seen messages) that earlier cases of this run left behind is gone, so a failure that needs a history shows"""
    import subprocess
    import sys

    from .. import core

    code = ("import sys, json\nfrom harness import runner, core\nrunner.setup_impl_path()\nfrom harness.props import c20\n"
            "c = core.unjson(json.loads(sys.stdin.read()))\nprint('CLAUSE ' + json.dumps(c20.clause_of(c)))\n")
    try:
        p = subprocess.run([sys.executable, "-c", code], input=json.dumps(core._jsonable(case)), cwd=core.VERIF, capture_output=True, text=True, timeout=300)
        for ln in p.stdout.splitlines():
            if ln.startswith("CLAUSE "):
                return json.loads(ln[7:])
    except Exception:
        pass
    return "?"


_HISTORY = []  # every case this process has handed to the implementation, in order


def with_history(case, clause, earlier=None, budget_s=75):
    """`case` failed with `clause` in this process.  If it fails the same way in a fresh interpreter it is returned as
    it is (the usual thing).  If not, the failure needs a history: -> {"kind": "hist", "before": [...], "case": case}
    (for an `e2e` case: the case with a `before` list) with the shortest run of earlier cases found, by a few
    fresh-interpreter probes, under which it fails the same way in a new process."""
    import time

    t0 = time.time()
    if fresh_clause(case) == clause:
        return case
    e2e = case.get("kind") == "e2e"
    earlier = list(_HISTORY if earlier is None else earlier)
    strip = lambda e: {k: v for k, v in e.items() if k not in ("before", "log_name")} if e2e else e
    wrap = (lambda before: dict(case, before=before)) if e2e else (lambda before: {"kind": "hist", "before": before, "case": case})
    keyset = lambda c: tuple(sorted(c["obj"].keys())) if isinstance(c.get("obj"), dict) else None
    same = [e for e in earlier if keyset(e) is not None and keyset(e) == keyset(case)]
    tried = set()
    for before in ([same[-1]] if same else []), same[-3:], earlier[-1:], earlier[-10:], earlier[-100:], earlier[-1000:], earlier:
        before = [strip(e) for e in before if e is not case]
        if not before or len(before) in tried or time.time() - t0 > budget_s:
            continue
        tried.add(len(before))
        if fresh_clause(wrap(before)) == clause:
            while len(before) > 1 and time.time() - t0 < budget_s:  # halve while it still fails
                half = before[len(before) // 2:]
                if fresh_clause(wrap(half)) == clause:
                    before = half
                    continue
                half = before[: len(before) // 2]
                if fresh_clause(wrap(half)) == clause:
                    before = half
                    continue
                break
            if len(before) <= 2:
                # the history itself, smaller: drop members of its dictionaries while the failure stays (a dozen probes)
                probes = [0]

                def still(c2):
                    probes[0] += 1
                    return probes[0] <= 12 and time.time() - t0 < budget_s and fresh_clause(wrap(before[:j] + [c2] + before[j + 1:])) == clause
                for j in range(len(before)):
                    if isinstance(before[j].get("obj"), dict):
                        before[j] = drop_members(before[j], still)
            return wrap(before)
    return dict(case, note="failed in the run after %d earlier cases; not reproduced in a fresh interpreter by itself" % len(earlier))


def shrink_e2e(case, clause):
    """smallest dict, smallest padded length (bisection: a size threshold shows as the exact boundary), plainest settings"""
    def still(c):
        try:
            return valid_e2e(c) and e2e_full(c)[2] == clause
        except Exception:
            return False

    cur = drop_members(case, still)
    if "log_name" in cur:
        c2 = {a: b for a, b in cur.items() if a != "log_name"}
        if still(c2):
            cur = c2
    for k in ("repeat", "as"):
        c2 = {a: b for a, b in cur.items() if a != k}
        if k in cur and still(c2):
            cur = c2
    for k, v in (("method", "error"), ("colour", 1)):
        c2 = dict(cur, **{k: v})
        if cur.get(k) != v and still(c2):
            cur = c2
    if isinstance(cur.get("pad_to"), int):
        c2 = {k: v for k, v in cur.items() if k not in ("pad_to", "pad_key")}
        if still(c2):
            return c2
        lo, hi = 0, cur["pad_to"]  # fails at hi; find the least length that still fails (if failing is monotone in it)
        while hi - lo > 1:
            mid = (lo + hi) // 2
            if still(dict(cur, pad_to=mid)):
                hi = mid
            else:
                lo = mid
        cur = dict(cur, pad_to=hi)
    return cur


def e2e_long_cases(ctx):
    """Dictionaries whose message text is exactly 2^k - 1, 2^k, 2^k + 1 characters (k = 6 .. 17, thorough .. 21), and
    round decimal sizes, logged through every level method: a cap / fast path / chunking keyed on the length of the
    serialised message anywhere between logger.<level>(dict) and the handler.  Three places for the long value:
    visible text after the secret, visible text before the secret, the secret itself."""
    rng = ctx.rng
    sizes = []
    for k in range(6, ctx.scale(17, 21) + 1):
        sizes += [2 ** k - 1, 2 ** k, 2 ** k + 1]
    sizes += ctx.scale([1000, 10000, 100000], [1000, 4000, 10000, 32000, 50000, 65000, 100000, 1000000])
    i = 0
    for n in sizes:
        shape = i % 4
        if shape == 0:
            obj, key = {"db_password": token(rng), "note": token(rng) + " ", "v": token(rng)}, "note"
        elif shape == 1:
            obj, key = {"v": token(rng), "note": token(rng) + " ", "ctx": {"x_token": token(rng), "w": token(rng)}}, "note"
        elif shape == 2:
            obj, key = {"v": token(rng), "api_key": token(rng) + " "}, "api_key"
        else:
            obj, key = {"caf\u00e9": token(rng) + " \u00e9\u4e2d ", "My_Credentials_2": [token(rng)], "pad": ""}, "pad"
        yield {"kind": "e2e", "obj": obj, "pad_key": key, "pad_to": n, "colour": i % len(COLOURS), "method": E2E_METHODS[i % len(E2E_METHODS)]}
        i += 1
    # every level method with a message beyond the largest size above (a threshold in one method only)
    top = 2 ** ctx.scale(17, 21) + 7
    for j, m in enumerate(E2E_METHODS):
        yield {"kind": "e2e", "obj": {"db_password": token(rng), "note": token(rng) + " ", "v": token(rng)}, "pad_key": "note", "pad_to": top, "colour": j % 2, "method": m}
        yield {"kind": "e2e", "obj": {"v": token(rng), "x_secret": token(rng) + " "}, "pad_key": "x_secret", "pad_to": top // 2 + j, "colour": (j + 1) % 2, "method": m}


def end_to_end(ctx, n):
    """logger.<level>(dict) through get_logger(): add_level.py serialises the dict (orjson, or json when orjson
    refuses it), the handler formats.  Every dict that is a JSON object is demanded."""
    st = impl()
    rng = ctx.rng
    keys = all_keys(rng)
    special = [
        {"password": token(rng), "n": 2 ** 64, "v": token(rng)},                     # orjson: integer beyond 64 bits
        {"db_pwd": 2 ** 64 + 12345678, "v": token(rng)},
        {"password": token(rng), "f": "\udc80" + token(rng)},                        # orjson: unpaired surrogate
        {"x_secret": "\ud800" + token(rng), "v": token(rng)},
        {"ctx": {"api_key": token(rng), "big": -(10 ** 30)}, "v": token(rng)},
        {"password": token(rng), "x": float("nan"), "y": float("inf"), "v": token(rng)},  # orjson writes null
    ]
    cases = [{"kind": "e2e", "obj": o, "colour": i % len(COLOURS), "method": E2E_METHODS[i % 5]} for i, o in enumerate(special)]
    cases += list(e2e_long_cases(ctx))
    # every level method x (dict | its JSON text | its JSON bytes) x (first call | the same call again)
    for j, m in enumerate(E2E_METHODS):
        for how in E2E_AS:
            for repeat in (False, True):
                obj = {"db_password": text_marker(rng, 1), "note": text_marker(rng, 0), "ctx": {"api_key": {"v": token(rng)}, "x": token(rng)}, "My_Credentials_2": [token(rng)]}
                cases.append({"kind": "e2e", "obj": obj, "colour": j % 2, "method": m, "as": how, "repeat": repeat})
    for i in range(n):
        ec = {"kind": "e2e", "obj": random_obj(rng, keys, rng.choice([0, 1, 2])), "colour": i % len(COLOURS), "method": E2E_METHODS[i % len(E2E_METHODS)]}
        if rng.random() < 0.3:
            ec["as"] = rng.choice(E2E_AS)
        if rng.random() < 0.2:
            ec["repeat"] = True
        cases.append(ec)
    renamed = None
    handed = []
    try:
        for i, ec in enumerate(cases):
            if i == len(cases) // 2:
                # use, mutate, use again: set_log_name() clears the cached logger; the next get_logger() builds a new
                # one whose name (a header field) contains the field separator and looks like a level token
                sln = soft(st["cl"], "set_log_name")
                if callable(sln):
                    sln("SVC|x ERROR    y")
                    renamed = st["cl"].get_logger()
            if renamed is not None:
                ec["log_name"] = "SVC|x ERROR    y"
                ctx.hit("end-to-end:after-set_log_name")
            text, obj, clause, info = run_e2e(ec, renamed)
            if not ctx.replaying:
                _HISTORY.append(ec)
            ctx.case(ec, True)
            ctx.hit("kind:end-to-end")
            ctx.hit("end-to-end:method=%s%s" % (ec["method"], ":again" if ec.get("repeat") else ""))
            ctx.hit("end-to-end:argument=" + ec.get("as", "dict"))
            if info["model_line"] is not None and not clause:
                handed.append((ec, info))
            try:
                if json_ok(obj):
                    ctx.hit("end-to-end:json.loads(message)==dict:%s" % (spec_object(e2e_text(obj)) == obj))
            except Exception:
                pass
            if i < len(special):
                ctx.hit("end-to-end:orjson-refuses-or-rewrites")
            nlen = len(e2e_text(obj))
            if "pad_to" in ec:
                k2 = nlen.bit_length() - 1 if nlen & (nlen - 1) == 0 or (nlen - 1) & (nlen - 2) == 0 else nlen.bit_length()
                ctx.hit("end-to-end:message-length:2^%d%+d" % (k2, nlen - 2 ** k2) if abs(nlen - 2 ** k2) <= 1 else "end-to-end:message-length:%d" % nlen)
            else:
                ctx.hit("end-to-end:message-length:%s" % ("<200" if nlen < 200 else "<1000" if nlen < 1000 else "<10000" if nlen < 10000 else ">=10000"))
            if clause:
                # first through the direct path (same message encoding): a failure of the formatter itself is reported there
                c = {"kind": "json", "obj": obj, "layout": 0, "colour": ec["colour"], "level": 3, "enc": 2}
                direct = None
                if json_ok(obj) and "pad_to" not in ec:
                    try:
                        direct = _eval_one(c)[0]
                    except Exception:
                        direct = None
                if direct is not None:
                    evaluate(ctx, [c])
                elif any(v.get("sig", "").endswith("(through get_logger())") for v in ctx.violations) and not ctx.replaying:
                    ctx.hit("violation-dup:" + clause + " (through get_logger())")  # one minimised end-to-end replay is enough
                else:
                    small = ec if ctx.replaying else with_history(shrink_e2e(ec, clause), clause, cases[:i])
                    small = small if small.get("kind") == "e2e" else ec
                    t2, _, cl2, _ = e2e_full(small)
                    ctx.fail(small, (cl2 or clause) + " (through get_logger())", impl={"out": t2[:2000], "message_length": len(e2e_text(e2e_obj(small)))})
    finally:
        if renamed is not None:
            soft_call(st["cl"], "set_log_name", "DEFAULT")
            st["logger"] = st["cl"].get_logger()
        forget_exit_reports(st["gl"], st.get("al"))
    # correspondence of the hand-over: what reached Logger._log against Model.logForLevel (C20.generated_log_for_level_eq_model)
    outs = ctx.model.batch([info["model_line"] for _, info in handed])
    for (ec, info), o in zip(handed, outs):
        if not o.startswith("ok "):
            raise InfraError("logmsg op rejected %r: %r" % (ec, o))
        want = wire.dec_all(o[3:])[0]
        ctx.hit("end-to-end:hand-over:%s" % ("dropped" if want is None else "compared"))
        if info["handed"] != want:
            ctx.disagree(ec, {"handed_to_log": info["handed"] if not isinstance(info["handed"], str) else info["handed"][:300] + ("..." if len(info["handed"]) > 300 else ""),
                              "length": len(info["handed"]) if isinstance(info["handed"], str) else None},
                         {"length": len(want) if isinstance(want, str) else None}, "log_for_level hands another text to Logger._log than the model")


def replay_e2e(ctx, case):
    if not valid_e2e(case):
        raise InfraError("invalid e2e case: %r" % (case,))
    text, obj, clause, _ = e2e_full(case)
    ctx.case(case, True)
    if clause:
        ctx.fail(case, clause + " (through get_logger())", impl={"out": text[:2000], "message_length": len(e2e_text(obj))})


def check_digest(ctx):
    """The digest is a parameter of the model (`h`).  Here it is pinned down on the running code: hash_it of a
    text is the first `digestLen` hex digits (extracted) of SHA-256 of that text and of nothing else - not of
    the formatter instance, the colour setting or an earlier call (no salt, whatever the docstring says)."""
    import hashlib

    st = impl()
    n = generated("c20.digest_len", 8)
    rng = ctx.rng
    a = st["lf"].LogFormatter(None)
    b = st["lf"].LogFormatter(logging.Formatter("%(message)s"), suppress_color=True)
    vals = ["", "x", token(rng), "\u00e9\u4e2d\U0001f600", "\ud800" + token(rng), str(2 ** 64), str({"a": [1, None]}), "a|b", " ERROR    "]
    vals += [text_marker(rng) for _ in range(40)]
    if not (callable(soft(a, "hash_it")) and callable(soft(b, "hash_it"))):
        ctx.note("digest", "not pinned: the formatter has no hash_it (the oracle then asks for no digest)")
        return
    for v in vals:
        want = hashlib.sha256(v.encode("utf-8", "surrogatepass")).hexdigest()[:n]
        try:
            got = [a.hash_it(v), b.hash_it(v), a.hash_it(v)]
        except Exception as e:
            got = ["raised " + type(e).__name__]
        ctx.hit("digest:checked")
        if any(g != want for g in got):
            ctx.disagree({"kind": "clean", "obj": {"password": v}, "colorize": False}, {"hash_it": got}, {"sha256_prefix": want},
                         "the digest is not the %d-digit SHA-256 prefix of str(value) alone" % n)
            return
    ctx.note("digest", "hash_it(text) = sha256(text)[:%d] on %d texts, the same from two formatter instances and on a repeated call; "
             "a short digest of a short or guessable secret can be found by brute force - out of the property's scope" % (n, len(vals)))


def observe_suppression_report(ctx):
    """Not demanded by the statement (the report is another record, and its message is plain text), only
    measured: a second identical WARNING is suppressed and reported at exit with the *message as logged*."""
    st = impl()
    gl = st["gl"]
    tok = "SUPPRESSED7" + token(ctx.rng)
    msg = {"password": tok}
    forget_warnings(gl)
    try:
        with contextlib.redirect_stdout(io.StringIO()):
            gl.GoogleLogger.write_event(msg, "sys", severities()[2])
            second = gl.GoogleLogger.write_event(msg, "sys", severities()[2])
        buf = io.StringIO()
        old = os.environ.get("K_SERVICE")
        os.environ["K_SERVICE"] = "x"
        soft_call(soft(st["cl"], "get_logger"), "cache_clear")
        try:
            with contextlib.redirect_stdout(buf):
                gl.report_suppressions(str(msg))
        finally:
            if old is None:
                os.environ.pop("K_SERVICE", None)
            else:
                os.environ["K_SERVICE"] = old
            soft_call(soft(st["cl"], "get_logger"), "cache_clear")
        ctx.note("observation_suppression_report", "second identical warning returned %r; the exit-time report of the structured logger %s the value "
                 "logged under 'password' (no demand: the report is a different, plain-text record)" % (second, "contains" if tok in buf.getvalue() else "does not contain"))
    except Exception as e:
        ctx.note("observation_suppression_report", "not measured: %s" % type(e).__name__)
    finally:
        forget_warnings(gl)
        forget_exit_reports(gl)


# --------------------------------------------------------------------------- state that exists before the logger does


def _foreign_audit_method():
    logging.addLevelName(35, "AUDIT")
    logging.Logger.audit = lambda self, msg, *a, **k: self.log(35, msg, *a, **k)


def _foreign_audit_level_name():
    logging.addLevelName(35, "AUDIT")
    logging.AUDIT = 35


def _foreign_alert_function():
    logging.alert = lambda msg, *a, **k: logging.log(45, msg, *a, **k)


def _foreign_alert_method():
    logging.addLevelName(45, "ALERT")
    logging.Logger.alert = lambda self, msg, *a, **k: self.log(45, msg, *a, **k)


def _level_numbers_taken():
    for name, n in LEVELS:
        logging.addLevelName(n, "APP%d" % n)


def _named_logger_configured():
    lg = logging.getLogger("DEFAULT")
    lg.addHandler(logging.StreamHandler(io.StringIO()))
    lg.setLevel(50)
    lg.disabled = False


def _logger_class_before():
    logging.setLoggerClass(type("AppLogger", (logging.Logger,), {}))


def _logger_class_after():
    logging.getLogger("DEFAULT")
    logging.setLoggerClass(type("AppLogger", (logging.Logger,), {}))


def _logging_disable():
    logging.disable(10)


def _env_level():
    os.environ["LOGGING_LEVEL"] = "45"


def _get_logger_twice(cl):
    soft_call(soft(cl, "get_logger"), "cache_clear")


def _set_log_name(cl):
    soft_call(cl, "set_log_name", "svc-2")


def _set_log_name_back(cl):
    soft_call(cl, "set_log_name", "svc-2")
    cl.get_logger()
    soft_call(cl, "set_log_name", "DEFAULT")


# name -> (when: "before" orso.logging is imported | "after" the first get_logger(), what)
PRE_STEPS = {
    "foreign-audit-method": ("before", _foreign_audit_method),          # logging.Logger.audit exists (another library's AUDIT level)
    "foreign-audit-level-name": ("before", _foreign_audit_level_name),  # logging.AUDIT = 35 and its name, no method
    "foreign-alert-function": ("before", _foreign_alert_function),      # logging.alert exists (module-level function)
    "foreign-alert-method": ("before", _foreign_alert_method),          # logging.Logger.alert exists
    "level-numbers-taken": ("before", _level_numbers_taken),            # orso's six level numbers already carry other names
    "named-logger-configured": ("before", _named_logger_configured),    # the logger of that name has a handler and a level already
    "logger-class-before": ("before", _logger_class_before),            # logging.setLoggerClass(subclass) before anything
    "logger-class-after-logger-exists": ("before", _logger_class_after),  # ... after the named logger was created
    "logging-disable": ("before", _logging_disable),                    # logging.disable(DEBUG)
    "env-logging-level": ("before", _env_level),                        # LOGGING_LEVEL=45
    "get-logger-twice": ("after", _get_logger_twice),                   # cache cleared, get_logger() again
    "set-log-name-between": ("after", _set_log_name),                   # set_log_name(other), get_logger() again
    "set-log-name-and-back": ("after", _set_log_name_back),             # other name, logger built, the first name again
}
# pre-states in which a record may legitimately not come out (no secrecy question then): counted, not judged
PRE_MAY_BE_SILENT = {"logging-disable", "foreign-alert-function", "logger-class-after-logger-exists"}
# measured only (see design notes, "Seventh pass"): the named logger exists as a plain Logger before the application
# replaces the logger class; add_logging_level then installs on the new class only.
PRE_MEASURED_ONLY = {"logger-class-after-logger-exists"}
PRE_STATES = [[], ["foreign-audit-method"], ["foreign-audit-level-name"], ["foreign-alert-function"], ["foreign-alert-method"],
              ["level-numbers-taken"], ["named-logger-configured"], ["logger-class-before"], ["logging-disable"], ["env-logging-level"],
              ["get-logger-twice"], ["set-log-name-between"], ["set-log-name-and-back"], ["foreign-audit-method", "foreign-alert-method"],
              ["foreign-audit-method", "set-log-name-between"], ["foreign-audit-level-name", "get-logger-twice"],
              ["logger-class-after-logger-exists"]]


def valid_pre(c):
    return (isinstance(c, dict) and c.get("kind") == "pre" and isinstance(c.get("pre"), list) and all(p in PRE_STEPS for p in c["pre"])
            and valid_e2e(c.get("case")) and "before" not in c["case"] and "log_name" not in c["case"])


def pre_worker(spec):
    """Runs in an interpreter that has NOT imported orso.logging yet: the `before` steps, then the first get_logger()
    of the process (impl()), then the `after` steps and get_logger() again; every case through run_e2e."""
    import sys

    if any(m.startswith("orso.logging") for m in sys.modules) or _STATE:
        raise InfraError("pre_worker needs an interpreter in which orso.logging has not been imported")
    for p in spec["pre"]:
        if PRE_STEPS[p][0] == "before":
            PRE_STEPS[p][1]()
    st = impl()
    later = [p for p in spec["pre"] if PRE_STEPS[p][0] == "after"]
    for p in later:
        PRE_STEPS[p][1](st["cl"])
    if later:
        st["logger"] = st["cl"].get_logger()
    out = []
    for case in spec["cases"]:
        text, obj, clause, info = run_e2e(case, st["logger"])
        out.append([clause, text[-1500:], info.get("err")])
    return out


def pre_run(pre, cases):
    """-> [[clause | None, emitted text, exception name | None], ...], one fresh interpreter for the lot"""
    import subprocess
    import sys

    from .. import core

    code = ("import sys, json\nfrom harness import runner, core\nrunner.setup_impl_path()\nfrom harness.props import c20\n"
            "spec = core.unjson(json.loads(sys.stdin.read()))\nprint('PRE ' + json.dumps(core._jsonable(c20.pre_worker(spec))))\n")
    p = subprocess.run([sys.executable, "-c", code], input=json.dumps(core._jsonable({"pre": pre, "cases": cases})), cwd=core.VERIF,
                       capture_output=True, text=True, timeout=300)
    for ln in p.stdout.splitlines():
        if ln.startswith("PRE "):
            res = core.unjson(json.loads(ln[4:]))
            if len(res) == len(cases):
                return res
    raise InfraError("pre-state worker gave no result for %r: %s" % (pre, (p.stderr or p.stdout)[-800:]))


def pre_judged(pre, res):
    """the clause a result carries in that pre-state: silence is no failure where the state explains it"""
    clause = res[0]
    if clause and clause.startswith("record was not emitted") and any(p in PRE_MAY_BE_SILENT for p in pre):
        return None
    return clause


def shrink_pre(case, clause):
    """fewest pre-state steps, then fewest members of the dict (every probe is a fresh interpreter; members are tried in one batch)"""
    pre, ec = list(case["pre"]), case["case"]
    fails = lambda pre2, ecs: [pre_judged(pre2, r) == clause for r in pre_run(pre2, ecs)]
    for p in list(pre):
        p2 = [q for q in pre if q != p]
        if fails(p2, [ec])[0]:
            pre = p2
    for k, v in (("as", "dict"), ("colour", 1)):
        if ec.get(k, v) != v and fails(pre, [dict(ec, **{k: v})])[0]:
            ec = dict(ec, **{k: v})
    for _ in range(6):
        cands = []
        drop_members(ec, lambda c2: cands.append(c2) and False)
        cands = [c for c in cands if valid_e2e(c)][:40]
        if not cands:
            break
        ok = fails(pre, cands)
        hit = [c for c, f in zip(cands, ok) if f]
        if not hit:
            break
        ec = min(hit, key=lambda c: len(json.dumps(c["obj"], default=str)))
    return {"kind": "pre", "pre": pre, "case": ec}


def pre_cases(rng):
    """the six level methods x (dict | its JSON text | its JSON bytes), nested object, array and number under sensitive keys"""
    cases = []
    for j, m in enumerate(REC_METHODS):
        for how in E2E_AS:
            obj = {"db_password": text_marker(rng, 1), "note": text_marker(rng, 0), "ctx": {"api_key": {"v": token(rng)}, "x": token(rng)},
                   "My_Credentials_2": [token(rng)], "n_token": number_marker(rng)}
            cases.append({"kind": "e2e", "obj": obj, "colour": j % 2, "method": m, "as": how})
    return cases


def known_pre(case, failure):
    return next((k for k, f in KNOWN_PREDICATES.items() if f(case, failure)), None)


def pre_states(ctx):
    """Ambient state of the process at the first get_logger(): every pre-state in a fresh interpreter, the six ways a
    record is made judged by the e2e clause.  What the logger does must not depend on what `logging` held before."""
    for pre in PRE_STATES:
        cases = pre_cases(ctx.rng)
        results = pre_run(pre, cases)
        name = "+".join(pre) or "clean"
        for ec, res in zip(cases, results):
            case = {"kind": "pre", "pre": pre, "case": ec}
            ctx.case(case, True)
            ctx.hit("kind:pre-state")
            ctx.hit("pre-state:%s" % name)
            clause = pre_judged(pre, res)
            if res[0] and not clause:
                ctx.hit("pre-state:%s:silent:%s%s" % (name, ec["method"], ":" + res[2] if res[2] else ""))
            if not clause:
                continue
            if any(p in PRE_MEASURED_ONLY for p in pre):
                ctx.hit("pre-state:%s:measured:%s:%s:%s" % (name, ec["method"], ec.get("as", "dict"), clause))
                continue
            sig = clause + " (through get_logger(), state before the first call)"
            failure = {"clause": sig}
            if known_pre(case, failure) or any(v.get("sig") == sig for v in ctx.violations):
                ctx.fail(case, sig, impl={"out": res[1]})
                continue
            small = shrink_pre(case, clause)
            r2 = pre_run(small["pre"], [small["case"]])[0]
            if pre_judged(small["pre"], r2) != clause:
                small, r2 = case, res
            ctx.fail(small, sig, impl={"out": r2[1], "pre_state": small["pre"]})


def replay_pre(ctx, case):
    if not valid_pre(case):
        raise InfraError("invalid pre case: %r" % (case,))
    res = pre_run(case["pre"], [case["case"]])[0]
    ctx.case(case, True)
    clause = pre_judged(case["pre"], res)
    if clause and not any(p in PRE_MEASURED_ONLY for p in case["pre"]):
        ctx.fail(case, clause + " (through get_logger(), state before the first call)", impl={"out": res[1], "pre_state": case["pre"]})



def run(ctx):
    impl()
    ctx.note("rule", "records (JSON objects depth 0..3 / URL texts / plain texts) formatted by LogFormatter under a layout, colour setting and "
             "level, plus clean_record and write_event calls; non-trivial = at least one token-carrying value; distinct by canonical JSON of the case")
    ctx.note("reading_enforced", "nested objects only: a value under a sensitive key must be hidden at any depth of objects nested in "
             "objects (Lean: eraseObj / clean_noninterference); arrays are values - an array under a sensitive key is hidden whole, an object "
             "inside an array is NOT required to be sanitised and not required to be shown (the deep reading is stated in Lean as "
             "eraseDeepObj / cleanDeepObj, proved equal to the enforced one on records where no sensitive key occurs inside an array, and "
             "proved to be violated by the implementation: C20.implementation_is_shallow); input_distribution['array-of-objects:*'] records how this tree behaves")
    ctx.note("assumptions", [
        "digest (sha256 prefix), json.loads, logging.Formatter's line, Python str() of numbers and lists enter the model as parameters computed by the running code",
        "objects inside arrays are outside the quantifier: no demand on tokens below a sensitive key inside an array element",
        "layouts put the message last (as create_logger does); records carry no exc_info/stack_info",
    ])
    bad = check_fold_table(ctx)
    if bad:
        ctx.disagree({"kind": "clean", "obj": {"k": "v"}, "colorize": False}, {"re.IGNORECASE": bad[:10]}, None, "case folding table of the model differs from re")
    rng = ctx.rng
    keys = all_keys(rng)
    check_sens_vs_spec(ctx, keys + [random_key(rng, keys) for _ in range(ctx.scale(300, 3000))])
    check_digest(ctx)
    evaluate(ctx, [c for c in CORPUS if c is not CORPUS[5]])
    oracle_surrogate(ctx)
    batch = list(settings_cases(ctx)) + list(google_settings_cases(ctx))
    evaluate(ctx, batch)
    evaluate(ctx, list(parser_cases(ctx)))
    evaluate(ctx, list(long_cases(ctx)))
    evaluate(ctx, list(dimension_cases(ctx)))
    for c in sequence_cases(ctx):
        eval_seq(ctx, c)
    evaluate(ctx, list(url_scheme_cases(ctx)))
    evaluate(ctx, list(rec_cases(ctx)))
    evaluate(ctx, list(google_text_cases(ctx, ctx.scale(150, 3000))))
    evaluate(ctx, list(ginst_cases(ctx, ctx.scale(100, 3000))))
    observe_suppression_report(ctx)
    pre_states(ctx)
    ctx.note("call_sites", {"enumerated_from_source": generated("c20.call_sites", []), "new": generated("c20.call_sites_new", []),
                            "gone": generated("c20.call_sites_gone", []),
                            "driven_by": {"LogFormatter.format/sanitize_record/clean_record/color_code/colorizer": "kinds json, url, text, clean",
                                          "get_logger/add_logging_level/log_for_level/_log/StreamHandler/setFormatter": "end-to-end (logger.<level>(dict) with the handler's stream captured)",
                                          "GoogleLogger.write_event/log_it/print": "kinds google (dict), gurl and gtext (text)",
                                          "GoogleLogger.create_logger.base_logger/GoogleLogger()": "kind ginst (every method x level, fresh and re-used object)",
                                          "report_suppressions": "measured only (observation_suppression_report)"}})
    n_ex = 0
    batch = []
    for c in exhaustive_cases(ctx):
        batch.append(c)
        if len(batch) >= 2000:
            evaluate(ctx, batch)
            n_ex += len(batch)
            batch = []
    evaluate(ctx, batch)
    n_ex += len(batch)
    ctx.note("exhaustive_scope", "%d key spellings (6 patterns x case x prefix/suffix/infix variants + look-alikes) x %d value kinds x nesting depths %s "
             "(%d records); %d layout x colour x level combinations; then random" % (len(keys), N_KINDS, ctx.scale("0,1,3 (subsampled)", "0..3"), n_ex, len(LAYOUTS) * len(COLOURS) * len(LEVELS)))
    ctx.exhaustive = False
    end_to_end(ctx, ctx.scale(150, 4000))
    n_random = ctx.scale(2500, 150000)
    done = 0
    while done < n_random and ctx.time_left() > ctx.scale(8, 120):
        k = min(1000, n_random - done)
        evaluate(ctx, [random_case(ctx, keys) for _ in range(k)])
        done += k
    ctx.note("random_cases", done)
    ctx.note("harness_degraded", list(_DEGRADED))


def intensify(ctx):
    rng = ctx.rng
    keys = all_keys(rng)
    for _ in range(10):
        if ctx.time_left() < 5 or ctx.violations:
            break
        evaluate(ctx, [random_case(ctx, keys) for _ in range(1500)])


# --------------------------------------------------------------------------- one object, several records


def valid_seq(c):
    return (isinstance(c, dict) and c.get("kind") == "seq" and isinstance(c.get("items"), list) and c["items"]
            and all(valid_case(x) and x["kind"] in ("json", "url", "text") for x in c["items"])
            and all(isinstance(c.get(k, 0), int) and not isinstance(c.get(k, 0), bool) and c.get(k, 0) >= 0 for k in ("layout", "colour")))


def run_seq(case):
    """ONE LogFormatter (and one GoogleLogger-free clean_record path) formats the items in order: use, use again.
    -> list of (item, output of the shared formatter, output of a fresh formatter, failing clause | None).
    A formatter that remembers anything of an earlier record (a parse cache keyed on the length, a reused
    dictionary, a flag set by the first record) shows as a difference from the fresh one or as an oracle failure."""
    out = []
    with colour_env(COLOURS[case.get("colour", 0) % len(COLOURS)]) as suppress:
        shared, _ = make_formatter(case.get("layout", 0), suppress)
        for it in case["items"]:
            it = dict(it, layout=case.get("layout", 0), colour=case.get("colour", 0))
            msg = message_of(it)
            try:
                got = shared.format(make_record(it, msg))
            except Exception as e:
                got = None
            fresh, _ = make_formatter(case.get("layout", 0), suppress)
            try:
                want = fresh.format(make_record(it, msg))
            except Exception:
                want = None
            out.append((it, got, want, oracle_format(it, got)))
    return out


def eval_seq(ctx, case):
    if not valid_seq(case):
        raise InfraError("invalid seq case: %r" % (case,))
    res = run_seq(case)
    if not ctx.replaying:
        _HISTORY.append(case)
    ctx.case(case, True)
    ctx.hit("kind:sequence-on-one-formatter")
    ctx.hit("sequence:length=%d" % len(case["items"]))
    for i, (it, got, want, clause) in enumerate(res):
        if clause:
            def still(c2, clause=clause):
                try:
                    return valid_seq(c2) and run_seq(c2)[-1][3] == clause
                except Exception:
                    return False
            small = dict(case, items=case["items"][: i + 1])
            if not ctx.replaying:
                # drop earlier records while the last one still fails (none left: the failure needs no history)
                j = 0
                while j < len(small["items"]) - 1:
                    c2 = dict(small, items=small["items"][:j] + small["items"][j + 1:])
                    if still(c2):
                        small = c2
                    else:
                        j += 1
            if len(small["items"]) == 1 and not ctx.replaying:
                # no history needed: it is a failure of the record by itself, reported (once) as such
                evaluate(ctx, [dict(small["items"][0], layout=case.get("layout", 0), colour=case.get("colour", 0))])
                if ctx.violations:
                    return
            r2 = run_seq(small)[-1]
            ctx.fail(small, clause + " (record %d formatted by a formatter that has formatted others)" % len(small["items"]),
                     impl={"out": r2[1], "fresh_formatter": r2[2]})
            return
        if got != want:
            ctx.disagree(dict(case, items=case["items"][: i + 1]), {"shared_formatter": got}, {"fresh_formatter": want},
                         "a LogFormatter that has formatted other records formats this one differently")
            return


def sequence_cases(ctx):
    """records that collide on what a cache could be keyed on: same keys / other values, same length, same
    values / other keys, JSON after plain text after JSON, URL after JSON"""
    rng = ctx.rng
    for r in range(ctx.scale(12, 120)):
        items = []
        shape = r % 4
        ka, kb = rng.choice(["db_password", "x_token", "API_KEY"]), rng.choice(["note", "v", "keyboard"])
        for i in range(rng.choice([2, 3, 6, 10])):
            if shape == 0:      # same keys, same length, other values
                items.append({"kind": "json", "obj": {ka: token(rng), kb: token(rng)}, "enc": 0, "level": 3})
            elif shape == 1:    # same values under swapped keys: what was visible becomes secret and back
                a, b = (token(rng), token(rng)) if i == 0 else (a, b)
                items.append({"kind": "json", "obj": ({ka: a, kb: b} if i % 2 == 0 else {kb: a, ka: b}), "enc": 0, "level": 3})
            elif shape == 2:    # JSON, plain text, URL, JSON ...
                items.append([{"kind": "json", "obj": {ka: token(rng), kb: token(rng)}, "enc": i % 4, "level": i % 6},
                              {"kind": "text", "text": "plain %s | text" % token(rng), "level": i % 6},
                              {"kind": "url", "pre": "see ", "scheme": "https", "user": "u", "password": token(rng), "host": "h", "post": " | x", "level": i % 6}][i % 3])
            else:               # growing, then the first one again
                items.append({"kind": "json", "obj": {ka: token(rng) * (i + 1), kb: {"n": token(rng), ka: [token(rng)]}}, "enc": 0, "level": 3})
        if shape == 3:
            items.append(dict(items[0]))
        yield {"kind": "seq", "items": items, "layout": r % len(LAYOUTS), "colour": r % len(COLOURS)}


def dimension_cases(ctx):
    """one dimension of the message grows at a time, through every power of two: the number of field separators
    inside a value, the number of members, the length of a key, the length of a header field - what a guard like
    `if len(parts) > 64` or `if len(record) > N` would be keyed on"""
    rng = ctx.rng
    top = ctx.scale(11, 14)
    for k in range(0, top + 1):
        n = 2 ** k
        for m in (n - 1, n, n + 1):
            if m < 1:
                continue
            i = k * 3 + m - n
            yield frame(rng, kind="json", enc=i % 3, obj={"db_password": "|".join([token(rng)] + ["x"] * (m - 1) + [token(rng)]), "v": token(rng)})
            if m <= 2049:
                obj = {"k%d" % j: j for j in range(m - 1)}
                obj["x_secret"] = token(rng)
                obj["v"] = token(rng)
                yield frame(rng, kind="json", enc=i % 3, obj=obj)
                yield {"kind": "google", "obj": obj, "severity": 3, "span": 0}
            yield frame(rng, kind="json", enc=0, obj={"v": token(rng), ("k" * m) + "_token": token(rng), "z": {("q" * m): token(rng)}})
            yield frame(rng, kind="json", enc=0, name="n" * m + "|" * (m % 5), obj={"password": token(rng), "v": token(rng)})
            yield frame(rng, kind="text", text="|".join(["f"] * m) + '| {"pwd": "%s", "v": "%s"}' % (token(rng), token(rng)))


def replay(ctx, case):
    if isinstance(case, dict) and case.get("kind") == "e2e":
        replay_e2e(ctx, case)
    elif isinstance(case, dict) and case.get("kind") == "pre":
        replay_pre(ctx, case)
    elif isinstance(case, dict) and case.get("kind") == "seq":
        eval_seq(ctx, case)
    elif isinstance(case, dict) and case.get("kind") == "hist":
        if not valid_hist(case):
            raise InfraError("invalid hist case: %r" % (case,))
        for b in case["before"]:  # the history: run, not judged
            try:
                clause_of(b)
            except InfraError:
                raise
            except Exception:
                pass
        ctx.hit("replay:with-history=%d" % len(case["before"]))
        replay(ctx, case["case"])
        return
    else:
        evaluate(ctx, [case])
    ctx.note("harness_degraded", list(_DEGRADED))


def _k01(case, failure):
    """C20-K01: another library's `audit` method on logging.Logger before the first get_logger(): orso leaves it in place
    (`if not hasattr(logger, "audit")`), so logger.audit(dict | bytes) is that method's record - only the audit method,
    only the secrecy clauses, only in that pre-state"""
    return (isinstance(case, dict) and case.get("kind") == "pre" and "foreign-audit-method" in case.get("pre", [])
            and case["case"].get("method") == "audit" and case["case"].get("as", "dict") in ("dict", "bytes")
            and str(failure.get("clause", "")).startswith(("value under a sensitive key is emitted (through get_logger(), state before",
                                                            "part of a value under a sensitive key is emitted (through get_logger(), state before")))


KNOWN_PREDICATES = {"foreign_audit_method_kept": _k01}
