"""C04 — Cursor fetches deliver every row exactly once, in order.

Correspondence: histories over {fetchone, fetchmany(k), fetchall, arraysize, observers, append} are run
on orso.DataFrame and on the *code machine* of Model/Cursor.lean (iterators, the fetchmany loop,
list(cursor); guards and fetch-size arithmetic regenerated from the source).  The property's oracle is
evaluated on the implementation's own outputs.

Frames under test (`case["src"]`):
  materialised  rows= / dictionaries / tuple schema / RelationSchema
  lazily backed a generator, an iterator, DataFrame.from_arrow over a list / tuple / generator of tables
                or a single table (tables may be empty: first, in the middle, last), converters.from_arrow
                with a max size, and the lazy results of select / filter / take (parent materialised or
                itself lazy).  Lazy frames are read only through the cursor (+ schema-level observers).

Observers are enumerated from the DataFrame class: every public member (and every read dunder) must be
covered by a recipe, be a known non-observer, or it is picked up automatically when it is a property or
a `to_*/as_*/is_*/get_*` method callable without arguments that leaves the rows alone on a scratch frame.
"""
import inspect
import itertools

from .. import wire
from ..core import InfraError, shrink

NAMES = ["a", "b"]
EAGER_KINDS = ("rows", "dicts", "tuple-schema", "relation")
ONESHOT_KINDS = ("gen", "iter", "map", "chain")     # rows= an iterator: the backing object *is* the cursor
LAZY_KINDS = ONESHOT_KINDS + ("arrow", "select", "filter", "take")
ARROW_HOW = ("list", "tuple", "gen", "single")
# rows= accepts "an iterable of tuples": the containers that can be iterated again are materialised frames whose
# `_rows` is not (yet) a list — the cursor is a separate iterator over them
CONTAINERS = ("list", "tuple", "deque", "reiter")
DICT_CONTAINERS = ("list", "tuple", "gen", "iter")  # dictionaries= is consumed at construction whatever it is
MAIN = "main"
DERIVE_EAGER = ("slice", "head", "tail", "query", "distinct", "add", "batch")
DERIVE_LAZY = ("select", "filter", "take")
# appends that are rejected (append raises, no row is added): a record that is not a mapping / tuple, a value that cannot
# be sized (beyond 64 bits), a record over the 16 MiB a row may take; and for a RelationSchema: a value of the wrong type,
# a missing column, an excess column, a null in a non-nullable column
BAD_APPENDS = ("scalar", "unsizable", "invalid", "missing", "excess", "null", "oversize")
BAD_NEEDS_REL = ("invalid", "missing", "excess", "null")
_OVERSIZE = "x" * (17 * 2 ** 20)
FETCHES = ("fetchone", "fetchmany", "fetchall")


class ReIter:
    """A re-iterable container that is neither a list nor sized (and is truthy when empty)."""

    def __init__(self, rows):
        self.rows = rows

    def __iter__(self):
        return iter(self.rows)

# ----------------------------------------------------------------------------- observers

# members of DataFrame that are not read-only observations (cursor API, mutators, constructors)
NOT_OBSERVERS = {"append", "fetchone", "fetchmany", "fetchall", "arraysize", "from_arrow"}
READ_DUNDERS = ("__len__", "__iter__", "__getitem__", "__hash__", "__repr__", "__str__", "__add__", "__contains__",
                "__eq__", "__bool__", "__reversed__", "__copy__", "__deepcopy__", "__sizeof__", "__format__")


def _first_col(df):
    return list(df.column_names)[:1]


def _recipes():
    """label -> (member it covers, kind, fn).  kind: 'pure' (schema only), 'rows', 'nbytes'."""
    import orso  # noqa
    from orso import DataFrame
    from orso import converters as conv
    from orso import display as disp

    R = [
        # --- the observers of round 1, in their original order (old replays address them by index)
        ("rowcount", "rowcount", "rows", lambda df: df.rowcount),
        ("len", "__len__", "rows", lambda df: len(df)),
        ("shape", "shape", "rows", lambda df: df.shape),
        ("collect", "collect", "rows", lambda df: df.collect(0) if df.columncount else None),
        ("getitem", "__getitem__", "rows", lambda df: df["a"] if df.columncount else None),
        ("iter", "__iter__", "rows", lambda df: [r for r in df]),
        ("slice", "slice", "rows", lambda df: df.slice(1, 2).rowcount),
        ("head", "head", "rows", lambda df: df.head(2).rowcount),
        ("tail", "tail", "rows", lambda df: df.tail(1).rowcount),
        ("arrow", "arrow", "rows", lambda df: df.arrow().num_rows),
        ("display", "display", "rows", lambda df: df.display(limit=2, colorize=False)),
        ("markdown", "markdown", "rows", lambda df: df.markdown(limit=2)),
        ("markdown-all", "markdown", "rows", lambda df: df.markdown(limit=0)),
        ("markdown-neg", "markdown", "rows", lambda df: df.markdown(limit=-1)),
        ("display-all", "display", "rows", lambda df: df.display(limit=0, colorize=False)),
        ("display-types", "display", "rows", lambda df: df.display(limit=1, show_types=True, colorize=True)),
        ("pandas", "pandas", "rows", lambda df: df.pandas().shape),
        ("arrow-size", "arrow", "rows", lambda df: df.arrow(size=1).num_rows),
        ("batches", "to_batches", "rows", lambda df: [b.rowcount for b in df.to_batches(2)]),
        ("filter", "filter", "rows", lambda df: df.filter([True] * df.rowcount).rowcount),
        ("take", "take", "rows", lambda df: df.take([0]).rowcount),
        ("select", "select", "rows", lambda df: df.select(_first_col(df)).rowcount),
        ("add", "__add__", "rows", lambda df: (df + df).rowcount),
        ("description", "description", "pure", lambda df: df.description),
        ("hash", "__hash__", "rows", lambda df: hash(df)),
        ("repr", "__repr__", "rows", lambda df: repr(df)),
        ("group", "group_by", "rows", lambda df: df.group_by(_first_col(df)).count().rowcount if df.columncount else None),
        ("str", "__str__", "rows", lambda df: str(df)),
        ("row", "row", "rows", lambda df: df.row(0) if df.rowcount else None),
        ("column_names", "column_names", "pure", lambda df: df.column_names),
        ("nbytes", "nbytes", "nbytes", lambda df: df.nbytes()),
        ("distinct", "distinct", "rows", lambda df: df.distinct().rowcount),
        ("query", "query", "rows", lambda df: df.query(lambda r: True).rowcount),
        # --- round 2: the members that had no recipe
        ("columncount", "columncount", "pure", lambda df: df.columncount),
        ("schema", "schema", "pure", lambda df: df.schema),
        ("arraysize-get", "arraysize", "pure", lambda df: df.arraysize),
        ("materialize", "materialize", "rows", lambda df: df.materialize()),
        ("profile", "profile", "rows", lambda df: df.profile),
        ("polars", "polars", "rows", lambda df: _polars(df)),
        ("collect-list", "collect", "rows", lambda df: df.collect(list(range(df.columncount)), limit=1)),
        ("collect-neg", "collect", "rows", lambda df: df.collect(0, limit=-5) if df.columncount else None),
        ("getitem-list", "__getitem__", "rows", lambda df: df[list(df.column_names)]),
        ("slice-neg", "slice", "rows", lambda df: df.slice(-2).rowcount),
        ("slice-zero", "slice", "rows", lambda df: df.slice(0, 0).rowcount),
        ("head-0", "head", "rows", lambda df: df.head(0).rowcount),
        ("tail-all", "tail", "rows", lambda df: df.tail(10**6).rowcount),
        ("pandas-size", "pandas", "rows", lambda df: df.pandas(size=1).shape),
        ("batches-1", "to_batches", "rows", lambda df: [b.rowcount for b in df.to_batches(1)]),
        ("group-max", "group_by", "rows", lambda df: df.group_by(_first_col(df)).max(list(df.column_names)[-1:]).rowcount if df.columncount else None),
        ("display-wide", "display", "rows", lambda df: df.display(limit=10**6, display_width=False, max_column_width=3, colorize=False)),
        ("markdown-big", "markdown", "rows", lambda df: df.markdown(limit=10**6, max_column_width=1)),
        # --- the module-level functions a frame can be handed to
        ("fn:ascii_table", "display", "rows", lambda df: disp.ascii_table(df, limit=3, colorize=False)),
        ("fn:ascii_table-toptail", "__str__", "rows", lambda df: disp.ascii_table(df, limit=2, top_and_tail=True, colorize=False)),
        ("fn:markdown-all", "markdown", "rows", lambda df: list(disp.markdown(df, limit=0))),
        ("fn:html_table", "__str__", "rows", lambda df: disp.html_table(df, 2)),
        ("fn:to_arrow", "arrow", "rows", lambda df: conv.to_arrow(df).num_rows),
        ("fn:to_pandas", "pandas", "rows", lambda df: conv.to_pandas(df, 2).shape),
        # --- a second object made from the frame is read through *its* cursor: the parent's must not move
        ("child:slice-fetchall", "slice", "rows", lambda df: df.slice(0).fetchall()),
        ("child:head-fetchone", "head", "rows", lambda df: df.head(10**6).fetchone()),
        ("child:tail-fetchmany", "tail", "rows", lambda df: df.tail(10**6).fetchmany(2)),
        ("child:query-fetchall", "query", "rows", lambda df: df.query(lambda r: True).fetchall()),
        ("child:distinct-fetchmany", "distinct", "rows", lambda df: df.distinct().fetchmany()),
        ("child:select-fetchall", "select", "rows", lambda df: df.select(list(df.column_names)).fetchall()),
        ("child:filter-fetchone", "filter", "rows", lambda df: df.filter([True] * df.rowcount).fetchone()),
        ("child:take-fetchall", "take", "rows", lambda df: df.take(range(df.rowcount)).fetchall()),
        ("child:add-fetchall", "__add__", "rows", lambda df: (df + df).fetchall()),
        ("child:batches-fetch", "to_batches", "rows", lambda df: [b.fetchall() for b in df.to_batches(2)]),
        ("child:arrow-roundtrip", "arrow", "rows", lambda df: DataFrame.from_arrow(df.arrow()).fetchall() if df.columncount else None),
        ("iter-partial", "__iter__", "rows", lambda df: next(iter(df), None)),
        ("iter-twice", "__iter__", "rows", lambda df: [list(zip(df, df))]),
    ]
    return R


def _polars(df):
    # to_polars reads `row.as_dict`: it only works on frames whose rows are Row objects (dictionary-built
    # or appended); on plain tuples it raises whatever the cursor has done — not this property's business
    from collections import deque

    if isinstance(df._rows, (list, tuple, deque, ReIter)) and all(hasattr(r, "as_dict") for r in df._rows):
        return df.polars().shape
    return None


class Observers:
    def __init__(self):
        from orso import DataFrame

        from ..extractors.c04_footprint import PURE_MEMBERS

        self.recipes = _recipes()
        # the recipes a lazily backed frame is shown to are exactly those over the members that
        # C04.schema_observers_do_not_read_rows is about (`arraysize` is a slot, not code)
        for r in self.recipes:
            if r[2] == "pure" and r[1] not in PURE_MEMBERS + ("arraysize",):
                raise InfraError("recipe %r is marked schema-only but %r is not in the extractor's PURE_MEMBERS" % (r[0], r[1]))
        self.legacy = [r[0] for r in self.recipes[:33]]
        self.by_label = {r[0]: r for r in self.recipes}
        covered = {r[1] for r in self.recipes}
        members = [n for n, _ in inspect.getmembers(DataFrame) if not n.startswith("_")]
        members += [n for n in DataFrame.__dict__ if n in READ_DUNDERS or (n.startswith("__") and n not in (
            "__init__", "__new__", "__slots__", "__module__", "__doc__", "__qualname__", "__dict__", "__weakref__",
            "__annotations__", "__firstlineno__", "__static_attributes__") and callable(DataFrame.__dict__[n]))]
        self.members = sorted(set(members))
        self.auto, self.unclassified = [], []
        for name in self.members:
            if name in covered or name in NOT_OBSERVERS or name in DataFrame.__slots__:
                continue
            fn = self._auto(DataFrame, name)
            if fn is None:
                self.unclassified.append(name)
                continue
            label = "auto:" + name
            rec = (label, name, "rows", fn)
            self.recipes.append(rec)
            self.by_label[label] = rec
            self.auto.append(name)
        self.eager_labels = [r[0] for r in self.recipes]
        self.pure_labels = [r[0] for r in self.recipes if r[2] == "pure"]
        # frames without columns: a recipe is used on them only if it works on a scratch frame of that shape whose
        # cursor was never touched (whether rendering / converting copes with no columns is other properties' business)
        self.width0_labels = [r[0] for r in self.recipes if self._works_without_columns(DataFrame, r[3])]

    @staticmethod
    def _works_without_columns(DataFrame, fn):
        from orso.schema import RelationSchema

        makers = (lambda rows: DataFrame(rows=list(rows), schema=[]), lambda rows: DataFrame(rows=tuple(rows), schema=[]),
                  lambda rows: DataFrame([{} for _ in rows]) if rows else None,
                  lambda rows: DataFrame(rows=list(rows), schema=RelationSchema(name="t", columns=[])))
        for make in makers:
            for rows in ([(), (), ()], []):
                try:
                    df = make(rows)
                    if df is not None:
                        fn(df)
                except Exception:
                    return False
        return True

    @staticmethod
    def _auto(DataFrame, name):
        """A recipe for a member nobody wrote one for — only when it looks like a read-only observation."""
        attr = inspect.getattr_static(DataFrame, name)
        if isinstance(attr, property):
            fn = lambda df, name=name: getattr(df, name)  # noqa: E731
        elif inspect.isfunction(attr) and name.startswith(("to_", "as_", "is_", "get_", "has_")):
            params = list(inspect.signature(attr).parameters.values())[1:]
            if any(p.default is inspect.Parameter.empty and p.kind in (p.POSITIONAL_ONLY, p.POSITIONAL_OR_KEYWORD, p.KEYWORD_ONLY) for p in params):
                return None

            def fn(df, name=name):
                v = getattr(df, name)()
                return list(v) if inspect.isgenerator(v) else v
        else:
            return None
        for rows in ([(1, 2), (3, 4), (5, 6)], []):
            try:
                df = DataFrame(rows=list(rows), schema=list(NAMES))
                fn(df)
                if not isinstance(df._rows, list) or [tuple(r) for r in df._rows] != rows:
                    return None  # it changes the rows: not a read-only observation
            except Exception:
                return None  # it does not work on a plain frame: other properties' business
        return fn

    def get(self, ref):
        if isinstance(ref, int):  # round-1 replays
            return self.by_label[self.legacy[ref % len(self.legacy)]]
        if ref not in self.by_label:
            raise InfraError("unknown observer %r (a replay of an automatically enumerated member that is gone?)" % (ref,))
        return self.by_label[ref]


OBS = None


def observers():
    global OBS
    if OBS is None:
        OBS = Observers()
    return OBS


# ----------------------------------------------------------------------------- cases


def norm_case(case):
    """Round-1 cases ({"rows", "ctor", "lazy": true}) in the round-2 shape."""
    if "src" in case:
        return case
    c = {"width": case["width"], "ops": case["ops"]}
    if case.get("lazy"):
        c["src"] = {"kind": "gen", "rows": case["rows"]}
    else:
        c["src"] = {"kind": case.get("ctor", "rows"), "rows": case["rows"]}
    if "arraysize0" in case:
        c["arraysize0"] = case["arraysize0"]
    return c


def is_lazy(case):
    return case["src"]["kind"] in LAZY_KINDS


def _project(src, width):
    names = NAMES[:width]
    cols = [c for c in src["columns"] if c in names]
    return cols, [names.index(c) for c in cols]


def layout(case):
    """(frame rows, tables for the model, max size) — what the frame under test holds, computed here."""
    src, w = case["src"], case["width"]
    k = src["kind"]
    if "_twin" in case:  # see reference_rows
        return case["_twin"], [[r] for r in case["_twin"]], None
    if k in EAGER_KINDS or k in ONESHOT_KINDS:
        rows = [list(r) for r in src["rows"]]
        return rows, [rows], None
    if k == "arrow":
        tables = [[list(r) for r in t] for t in src["tables"]]
        rows = [r for t in tables for r in t]
        size = src.get("size")
        return (rows if size is None else rows[:size]), tables, size
    parent = [list(r) for r in src["rows"]]
    if k == "select":
        _, idx = _project(src, w)
        tables = [[[r[i] for i in idx]] for r in parent]
    elif k == "filter":
        tables = [[r] if m else [] for r, m in zip(parent, src["mask"])]
    elif k == "take":
        tables = [[r] if i in src["indexes"] else [] for i, r in enumerate(parent)]
    else:
        raise InfraError("bad source kind %r" % (k,))
    return [r for t in tables for r in t], tables, None


_TABLE_CACHE = {}


def _arrow_table(rows, width):
    import pyarrow

    key = (width, tuple(tuple(r) for r in rows))
    t = _TABLE_CACHE.get(key)
    if t is None:
        t = pyarrow.table({n: pyarrow.array([r[i] for r in rows], pyarrow.int64()) for i, n in enumerate(NAMES[:width])})
        if len(_TABLE_CACHE) < 5000:
            _TABLE_CACHE[key] = t
    return t


def _container(rows, how):
    from collections import deque

    if how == "list":
        return list(rows)
    if how == "tuple":
        return tuple(rows)
    if how == "deque":
        return deque(rows)
    if how == "reiter":
        return ReIter(list(rows))
    raise InfraError("bad container %r" % (how,))


def _oneshot(rows, how):
    if how == "gen":
        return (r for r in rows)
    if how == "iter":
        return iter(list(rows))
    if how == "map":
        return map(tuple, [list(r) for r in rows])
    if how == "chain":
        return itertools.chain(rows[: len(rows) // 2], (r for r in rows[len(rows) // 2:]))
    raise InfraError("bad iterator kind %r" % (how,))


def build(case):
    """The frame under test."""
    from orso import DataFrame

    src, w = case["src"], case["width"]
    k = src["kind"]
    names = NAMES[:w]
    rows = [tuple(r) for r in src.get("rows", [])]
    cont = src.get("container", "list")
    if k == "rows":
        return DataFrame(rows=_container(rows, cont), schema=list(names))
    if k == "dicts":
        ds = [dict(zip(names, r)) for r in rows]  # the running byte total is not kept yet
        return DataFrame({"list": list, "tuple": tuple, "gen": lambda x: (d for d in x), "iter": iter}[cont](ds))
    if k == "tuple-schema":
        return DataFrame(rows=_container(rows, cont), schema=tuple(names))
    if k == "relation":
        return DataFrame(rows=_container(rows, cont), schema=_relation(names, src.get("nonnull")))
    if k in ONESHOT_KINDS:
        # a generator of rows under a RelationSchema (`rel`): append validates the record before anything is stored
        return DataFrame(rows=_oneshot(rows, k), schema=_relation(names, src.get("nonnull")) if src.get("rel") else list(names))
    if k == "arrow":
        tabs = [_arrow_table(t, w) for t in src["tables"]]
        how = src.get("how", "list")
        arg = {"list": lambda: list(tabs), "tuple": lambda: tuple(tabs), "gen": lambda: (t for t in tabs), "single": lambda: tabs[0]}[how]()
        if src.get("size") is None:
            return DataFrame.from_arrow(arg)
        from orso.converters import from_arrow

        it, schema = from_arrow(arg, size=src["size"])
        return DataFrame(rows=it, schema=schema)
    if src.get("parent") == "gen":
        parent = DataFrame(rows=(r for r in rows), schema=list(names))
    else:
        parent = DataFrame(rows=list(rows), schema=list(names))
    if k == "select":
        return parent.select(list(src["columns"]))
    if k == "filter":
        return parent.filter(list(src["mask"]))
    if k == "take":
        return parent.take(list(src["indexes"]))
    raise InfraError("bad source kind %r" % (k,))


def _relation(names, nonnull=False):
    from orso.schema import FlatColumn, RelationSchema
    from orso.types import OrsoTypes

    return RelationSchema(name="t", columns=[FlatColumn(name=n, type=OrsoTypes.INTEGER, nullable=not (nonnull and i == 0))
                                             for i, n in enumerate(names)])


def src_rel(src):
    """Does the frame under test validate appended records against a RelationSchema?"""
    return src["kind"] in ("relation", "arrow") or (src["kind"] in ONESHOT_KINDS and bool(src.get("rel")))


def reference_rows(ctx, case):
    """For select / filter / take the rows of the frame are whatever the operation selects — C03/C05's
    business, not this property's.  A twin frame is materialised by iteration; if it holds other rows than
    this harness expects, the twin's rows are the reference (and the fact is counted)."""
    if case["src"]["kind"] not in ("select", "filter", "take"):
        return case
    try:
        twin = [_row(r) for r in build(case)]
    except Exception:
        return case
    if not _same(twin, layout(case)[0]):
        ctx.hit("derived-frame:rows-differ-from-harness-expectation")
        return dict(case, _twin=twin)
    return case


def _same(a, b):
    """Equality of rows / outputs as values of the wire universe: NaN is NaN, -0.0 is not 0.0, True is not 1.
    Everything compared here is made of lists, dicts and scalars, for which `repr` is exactly that (and runs in C;
    `wire.same` is the definition, used when the texts differ in length only by accident of tuple vs list)."""
    if a is b:
        return True
    ra, rb = repr(a), repr(b)
    return ra == rb or (len(ra) == len(rb) and ("(" in ra or "(" in rb) and wire.same(a, b))


def _py(v):
    return v.item() if hasattr(v, "item") and not isinstance(v, (int, float, str)) else v


def _row(r):
    return [_py(v) for v in r]


# ----------------------------------------------------------------------------- several frames


def target(op):
    """(register, operation) of a history entry; a bare operation is on the frame under test."""
    if op[0] == "on":
        return op[1], op[2]
    if op[0] == "derive":
        return op[2], op
    return MAIN, op


def derive_rows(rows, how, args, others, width):
    """The rows a derivation selects from `rows`, by the documented semantics (the reference when the frame the
    implementation hands out cannot be read without consuming it)."""
    n = len(rows)

    def sl(off, ln):
        if off < 0:
            off = max(n + off, 0)
        if ln is None:
            return rows[off:]
        if ln == 0:
            return []
        return rows[off: off + ln]

    if how == "slice":
        return sl(args[0] if len(args) > 0 else 0, args[1] if len(args) > 1 else None)
    if how == "head":
        return sl(0, args[0] if args else 5)
    if how == "tail":
        size = args[0] if args else 5
        return sl(0 - size, size)
    if how == "query":
        return list(rows) if args[0] == "all" else []
    if how == "distinct":
        seen, out = [], []
        for r in rows:
            t = tuple(r)
            if t not in seen:
                seen.append(t)
                out.append(r)
        return out
    if how == "add":
        return rows + others[args[0]]
    if how == "batch":
        bs = [rows[i: i + args[0]] for i in range(0, n, args[0])]
        return [] if not bs else (bs[0] if args[1] == "first" else bs[-1])
    if how == "select":
        names = NAMES[:width]
        idx = [names.index(c) for c in args[0] if c in names]
        return [[r[i] for i in idx] for r in rows]
    if how == "filter":
        return [r for r, m in zip(rows, args[0]) if m]
    if how == "take":
        return [r for i, r in enumerate(rows) if i in args[0]]
    raise InfraError("bad derivation %r" % (how,))


def _do_derive(df, how, args, frames):
    if how == "slice":
        return df.slice(*args)
    if how == "head":
        return df.head(*args)
    if how == "tail":
        return df.tail(*args)
    if how == "query":
        return df.query((lambda r: True) if args[0] == "all" else (lambda r: False))
    if how == "distinct":
        return df.distinct()
    if how == "add":
        return df + frames[args[0]]
    if how == "batch":
        bs = list(df.to_batches(args[0]))
        if not bs:
            return df.slice(0, 0)  # a frame of no rows has no batches
        return bs[0] if args[1] == "first" else bs[-1]
    if how == "select":
        return df.select(list(args[0]))
    if how == "filter":
        return df.filter(list(args[0]))
    if how == "take":
        return df.take(list(args[0]))
    raise InfraError("bad derivation %r" % (how,))


def _bad_entry(kind, width, rel):
    names = NAMES[:width]
    if kind == "scalar":
        return 5
    if kind == "unsizable":  # an integer beyond 64 bits cannot be sized (Row.nbytes raises)
        vals = [2 ** 70] + [0] * (width - 1)
        return dict(zip(names, vals)) if rel else tuple(vals)
    if kind == "invalid":   # not an INTEGER
        return dict(zip(names, ["x"] + [0] * (width - 1)))
    if kind == "missing":   # the last column is not there
        return dict(zip(names[:-1], [0] * (width - 1)))
    if kind == "excess":    # a column the schema does not have
        return dict(list(zip(names, [0] * width)) + [("zz", 0)])
    if kind == "null":      # None in the non-nullable first column
        return dict(zip(names, [None] + [0] * (width - 1)))
    if kind == "oversize":  # a record over the 16 MiB a row may take (Row.nbytes raises)
        vals = [_OVERSIZE] + [0] * (width - 1)
        return dict(zip(names, vals)) if rel else tuple(vals)
    raise InfraError("bad append kind %r" % (kind,))


_POINTS = []


def append_points():
    """`DataFrame.append` statement by statement, as the extractor reads the working tree (None when it cannot)."""
    if not _POINTS:
        try:
            from ..extract import Src
            from ..extractors.c04 import append_points as extract_points

            _POINTS.append(extract_points(Src("orso/dataframe.py"))[0])
        except Exception:
            _POINTS.append(None)
    return _POINTS[0]


def _reject_stage(e):
    """The statement of `append` an exception came out of: its index in the extractor's table (None: not known)."""
    points = append_points()
    if points is None:
        return None
    from ..extractors.c04 import append_point_of_line

    tb, line = e.__traceback__, None
    while tb is not None:
        code = tb.tb_frame.f_code
        if code.co_name == "append" and code.co_filename.replace("\\", "/").endswith("orso/dataframe.py"):
            line = tb.tb_lineno
        tb = tb.tb_next
    return None if line is None else append_point_of_line(points, line)


def _stored(df):
    from collections import deque

    if isinstance(df._rows, (list, tuple, deque, ReIter)):
        return [_row(r) for r in df._rows]
    return None


def _raises_anyway(df, fn, e):
    """Does the observer raise the same on a new frame over the same rows, one whose cursor nobody touched?"""
    from orso import DataFrame

    rows = _stored_raw(df)
    if rows is None:
        return False
    try:
        fn(DataFrame(rows=list(rows), schema=df._schema))
    except Exception as e2:
        return type(e2) is type(e)
    return False


def _stored_raw(df):
    from collections import deque

    return list(df._rows) if isinstance(df._rows, (list, tuple, deque, ReIter)) else None


def _exotic(case):
    src = case["src"]
    return case["width"] == 0 or src.get("container", "list") != "list" or src["kind"] in ("map", "chain")


def run_impl(case):
    """Run a history on the real DataFrame(s).  Returns (outs, {register: its rows at the end, or None})."""
    obs = observers()
    try:
        frames = {MAIN: build(case)}
    except Exception as e:
        if not _exotic(case):
            raise
        # a constructor that turns down an unusual-but-legal shape (rows without columns, rows held in a deque, …)
        # is not this property's business: the history is not run
        return [["unbuildable", type(e).__name__]], {}
    lazy = {MAIN: is_lazy(case)}
    from orso.schema import RelationSchema
    w = case["width"]
    names = NAMES[:w]
    outs = []
    for op in case["ops"]:
        reg, bop = target(op)
        k = bop[0]
        df = frames.get(reg)
        if df is None:  # a register whose derivation raised: reported there
            outs.append(["skipped"])
            continue
        rel = isinstance(df._schema, RelationSchema)
        was_list = isinstance(df._rows, list)
        try:
            if k == "fetchone":
                r = df.fetchone()
                outs.append(["one", None if r is None else _row(r)])
            elif k == "fetchmany":
                rs = df.fetchmany() if bop[1] is None else df.fetchmany(bop[1])
                outs.append(["many", [_row(r) for r in rs]])
            elif k == "fetchall":
                outs.append(["many", [_row(r) for r in df.fetchall()]])
            elif k == "arraysize":
                df.arraysize = bop[1]
                outs.append(["unit"])
            elif k == "observe":
                obs.get(bop[1])[3](df)
                outs.append(["unit"])
            elif k == "append":
                df.append(dict(zip(names, bop[1])) if rel else tuple(bop[1]))
                outs.append(["unit"])
            elif k == "append-bad":
                df.append(_bad_entry(bop[1], w, rel))
                outs.append(["unit"])
            elif k == "derive":
                name, how, args = bop[1], bop[3], bop[4:]
                child = _do_derive(df, how, args, frames)
                if how in DERIVE_LAZY:
                    # what the view holds is read from a twin (reading the view itself would consume it)
                    snap = [_row(r) for r in _do_derive(df, how, args, frames)]
                else:
                    snap = [_row(r) for r in child._rows] if isinstance(child._rows, list) else None
                frames[name] = child
                lazy[name] = how in DERIVE_LAZY
                outs.append(["derived", snap])
            else:
                raise InfraError("bad op " + repr(op))
        except InfraError:
            raise
        except Exception as e:  # the fetch calls refuse after an append
            if k in FETCHES:
                outs.append(["err"])
            elif k == "observe" and not lazy[reg] and _raises_anyway(df, obs.get(bop[1])[3], e):
                # the observer cannot cope with these values whatever the cursor did (a column of mixed types to
                # Arrow, None to max()): other properties' business; the history goes on
                outs.append(["raised-anyway", type(e).__name__, obs.get(bop[1])[0]])
            else:
                if k == "derive":
                    frames[bop[1]] = None
                outs.append(["raised", type(e).__name__, {"observe": lambda: obs.get(bop[1])[0], "derive": lambda: "derive:" + bop[3]}.get(k, lambda: k)()]
                            + ([_reject_stage(e), was_list] if k == "append-bad" else []))
    finals = {}
    for name, df in frames.items():
        finals[name] = None if (df is None or lazy[name]) else _stored(df)
    return outs, finals


class Reg:
    """What the property says about one frame of a history."""

    def __init__(self, name, rows, lazy, idx, how=None, parent=None):
        self.name, self.rows, self.lazy, self.idx, self.how, self.parent = name, rows, lazy, idx, how, parent
        self.differs = False
        self.delivered = []
        self.arraysize = 100
        self.appended = False
        self.extra = []
        self.unknown_rows = False   # an append whose stored row this harness cannot predict went through
        self.failed_append = False  # an append raised: no row was appended, a refusal afterwards is tolerated
        self.loose = False          # …and happened: the model (which does not refuse) is not compared any more
        self.frozen = False         # a lazy view whose parent was appended to: what it holds is not defined
        self.fetched = False        # a fetch call has been made
        self.notes = []             # where in the history the rejected appends fell (input distribution)

    def current(self):
        return self.rows + self.extra


def judge(case, outs, finals):
    """The property, evaluated directly on the implementation's outputs.
    Returns (clause or None, registers in order of creation)."""
    main = Reg(MAIN, layout(case)[0], is_lazy(case), 0)
    main.arraysize = case.get("arraysize0", 100)
    regs = {MAIN: main}
    order = [main]
    many = any(op[0] == "derive" for op in case["ops"])

    def say(text, st):
        if not many:
            return text
        return text + (" [the frame others were derived from]" if st.name == MAIN else " [a derived frame]")

    clause = None
    if outs and outs[0][0] == "unbuildable":
        main.loose = True
        return None, order
    for op, out in zip(case["ops"], outs):
        reg, bop = target(op)
        k = bop[0]
        st = regs.get(reg)
        if st is None or out[0] == "skipped":
            continue
        if out[0] == "raised-anyway":
            continue
        if out[0] == "raised" and k != "append-bad":
            clause = clause or say("operation %s raised %s" % (out[2], out[1]), st)
            if k == "derive":
                regs[bop[1]] = None
            continue
        if k == "arraysize":
            st.arraysize = bop[1]
        elif k == "append":
            st.appended = True
            st.extra.append(list(bop[1]))
        elif k == "append-bad":
            if out[0] == "raised":
                st.failed_append = True
                stage, was_list = (out[3], out[4]) if len(out) > 4 else (None, True)
                if stage is None or (not st.lazy and not was_list):
                    # the model cannot follow this one: the statement that raised is not in the extractor's table, or the
                    # rows of a materialised frame are held in something that is not a list (append turns it into one and
                    # drops the cursor: the frame refuses from here on, which the statement allows)
                    st.loose = True
                where = "before-first-fetch" if not st.fetched else ("after-exhaustion" if len(st.delivered) >= len(st.rows) else "between-fetches")
                st.notes.append("append-rejected:%s:%s:%s" % ("lazy" if st.lazy else "eager", bop[1], where))
            else:  # this tree accepts the entry: an append like any other, of a row this harness does not predict
                st.appended = True
                st.unknown_rows = True
        elif k == "derive":
            name, how, args = bop[1], bop[3], bop[4:]
            others = {n: r.current() for n, r in regs.items() if r is not None}
            want = derive_rows(st.current(), how, args, others, case["width"])
            snap = out[1]
            child = Reg(name, want if snap is None else snap, how in DERIVE_LAZY, len(order), how, st.name)
            child.differs = snap is not None and not _same(snap, want)
            regs[name] = child
            order.append(child)
        if k in ("append", "append-bad"):
            for c in order:  # a lazy view reads its parent's list when it is read: not defined after a change
                if c.lazy and c.parent == st.name:
                    c.frozen = True
        if k not in FETCHES or clause is not None:
            continue
        st.fetched = True
        remaining = len(st.rows) - len(st.delivered)
        if st.appended:
            if out[0] != "err":
                clause = say("fetch after append did not refuse", st)
            continue
        if out[0] == "err":
            if st.failed_append:
                # a refusal after a rejected append is always safe (the model says whether this tree does refuse)
                st.appended = True
                st.notes.append("append-rejected:then-the-frame-refuses")
                continue
            clause = say("fetch raised without an append", st)
            continue
        if k == "fetchone":
            if remaining == 0 and out[1] is not None:
                clause = say("fetchone after exhaustion is not None", st)
            elif remaining > 0 and out[1] is None:
                clause = say("fetchone returned None with rows remaining", st)
            elif out[1] is not None:
                st.delivered.append(out[1])
        elif k == "fetchmany":
            want = min(st.arraysize if bop[1] is None else bop[1], remaining)
            if len(out[1]) != want:
                clause = say("fetchmany returned %d rows, min(k, remaining) is %d" % (len(out[1]), want), st)
            st.delivered.extend(out[1])
        else:
            if len(out[1]) != remaining:
                clause = say("fetchall returned %d rows with %d remaining" % (len(out[1]), remaining), st)
            st.delivered.extend(out[1])
        if clause is None and not _same(st.delivered, st.rows[: len(st.delivered)]):
            clause = say("delivered rows are not a prefix of the frame", st)
    if clause is None:
        for st in order:
            fr = finals.get(st.name)
            if fr is not None and not st.unknown_rows and not _same(fr, st.current()):
                clause = say("frame rows changed other than by append", st)
                break
    return clause, order


def oracle(case, outs, finals):
    return judge(case, outs, finals)[0]


def _model_op(bop, out=None, width=1):
    if bop[0] == "observe":
        return ["observe", observers().get(bop[1])[2]]
    if bop[0] == "append-bad":
        if out is not None and out[0] == "raised" and len(out) > 4 and out[3] is not None:
            # left by an exception at statement `stage` of append: the model takes what has happened to the frame by
            # then from the source (Gen.Cursor.appendPoints)
            row = [] if bop[1] == "scalar" else [{"unsizable": 2 ** 70, "invalid": "x", "null": None, "oversize": "oversize"}.get(bop[1], 0)] + [0] * (width - 1)
            return ["reject", out[3], row]
        return ["observe", "pure"]  # not followed by the model (the register is loose)
    return list(bop)


def _model_frame(case):
    rows, tables, size = layout(case)
    k = case["src"]["kind"]
    if is_lazy(case):
        return ["lazy", tables, size, src_rel(case["src"])]
    return ["eager", rows, k == "dicts", k == "relation"]


def has_registers(case):
    return any(op[0] in ("derive", "on") for op in case["ops"])


def model_line(case, order=None, outs=None):
    d = case.get("arraysize0", 100)
    outs = outs if outs is not None and len(outs) == len(case["ops"]) else [None] * len(case["ops"])
    w = case["width"]
    if not has_registers(case):
        return "C04 frame " + wire.line(d, _model_frame(case), [_model_op(op, o, w) for op, o in zip(case["ops"], outs)])
    idx = {r.name: r.idx for r in order}
    rows_of = {r.name: r.rows for r in order}
    ops = []
    for op, o in zip(case["ops"], outs):
        reg, bop = target(op)
        if reg not in idx:
            raise InfraError("operation on an unknown frame in %r" % (case,))
        if bop[0] == "derive":
            name, how = bop[1], bop[3]
            if name not in idx:
                raise InfraError("derivation without a frame in %r" % (case,))
            if how in DERIVE_LAZY:
                ops.append(["derive-lazy", idx[reg], [[r] for r in rows_of[name]]])
            else:
                ops.append(["derive", idx[reg], "batches" if how == "batch" else how, rows_of[name]])
        else:
            ops.append(["on", idx[reg], _model_op(bop, o, w)])
    return "C04 system " + wire.line(d, _model_frame(case), ops)


def _norm(clause):
    """The kind of a failure: the clause without its numbers and without which frame of the history it is about
    (one minimal replay per kind; the shrinker may move the failure to the simplest frame that shows it)."""
    return None if clause is None else "".join(ch for ch in clause.split(" [")[0] if not ch.isdigit())


def _rows_ok(rows, w):
    return isinstance(rows, list) and all(isinstance(r, list) and len(r) == w for r in rows)


def _int(v, lo=None):
    return isinstance(v, int) and not isinstance(v, bool) and (lo is None or v >= lo)


def _valid_derive(bop, regs, w):
    if len(bop) < 4 or not isinstance(bop[1], str) or not bop[1] or bop[1] in regs:
        return False
    how, args = bop[3], bop[4:]
    if how == "slice":
        return len(args) <= 2 and (len(args) < 1 or _int(args[0])) and (len(args) < 2 or args[1] is None or _int(args[1], 0))
    if how in ("head", "tail"):
        return len(args) <= 1 and all(_int(a, 0) for a in args)
    if how == "query":
        return len(args) == 1 and args[0] in ("all", "none")
    if how == "distinct":
        return not args
    if how == "add":
        return len(args) == 1 and args[0] in regs and not regs[args[0]]["lazy"]
    if how == "batch":
        return len(args) == 2 and _int(args[0], 1) and args[1] in ("first", "last")
    if how == "select":
        return len(args) == 1 and isinstance(args[0], list) and all(isinstance(c, str) for c in args[0]) and len(set(args[0])) == len(args[0])
    if how == "filter":
        return len(args) == 1 and isinstance(args[0], list) and all(isinstance(m, bool) for m in args[0])
    if how == "take":
        return len(args) == 1 and isinstance(args[0], list) and all(_int(m) for m in args[0])
    return False


def _valid_base(bop, lazy, w, rel, nonnull=False):
    obs = observers()
    if not isinstance(bop, list) or not bop:
        return False
    k = bop[0]
    if k == "append":
        # on a lazily backed frame too: "once a row has been appended the fetch calls refuse" is said of every frame
        return len(bop) == 2 and isinstance(bop[1], list) and len(bop[1]) == w and (not rel or all(_int(v) for v in bop[1]))
    if k == "append-bad":
        return (len(bop) == 2 and bop[1] in BAD_APPENDS and (bop[1] == "scalar" or w >= 1)
                and (bop[1] not in BAD_NEEDS_REL or rel) and (bop[1] != "null" or nonnull) and (bop[1] != "oversize" or not rel))
    if k in ("fetchmany", "arraysize", "observe") and len(bop) != 2:
        return False
    if k == "arraysize":
        return _int(bop[1], 0)
    if k == "fetchmany":
        return bop[1] is None or _int(bop[1], 0)
    if k == "observe":
        if _int(bop[1]):
            return not lazy and w >= 1
        if not isinstance(bop[1], str) or bop[1] not in obs.by_label or (lazy and obs.by_label[bop[1]][2] != "pure"):
            return False
        return w >= 1 or bop[1] in obs.width0_labels
    if k in ("fetchone", "fetchall"):
        return len(bop) == 1
    return False


def valid_case(c):
    w = c.get("width")
    src = c.get("src")
    if w not in (0, 1, 2) or isinstance(w, bool) or not isinstance(c.get("ops"), list) or not c["ops"] or not isinstance(src, dict):
        return False
    k = src.get("kind")
    if k in EAGER_KINDS or k in ONESHOT_KINDS:
        if not _rows_ok(src.get("rows"), w) or (k == "dicts" and not src["rows"]):
            return False
        if k in EAGER_KINDS and src.get("container", "list") not in (DICT_CONTAINERS if k == "dicts" else CONTAINERS):
            return False
    elif k == "arrow":
        ts = src.get("tables")
        if w < 1 or not isinstance(ts, list) or not ts or not all(_rows_ok(t, w) for t in ts):
            return False
        if any(not isinstance(v, int) or isinstance(v, bool) for t in ts for r in t for v in r):
            return False
        if src.get("how", "list") not in ARROW_HOW or (src.get("how") == "single" and len(ts) != 1):
            return False
        if src.get("size") is not None and (not isinstance(src["size"], int) or src["size"] < 1):
            return False
    elif k in ("select", "filter", "take"):
        if not _rows_ok(src.get("rows"), w) or src.get("parent", "rows") not in ("rows", "gen"):
            return False
        if k == "select" and (not isinstance(src.get("columns"), list) or not src["columns"]
                              or any(not isinstance(x, str) for x in src["columns"]) or len(set(src["columns"])) != len(src["columns"])):
            return False
        if k == "filter" and (not isinstance(src.get("mask"), list) or any(not isinstance(m, bool) for m in src["mask"])):
            return False
        if k == "take" and (not isinstance(src.get("indexes"), list) or any(not isinstance(m, int) or isinstance(m, bool) for m in src["indexes"])):
            return False
    else:
        return False
    rel = src_rel(src)
    nonnull = bool(src.get("nonnull")) and (k == "relation" or (k in ONESHOT_KINDS and bool(src.get("rel"))))
    regs = {MAIN: {"lazy": k in LAZY_KINDS, "parent": None, "frozen": False, "rel": rel, "nonnull": nonnull}}
    for op in c["ops"]:
        if not isinstance(op, list) or not op:
            return False
        if op[0] == "on":
            if len(op) != 3 or not isinstance(op[1], str) or op[1] not in regs or not isinstance(op[2], list) or not op[2] or op[2][0] in ("on", "derive"):
                return False
        reg, bop = target(op)
        if op[0] == "derive":
            if len(op) < 4 or not isinstance(reg, str) or reg not in regs or regs[reg]["lazy"] or not _valid_derive(bop, regs, w):
                return False
            # a frame derived by select has its own schema: a list of names, whatever the parent had
            keeps = bop[3] != "select"
            regs[bop[1]] = {"lazy": bop[3] in DERIVE_LAZY, "parent": reg, "frozen": False, "rel": regs[reg]["rel"] and keeps,
                            "nonnull": regs[reg]["nonnull"] and keeps}
            continue
        st = regs[reg]
        if st["frozen"]:
            return False
        if not _valid_base(bop, st["lazy"], w, st["rel"], st["nonnull"]):
            return False
        if bop[0] in ("append", "append-bad"):
            for r in regs.values():
                if r["lazy"] and r["parent"] == reg:
                    r["frozen"] = True
    return True


def _features(ctx, c, order, outs=()):
    src = c["src"]
    k = src["kind"]
    ctx.hit("src:" + k + (":" + src.get("how", "list") if k == "arrow" else "") + (":parent-" + src.get("parent", "rows") if k in ("select", "filter", "take") else "")
            + (":" + src["container"] if src.get("container", "list") != "list" else ""))
    rows, tables, size = layout(c)
    ctx.hit("width:%d" % c["width"])
    if rows and any(not r or not any(r) for r in rows):
        ctx.hit("rows:some-falsy" if any(r and any(r) for r in rows) else "rows:all-falsy")
    ctx.hit("rows:%s" % (len(rows) if len(rows) < 9 else ("9-98" if len(rows) < 99 else ("99-101" if len(rows) <= 101 else ("102-9998" if len(rows) < 9999 else "9999+")))))
    ctx.hit("lazy" if is_lazy(c) else "eager")
    if is_lazy(c) and k not in ONESHOT_KINDS:
        sizes = [len(t) for t in tables]
        if sizes and sizes[0] == 0:
            ctx.hit("chunks:empty-first")
        if any(s == 0 for s in sizes[1:-1]):
            ctx.hit("chunks:empty-middle")
        if len(sizes) > 1 and sizes[-1] == 0:
            ctx.hit("chunks:empty-last")
        if sizes and all(s == 0 for s in sizes):
            ctx.hit("chunks:all-empty")
        if any(a == 0 and b == 0 for a, b in zip(sizes, sizes[1:])):
            ctx.hit("chunks:two-empty-in-a-row")
        ctx.hit("chunks:n=%s" % (len(sizes) if len(sizes) < 6 else "6+"))
        if size is not None:
            ctx.hit("arrow:max_size" + ("<rows" if size < sum(sizes) else "=rows" if size == sum(sizes) else ">rows"))
    if k == "select" and any(x not in NAMES[: c["width"]] for x in src["columns"]):
        ctx.hit("select:unknown-column")
    if len(order) > 1:
        ctx.hit("frames:%s" % (len(order) if len(order) < 4 else "4+"))
        for r in order[1:]:
            par = next(o for o in order if o.name == r.parent)
            shape = "empty" if not r.rows else ("whole" if _same(r.rows, par.rows + par.extra) else "part")
            ctx.hit("derive:%s:%s" % (r.how, shape))
            if r.differs:
                ctx.hit("derived-frame:rows-differ-from-harness-expectation")
        # the order of events the aliasing class needs: an append on one side, then a fetch on the other
        appended = set()
        for op in c["ops"]:
            reg, bop = target(op)
            if bop[0] == "append":
                appended.add(reg)
            elif bop[0] in FETCHES and appended - {reg}:
                ctx.hit("frames:fetch-after-append-on-another-frame")
                break
    if outs and outs[0][0] == "unbuildable":
        ctx.hit("frame-cannot-be-built:%s:%s" % (k, outs[0][1]))
    for o in outs:
        if o[0] == "raised-anyway":
            ctx.hit("observer-raises-on-these-values-whatever-the-cursor-did:" + o[2])
    for r in order:
        for note in r.notes:
            ctx.hit(note)
    lazy_regs = {r.name for r in order if r.lazy}
    for op in c["ops"]:
        reg, bop = target(op)
        ctx.hit("op:" + bop[0] + ("" if reg == MAIN else ":on-derived"))
        if bop[0] == "append" and reg in lazy_regs:
            ctx.hit("append:on-a-lazily-backed-frame")
        if bop[0] == "observe":
            ctx.hit("obs:" + observers().get(bop[1])[0])
        if bop[0] == "append-bad":
            ctx.hit("append-bad:" + bop[1])
        if bop[0] == "fetchmany":
            ctx.hit("fetchmany:" + ("omitted" if bop[1] is None else "0" if bop[1] == 0 else "k" if bop[1] < 2 ** 31 else "k>=2^31"))


def _comparable(case, outs):
    """The implementation's outputs as the model states them: a derivation, an observer that cannot cope with the
    values, an append that raised (nothing was appended) are all `unit` for the frame."""
    out = []
    for op, o in zip(case["ops"], outs):
        if o[0] in ("derived", "raised-anyway") or (o[0] == "raised" and target(op)[1][0] == "append-bad"):
            out.append(["unit"])
        else:
            out.append(o)
    return out


def evaluate(ctx, cases):
    cases = [norm_case(c) for c in cases]
    for c in cases:
        if not valid_case(c):
            raise InfraError("generator produced an invalid case: %r" % (c,))
    cases = [reference_rows(ctx, c) for c in cases]
    ran = []
    for c in cases:
        outs, finals = run_impl(c)
        clause, order = judge(c, outs, finals)
        ran.append((outs, finals, clause, order))
    unbuilt = [bool(r[0]) and r[0][0][0] == "unbuildable" for r in ran]
    lines = [model_line(dict(c, ops=[["fetchone"]]), r[3]) if u else model_line(c, r[3], r[0]) for c, r, u in zip(cases, ran, unbuilt)]
    # a frame that has come to hold a record of many MiB (only a tree that keeps a row it rejected does that) is judged by
    # the oracle alone: the line is not sent to the model
    toobig = [len(ln) > 1000000 for ln in lines]
    mouts = ctx.model.batch(["C04 frame " + wire.line(100, ["eager", [], False, False], [["fetchone"]]) if big else ln for ln, big in zip(lines, toobig)])
    for c, (outs, finals, clause, order), mo, u, big in zip(cases, ran, mouts, unbuilt, toobig):
        rows = layout(c)[0]
        if u:
            ctx.case(c, False)
            _features(ctx, c, order, outs)
            continue
        nontrivial = len(c["ops"]) >= 2 and len(rows) >= 1
        ctx.case(c, nontrivial)
        _features(ctx, c, order, outs)
        if not mo.startswith("ok "):
            raise InfraError("model rejected case %r: %r" % (c, mo))
        m = wire.dec_all(mo[3:])
        if big:
            ctx.hit("model:not-asked (a record of many MiB in the frame)")
            m, differs = [None] * 6, False
        elif has_registers(c):
            # m = [outs, stores of the frames, their liveness, every derivation owns its rows]
            mouts_, mstores, strict = m[0], m[1], m[3]
            if not strict:
                ctx.hit("model:a-derived-frame-shares-its-rows (source)")
            iouts = _comparable(c, outs)
            istores = [finals.get(r.name) for r in order]
            differs = not _same(mouts_, iouts) or any(a is not None and not _same(a, b) for a, b in zip(istores, mstores))
        else:
            # m = [code machine outs, its store, live, spec machine outs, spec rows, frame rows]
            if not _same(m[5], rows):
                raise InfraError("the model and the harness disagree about the rows of the frame: %r" % (c,))
            if not _same(m[0], m[3]):
                ctx.hit("model:code-machine-differs-from-spec-machine")
            differs = not _same(m[0], _comparable(c, outs)) or (finals[MAIN] is not None and not _same(m[1], finals[MAIN]))
        if clause is not None:
            seen = ctx.__dict__.setdefault("_c04_seen_clauses", set())
            if _norm(clause) in seen:  # this kind of failure has its minimal replay already
                ctx.hit("violation-dup:" + _norm(clause))
                continue
            seen.add(_norm(clause))

            def still(c2):
                if not valid_case(c2):
                    return False
                c2 = reference_rows(ctx, {k_: v_ for k_, v_ in c2.items() if k_ != "_twin"})
                try:
                    o2, f2 = run_impl(c2)
                    return _norm(oracle(c2, o2, f2)) == _norm(clause)
                except InfraError:
                    raise
                except Exception:
                    return False
            c_min = shrink(c, still, budget=1500) if not ctx.replaying else c
            o2, f2 = run_impl(c_min)
            ctx.fail(c_min, oracle(c_min, o2, f2) or clause, impl=o2, model=m[0] if c_min is c else None)
        elif differs and not any(r.loose or r.unknown_rows for r in order):
            ctx.disagree(c, {"outs": outs, "rows": finals}, {"outs": m[0], "rows": m[1]})


# ----------------------------------------------------------------------------- generators


def alphabet(kmax):
    ops = [["fetchone"], ["fetchall"], ["fetchmany", None], ["observe", 0], ["arraysize", 1], ["arraysize", 3], ["append", [9]]]
    ops += [["fetchmany", k] for k in range(kmax + 1)]
    return ops


def exhaustive_cases(ctx, depth, nmax, kmax):
    alpha = alphabet(kmax)
    labels = observers().eager_labels
    obs_i = 0
    for n in range(nmax + 1):
        rows = [[i] for i in range(n)]
        # the deepest level on the frames of up to 2 rows only: with 3 rows it is a third of the thorough tier's time
        # for histories whose shapes the 2-row frames already have (round 3: keeps the tier within its budget)
        for d in range(1, (depth if n <= 2 or depth <= 4 else depth - 1) + 1):
            for hist in itertools.product(alpha, repeat=d):
                ops = []
                for op in hist:
                    if op[0] == "observe":
                        ops.append(["observe", labels[obs_i % len(labels)]])
                        obs_i += 1
                    else:
                        ops.append(op)
                yield {"src": {"kind": "rows", "rows": rows}, "width": 1, "ops": ops}
                if n and any(o[0] == "append" for o in ops):
                    # the frame built from dictionaries keeps no byte total until nbytes() is called
                    yield {"src": {"kind": "dicts", "rows": rows}, "width": 1, "ops": ops}


def compositions(nmax, maxlen):
    """All lists of chunk sizes (0 allowed) of length 1..maxlen with sum <= nmax."""
    out = []
    for ln in range(1, maxlen + 1):
        for sizes in itertools.product(range(nmax + 1), repeat=ln):
            if sum(sizes) <= nmax:
                out.append(list(sizes))
    return out


def lazy_alphabet(kmax):
    return [["fetchone"], ["fetchall"], ["fetchmany", None], ["arraysize", 1]] + [["fetchmany", k] for k in range(kmax + 1)]


def _tables_from(sizes):
    it = itertools.count()
    return [[[next(it)] for _ in range(s)] for s in sizes]


def exhaustive_lazy(ctx, depth, nmax, maxlen, kmax):
    alpha = lazy_alphabet(kmax)
    hists = [list(h) for d in range(1, depth + 1) for h in itertools.product(alpha, repeat=d)]
    for sizes in compositions(nmax, maxlen):
        tables = _tables_from(sizes)
        for h in hists:
            yield {"src": {"kind": "arrow", "tables": tables, "how": "list"}, "width": 1, "ops": h}
    # every mask over 0..nmax parent rows for filter / take, every history
    for n in range(nmax + 1):
        parent = [[i] for i in range(n)]
        for mask in itertools.product([False, True], repeat=n):
            for h in hists:
                yield {"src": {"kind": "filter", "rows": parent, "mask": list(mask)}, "width": 1, "ops": h}
                yield {"src": {"kind": "take", "rows": parent, "indexes": [i for i, m in enumerate(mask) if m]}, "width": 1, "ops": h}
        for h in hists:
            yield {"src": {"kind": "gen", "rows": parent}, "width": 1, "ops": h}
            yield {"src": {"kind": "select", "rows": parent, "columns": ["a"]}, "width": 1, "ops": h}


def _histories(alpha, depth):
    return [list(h) for d in range(1, depth + 1) for h in itertools.product(alpha, repeat=d)]


def _with_observers(hist, labels, counter):
    ops = []
    for op in hist:
        if op[0] == "observe":
            ops.append(["observe", labels[counter[0] % len(labels)]])
            counter[0] += 1
        else:
            ops.append(op)
    return ops


def exhaustive_shapes(ctx, depth, nmax):
    """Rows that are falsy (no columns; zeros, empty strings, None), and every kind of container `rows=` accepts."""
    obs = observers()
    alpha0 = [["fetchone"], ["fetchall"], ["fetchmany", None], ["fetchmany", 1], ["fetchmany", 2], ["observe", 0], ["append", []], ["arraysize", 1]]
    alpha1 = [op if op[0] != "append" else ["append", [0]] for op in alpha0]
    lazy_alpha = lazy_alphabet(2)
    counter = [0]
    for n in range(nmax + 1):
        empty = [[] for _ in range(n)]
        for h in _histories(alpha0, depth):
            ops = _with_observers(h, obs.width0_labels, counter)
            yield {"src": {"kind": "rows", "rows": empty}, "width": 0, "ops": ops}
            yield {"src": {"kind": "relation", "rows": empty}, "width": 0, "ops": ops}
            if n:
                yield {"src": {"kind": "dicts", "rows": empty}, "width": 0, "ops": ops}
        falsy = [[v] for v in ([0, None, 0])[:n]]
        falsy_s = [[v] for v in (["", "", None])[:n]]
        for h in _histories(alpha1, depth):
            ops = _with_observers(h, obs.eager_labels, counter)
            for cont in ("tuple", "deque", "reiter"):
                yield {"src": {"kind": "rows", "rows": falsy_s if cont == "deque" else falsy, "container": cont}, "width": 1, "ops": ops}
        for h in _histories(lazy_alpha, depth):
            yield {"src": {"kind": "gen", "rows": empty}, "width": 0, "ops": h}
            yield {"src": {"kind": "select", "rows": [[i] for i in range(n)], "columns": ["z"]}, "width": 1, "ops": h}
            yield {"src": {"kind": "map", "rows": falsy}, "width": 1, "ops": h}
            yield {"src": {"kind": "chain", "rows": falsy_s}, "width": 1, "ops": h}
            yield {"src": {"kind": "filter", "rows": empty, "mask": [True] * n}, "width": 0, "ops": h}


def derivations(n):
    """Every way of taking a frame from a frame of n rows: covering all of it, part of it, none of it."""
    out = [["slice"], ["slice", 0], ["slice", 0, n], ["slice", 0, n + 1], ["slice", 0, None], ["slice", -n], ["slice", -(n + 1), n + 1],
           ["head"], ["head", n], ["head", n + 1], ["tail"], ["tail", n], ["tail", n + 5],
           ["query", "all"], ["distinct"], ["add", MAIN], ["batch", max(n, 1), "first"], ["batch", n + 1, "last"], ["batch", 1, "last"]]
    if n:
        out += [["slice", 1], ["slice", 0, n - 1], ["head", n - 1], ["tail", n - 1], ["head", 0], ["query", "none"]]
    seen, uniq = set(), []
    for d in out:
        if repr(d) not in seen:
            seen.add(repr(d))
            uniq.append(d)
    return uniq


def exhaustive_frames(ctx, depth, nmax, wide):
    """A frame, a frame derived from it, and every history of fetches and appends on either side."""
    sides = [MAIN, "c"]
    base = [["fetchone"], ["fetchall"], ["append", [9]]] + ([["fetchmany", None], ["fetchmany", 1]] if wide else [])
    alpha = [(s, op) for s in sides for op in base]
    hists = _histories(alpha, depth)
    for n in range(nmax + 1):
        rows = [[i] for i in range(n)]
        for prefix in ([[]] + ([[["fetchone"]]] if n else [])):
            for d in derivations(n):
                for h in hists:
                    ops = list(prefix) + [["derive", "c", MAIN] + d] + [op if s == MAIN else ["on", s, op] for s, op in h]
                    yield {"src": {"kind": "rows", "rows": rows}, "width": 1, "ops": ops}
    # the same with a parent whose rows are not (yet) a list: the derivation materialises it under a live cursor
    rows = [[0], [1]]
    for cont in ("tuple", "deque", "reiter"):
        for prefix in ([], [["fetchone"]]):
            for d in (["slice"], ["head"], ["tail", 1], ["add", MAIN], ["distinct"], ["batch", 2, "first"]):
                for h in hists:
                    ops = list(prefix) + [["derive", "c", MAIN] + d] + [op if s == MAIN else ["on", s, op] for s, op in h]
                    yield {"src": {"kind": "rows", "rows": rows, "container": cont}, "width": 1, "ops": ops}
    # lazy views of a materialised frame, read through their cursor while the parent is fetched from
    lalpha = [(MAIN, ["fetchone"]), (MAIN, ["fetchall"]), ("c", ["fetchone"]), ("c", ["fetchall"]), ("c", ["fetchmany", None]), ("c", ["fetchmany", 1])]
    for n in range(nmax + 1):
        rows = [[i] for i in range(n)]
        views = [["select", ["a"]], ["select", ["z"]], ["filter", [True] * n], ["filter", [i % 2 == 0 for i in range(n)]], ["take", list(range(n))], ["take", [0]]]
        for v in views:
            for h in _histories(lalpha, min(depth, 3)):
                yield {"src": {"kind": "rows", "rows": rows}, "width": 1,
                       "ops": [["derive", "c", MAIN] + v] + [op if s == MAIN else ["on", s, op] for s, op in h]}


def exhaustive_rejects(ctx, depth, nmax):
    """Operations that fail part-way, interleaved with fetches: every history of depth 1..depth over {fetchone, fetchall,
    fetchmany(1), an append that completes, every kind of rejected append the frame has} with at least one append in it
    — so rejected appends before the first fetch, between fetches and after exhaustion — on materialised frames (list,
    RelationSchema, rows held in a tuple) and lazily backed ones (generator, generator under a RelationSchema, from_arrow
    with an empty table, a filter view)."""
    fetches = [["fetchone"], ["fetchall"], ["fetchmany", 1]]
    for n in range(nmax + 1):
        rows = [[i] for i in range(n)]
        frames = [({"kind": "rows", "rows": rows}, False, False), ({"kind": "rows", "rows": rows, "container": "tuple"}, False, False),
                  ({"kind": "relation", "rows": rows, "nonnull": True}, True, True),
                  ({"kind": "gen", "rows": rows}, False, False), ({"kind": "gen", "rows": rows, "rel": True, "nonnull": True}, True, True),
                  ({"kind": "arrow", "tables": [rows[:1], [], rows[1:]], "how": "list"}, True, False),
                  ({"kind": "filter", "rows": rows + [[7]], "mask": [True] * n + [False]}, False, False)]
        for src, rel, nonnull in frames:
            alpha = fetches + [["append", [9]]] + [["append-bad", k] for k in bad_kinds(1, rel, nonnull)]
            for h in _histories(alpha, depth):
                if any(op[0] in ("append", "append-bad") for op in h):
                    yield {"src": src, "width": 1, "ops": h}
    # a record over the 16 MiB a row may take (one history per position: the record is large)
    for src in ({"kind": "rows", "rows": [[0], [1]]}, {"kind": "gen", "rows": [[0], [1]]}, {"kind": "iter", "rows": [[0], [1]]}):
        for pre in ([], [["fetchone"]], [["fetchall"]]):
            yield {"src": src, "width": 1, "ops": pre + [["append-bad", "oversize"], ["fetchone"], ["fetchall"], ["fetchmany", None]]}
    # two columns, the other kinds of lazily backed frame, and a rejected append on a frame derived from the one under test
    for kind in ("gen", "iter", "map", "chain"):
        for rel in (False, True):
            src = {"kind": kind, "rows": [[1, 2], [3, 4], [5, 6]]}
            if rel:
                src.update(rel=True, nonnull=True)
            for bad in bad_kinds(2, rel, rel):
                for pre in ([], [["fetchone"]], [["fetchmany", 2]], [["fetchall"]]):
                    yield {"src": src, "width": 2, "ops": pre + [["append-bad", bad], ["fetchone"], ["fetchmany", None], ["fetchall"], ["fetchone"]]}
    for view in (["select", ["a"]], ["filter", [True, False, True]], ["take", [0, 2]]):
        for bad in ("scalar", "unsizable"):
            for pre in ([], [["on", "c", ["fetchone"]]], [["on", "c", ["fetchall"]]]):
                yield {"src": {"kind": "rows", "rows": [[1], [2], [3]]}, "width": 1,
                       "ops": [["fetchone"], ["derive", "c", MAIN] + view] + pre + [["on", "c", ["append-bad", bad]], ["on", "c", ["fetchone"]],
                                                                                   ["fetchone"], ["on", "c", ["fetchall"]], ["fetchall"]]}


ODD_VALUES = [None, "é", 2**70, 1.5, "", -1, 0, 0.0, False, float("nan"), -0.0, [1], [], {"k": 1}, b""]
FALSY = [0, "", None, 0.0, False]
BIG_K = [2 ** 31 - 1, 2 ** 31, 2 ** 63, 2 ** 64 + 1, 10 ** 9]


def bad_kinds(width, rel, nonnull=False, oversize=False):
    """The rejected appends a frame of this shape has."""
    ks = ["scalar"]
    if width:
        ks.append("unsizable")
        if rel:
            ks += ["invalid", "missing", "excess"] + (["null"] if nonnull else [])
        elif oversize:
            ks.append("oversize")
    return ks


def random_ops(ctx, n, width, lazy, rel=False, nonnull=False):
    rng = ctx.rng
    obs = observers()
    eager_labels = obs.eager_labels if width else obs.width0_labels
    pure_labels = obs.pure_labels if width else [x for x in obs.pure_labels if x in obs.width0_labels]
    ops = []
    for _ in range(rng.randint(1, 14)):
        r = rng.random()
        if r < 0.2:
            ops.append(["fetchone"])
        elif r < 0.5:
            ops.append(["fetchmany", rng.choice([None, 0, 1, 2, 3, n, n + 1, max(n - 1, 0), rng.randint(0, 20), rng.choice(BIG_K)])])
        elif r < 0.58:
            ops.append(["fetchall"])
        elif r < 0.7:
            ops.append(["arraysize", rng.choice([0, 1, 2, 5, 99, 100, 101, 1000, rng.choice(BIG_K)])])
        elif r < 0.92:
            labels = pure_labels if lazy else eager_labels
            if labels:
                ops.append(["observe", rng.choice(labels)])
        elif not lazy or rng.random() < 0.7:
            # (a lazily backed frame too: an append is not a read, and one that is rejected must not cost it its rows)
            if rng.random() < (0.6 if lazy else 0.3):
                ops.append(["append-bad", rng.choice(bad_kinds(width, rel, nonnull, oversize=rng.random() < 0.02))])
            else:
                ops.append(["append", [rng.randint(-3, 3) for _ in range(width)]])
    return ops or [["fetchone"]]


def random_derivation(rng, n, names, width):
    """A derivation of a frame of about n rows; half of the time one that covers all of it."""
    r = rng.random()
    if r < 0.5:
        d = rng.choice([["slice"], ["slice", 0], ["slice", 0, n], ["slice", 0, n + rng.randint(0, 3)], ["slice", -n - rng.randint(0, 2)],
                        ["head"], ["head", n + rng.randint(0, 3)], ["tail", n + rng.randint(0, 3)], ["tail"], ["query", "all"], ["distinct"],
                        ["batch", n + rng.randint(0, 2) or 1, rng.choice(["first", "last"])]])
    elif r < 0.8:
        d = rng.choice([["slice", rng.randint(-n - 1, n + 1)], ["slice", rng.randint(-n - 1, n + 1), rng.choice([None, 0, 1, 2, n])],
                        ["head", rng.randint(0, n + 1)], ["tail", rng.randint(0, n + 1)], ["query", "none"],
                        ["batch", rng.randint(1, max(n, 1)), rng.choice(["first", "last"])], ["add", rng.choice(names)]])
    else:
        cols = NAMES[:width] + ["z"]
        d = rng.choice([["select", rng.sample(cols, rng.randint(1, len(cols)))],
                        ["filter", [rng.random() < 0.7 for _ in range(n + rng.randint(-1, 1) if n else 0)]],
                        ["take", [rng.randint(0, n) for _ in range(rng.randint(0, n + 1))]]])
    return d


def with_frames(ctx, case):
    """Derive further frames from the materialised frame(s) of `case` and spread fetches / appends over all of them."""
    rng = ctx.rng
    w = case["width"]
    rel = case["src"]["kind"] == "relation"
    n = len(case["src"]["rows"])
    nonnull = rel and bool(case["src"].get("nonnull"))
    regs = {MAIN: {"lazy": False, "frozen": False, "parent": None, "rel": rel}}
    ops = []
    obs = observers()
    labels = obs.eager_labels if w else obs.width0_labels
    pure = [x for x in obs.pure_labels if w or x in obs.width0_labels]
    for op in case["ops"][: rng.randint(0, 3)]:
        ops.append(op)
    for _ in range(rng.randint(2, 12)):
        live = [name for name, st in regs.items() if not st["frozen"]]
        eager = [name for name in live if not regs[name]["lazy"]]
        r = rng.random()
        if r < 0.22 and len(regs) < 4 and eager:
            parent = rng.choice(eager)
            d = random_derivation(rng, n, eager, w)
            name = "c%d" % len(regs)
            ops.append(["derive", name, parent] + d)
            regs[name] = {"lazy": d[0] in DERIVE_LAZY, "frozen": False, "parent": parent, "rel": regs[parent]["rel"] and d[0] != "select"}
            continue
        reg = rng.choice(live)
        lazy = regs[reg]["lazy"]
        if r < 0.45:
            bop = ["fetchone"]
        elif r < 0.6:
            bop = ["fetchmany", rng.choice([None, 0, 1, 2, n, n + 1])]
        elif r < 0.72:
            bop = ["fetchall"]
        elif r < 0.8:
            pool = pure if lazy else labels
            if not pool:
                continue
            bop = ["observe", rng.choice(pool)]
        elif r < 0.84:
            bop = ["arraysize", rng.choice([0, 1, 2, 100])]
        elif not lazy or rng.random() < 0.5:
            if rng.random() < (0.5 if lazy else 0.15):
                bop = ["append-bad", rng.choice(bad_kinds(w, regs[reg]["rel"], nonnull and regs[reg]["rel"]))]
            else:
                bop = ["append", [rng.randint(-3, 3) for _ in range(w)]]
            for st in regs.values():
                if st["lazy"] and st["parent"] == reg:
                    st["frozen"] = True
        else:
            continue
        ops.append(bop if reg == MAIN and rng.random() < 0.5 else ["on", reg, bop])
    return dict(case, ops=ops or [["fetchone"]])


def random_sizes(rng):
    """Chunk sizes with empty tables at the start, in the middle and at the end."""
    ln = rng.choice([1, 2, 3, 3, 4, 5, 8])
    sizes = [rng.choice([0, 0, 1, 2, 3, 5]) for _ in range(ln)]
    r = rng.random()
    if r < 0.25 and ln >= 3:
        sizes[rng.randrange(1, ln - 1)] = 0
        sizes[0] = sizes[0] or 2
        sizes[-1] = sizes[-1] or 3
    elif r < 0.4:
        sizes[0] = 0
    elif r < 0.55:
        sizes[-1] = 0
    return sizes


def random_case(ctx, lazy=False):
    rng = ctx.rng
    width = rng.choice([1, 2, 1, 2, 1, 2, 0])
    if not lazy:
        n = rng.choice([0, 1, 2, 3, 5, 8, 13, 40, 99, 100, 101, 150]) if rng.random() < 0.5 else rng.randint(0, 12)
        r = rng.random()
        # columns are of one type each (what Arrow / max() / sorting need); one frame in five is mostly falsy values
        pools = [[0, 0, None, 1, -1], ["", "", None, "x", "é"], [0.0, 0.0, None, 1.5, -0.0, float("nan")], [False, False, None, True]]
        col_pools = [rng.choice(pools) if r < 0.2 else [-3, -2, -1, 0, 1, 2, 3] for _ in range(width)]
        kind = "rows"
        if rng.random() < 0.4:
            kind = rng.choice(["dicts", "tuple-schema", "relation"])
            if kind == "dicts" and not n:
                kind = "rows"
        if kind == "relation":
            col_pools = [[-3, -2, -1, 0, 1, 2, 3] for _ in range(width)]  # INTEGER columns
        rows = [[rng.choice(col_pools[j]) for j in range(width)] for _ in range(n)]
        src = {"kind": kind, "rows": rows}
        if rng.random() < 0.35:
            src["container"] = rng.choice(DICT_CONTAINERS if kind == "dicts" else CONTAINERS)
        if kind == "relation" and width and rng.random() < 0.5:
            src["nonnull"] = True
        c = {"src": src, "width": width, "ops": random_ops(ctx, n, width, False, kind == "relation", bool(src.get("nonnull")))}
        if rng.random() < 0.35:
            c = with_frames(ctx, c)
        return c
    kinds = ["gen", "iter", "map", "chain", "arrow", "arrow", "arrow", "select", "filter", "take"]
    kind = rng.choice([k for k in kinds if width or k != "arrow"])
    if kind == "arrow":
        sizes = random_sizes(rng)
        it = itertools.count(rng.randint(-2, 2))
        tables = [[[next(it) if j == 0 else rng.randint(-3, 3) for j in range(width)] for _ in range(s)] for s in sizes]
        src = {"kind": "arrow", "tables": tables, "how": rng.choice(["list", "list", "tuple", "gen"] + (["single"] if len(tables) == 1 else []))}
        total = sum(sizes)
        if rng.random() < 0.2:
            src["size"] = rng.choice([1, max(total - 1, 1), max(total, 1), total + 1, rng.randint(1, 6)])
        n = min(total, src.get("size") or total)
    else:
        n0 = rng.choice([0, 1, 2, 3, 5, 8, 13, 99, 100, 101]) if rng.random() < 0.4 else rng.randint(0, 10)
        vals = (lambda: rng.choice(ODD_VALUES)) if rng.random() < 0.25 else (lambda: rng.randint(-3, 3))
        rows = [[vals() for _ in range(width)] for _ in range(n0)]
        src = {"kind": kind, "rows": rows}
        if kind in ONESHOT_KINDS and rng.random() < 0.3:
            src["rel"] = True
            if width and rng.random() < 0.5:
                src["nonnull"] = True
        if kind in ("select", "filter", "take") and rng.random() < 0.3:
            src["parent"] = "gen"
        if kind == "select":
            cols = NAMES[:width] + ["z", "y"]
            src["columns"] = rng.sample(cols, rng.randint(1, len(cols))) if rng.random() < 0.5 else (rng.choice([["a"], ["b"], ["b", "a"], ["a", "b"]] if width == 2 else [["a"]]) if width else ["z"])
        elif kind == "filter":
            p = rng.choice([0.0, 0.2, 0.5, 0.8, 1.0])
            src["mask"] = [rng.random() < p for _ in range(rng.choice([n0, n0, n0, max(n0 - 1, 0), n0 + 2]))]
        elif kind == "take":
            src["indexes"] = rng.choice([[], list(range(n0)), [0], [n0 - 1, 0, 0], [n0, -1]]) if rng.random() < 0.4 else [rng.randint(-1, n0 + 1) for _ in range(rng.randint(0, n0 + 2))]
        n = n0
    c = {"src": src, "width": width, "ops": None}
    c["ops"] = random_ops(ctx, len(layout(c)[0]), width, True, src_rel(src), bool(src.get("nonnull")) and src_rel(src) and kind != "arrow")
    return c


def boundary_cases(ctx):
    """Exactly at / one past the thresholds in the source: arraysize 100 and the 10 000-row conversion batch."""
    out = []
    for n in (99, 100, 101):
        rows = [[i] for i in range(n)]
        for kind in ("rows", "gen"):
            out.append({"src": {"kind": kind, "rows": rows}, "width": 1, "ops": [["fetchmany", None], ["fetchone"], ["fetchmany", None], ["fetchall"]]})
        out.append({"src": {"kind": "arrow", "tables": [rows[:50], [], rows[50:]], "how": "list"}, "width": 1,
                    "ops": [["fetchmany", None], ["fetchmany", None], ["fetchone"]]})
    for n, a in ((101, 101), (150, 101), (150, 1000), (101, 99), (200, 150)):
        rows = [[i] for i in range(n)]
        for kind in ("rows", "gen"):
            out.append({"src": {"kind": kind, "rows": rows}, "width": 1,
                        "ops": [["arraysize", a], ["fetchmany", None], ["fetchmany", None], ["fetchone"]]})
    for n in ctx.scale((10001,), (9999, 10000, 10001)):
        rows = [[i] for i in range(n)]
        out.append({"src": {"kind": "arrow", "tables": [rows, [], rows[:3]], "how": "list"}, "width": 1,
                    "ops": [["fetchmany", 10000], ["fetchone"], ["fetchmany", 2], ["fetchall"], ["fetchone"]]})
    out.append({"src": {"kind": "arrow", "tables": [[[i] for i in range(7)]], "how": "single", "size": 3}, "width": 1,
                "ops": [["fetchmany", 2], ["fetchall"], ["fetchone"]]})
    # the falsy sizes: arraysize 0 is 0 rows (not the default), fetchmany(0) after it, and back
    for kind in ("rows", "gen"):
        for w in (0, 1):
            rows = [[i][:w] for i in range(3)]
            out.append({"src": {"kind": kind, "rows": rows}, "width": w,
                        "ops": [["arraysize", 0], ["fetchmany", None], ["fetchmany", 0], ["fetchone"], ["arraysize", 2], ["fetchmany", None], ["fetchmany", None]]})
    # the thresholds of the renderers the observers go through: display(limit=2) / str (limit 10) switch to
    # head + tail at 2 * limit + 1 rows; head() / tail() default to 5
    for n in (4, 5, 6, 20, 21, 22):
        rows = [[i, -i] for i in range(n)]
        for kind, cont in (("rows", "list"), ("rows", "tuple"), ("dicts", "list")):
            out.append({"src": {"kind": kind, "rows": rows, "container": cont}, "width": 2,
                        "ops": [["fetchone"], ["observe", "str"], ["fetchmany", 2], ["observe", "fn:ascii_table-toptail"], ["fetchone"],
                                ["observe", "display-all"], ["derive", "h", MAIN, "head"], ["derive", "t", MAIN, "tail"], ["on", "h", ["fetchall"]],
                                ["on", "t", ["append", [7, 7]]], ["fetchmany", 3], ["on", "h", ["append", [8, 8]]], ["fetchall"], ["fetchone"]]})
    # TableProfile.from_dataframe reads the frame in batches of 25 000
    for n in ctx.scale((), (24999, 25000, 25001)):
        rows = [[i] for i in range(n)]
        out.append({"src": {"kind": "rows", "rows": rows}, "width": 1,
                    "ops": [["fetchmany", 3], ["observe", "profile"], ["fetchone"], ["observe", "batches"], ["fetchmany", 25000], ["fetchone"]]})
    # k and arraysize beyond any row count
    for k in BIG_K:
        out.append({"src": {"kind": "rows", "rows": [[1], [2], [3]]}, "width": 1,
                    "ops": [["fetchmany", 1], ["arraysize", k], ["fetchmany", None], ["fetchmany", k], ["fetchone"]]})
    return out


def run(ctx):
    obs = observers()
    ctx.note("rule", "histories over the op alphabet run on DataFrame and on the Lean code machine; "
             "non-trivial = at least one row and at least two operations; distinct by canonical JSON")
    ctx.note("observers", {"members_of_DataFrame": obs.members, "recipes": len(obs.recipes),
                           "picked_up_automatically": obs.auto, "not_observers": sorted(NOT_OBSERVERS),
                           "unclassified_members_not_exercised": obs.unclassified})
    depth, nmax, kmax = ctx.scale((4, 3, 2), (5, 3, 4))
    batch = []
    total = 0

    def flush(force=False):
        nonlocal batch, total
        if batch and (force or len(batch) >= 5000):
            evaluate(ctx, batch)
            total += len(batch)
            batch = []

    for c in exhaustive_cases(ctx, depth, nmax, kmax):
        batch.append(c)
        flush()
    flush(True)
    n_eager = total
    ldepth, lnmax, lmaxlen, lkmax = ctx.scale((3, 3, 3, 2), (4, 3, 4, 3))
    for c in exhaustive_lazy(ctx, ldepth, lnmax, lmaxlen, lkmax):
        batch.append(c)
        flush()
    flush(True)
    n_lazy = total - n_eager
    sdepth, snmax = ctx.scale((3, 3), (3, 3))
    for c in exhaustive_shapes(ctx, sdepth, snmax):
        batch.append(c)
        flush()
    flush(True)
    n_shapes = total - n_eager - n_lazy
    fdepth, fnmax, fwide = ctx.scale((3, 2, False), (3, 3, False))
    for c in exhaustive_frames(ctx, fdepth, fnmax, fwide):
        batch.append(c)
        flush()
    flush(True)
    n_frames = total - n_eager - n_lazy - n_shapes
    rdepth, rnmax = ctx.scale((3, 2), (3, 3))
    for c in exhaustive_rejects(ctx, rdepth, rnmax):
        batch.append(c)
        flush()
    flush(True)
    n_rejects = total - n_eager - n_lazy - n_shapes - n_frames
    ctx.note("exhaustive_scope_rejected_appends", "operations that fail part-way: all histories of depth 1..%d over {fetchone, fetchall, fetchmany(1), "
             "append, every kind of rejected append of the frame (not a mapping, unsizable value; under a RelationSchema also wrong type, "
             "missing column, excess column, null in a non-nullable column)} containing an append, on frames of 0..%d rows: list, tuple, "
             "RelationSchema (materialised); generator, generator under a RelationSchema, from_arrow with an empty table, filter view (lazily "
             "backed); plus oversize records, two columns, iter / map / chain, and rejected appends on a lazy view of the frame (%d histories)"
             % (rdepth, rnmax, n_rejects))
    ctx.exhaustive = False
    ctx.note("exhaustive_scope", "materialised: all histories of depth 1..%d (1..4 on 3 rows) over %d operations on frames of 0..%d rows (%d histories); "
             "lazily backed: all cursor-only histories of depth 1..%d over %d operations on from_arrow frames over every list of 1..%d tables "
             "of 0..%d rows in total (empty tables anywhere), every filter mask / take set over 0..%d parent rows, generator and select "
             "(%d histories); falsy rows and containers: all histories of depth 1..%d on frames of 0..%d rows without columns (rows=, "
             "dictionaries, RelationSchema, generator, filter, select of unknown names), of rows (0,) ('',) (None,) held in a tuple / deque / "
             "re-iterable object / map / chain (%d histories); two frames: a frame of 0..%d rows, after no or one fetch, every derivation in "
             "`derivations(n)` (slice / head / tail / query / distinct / + / to_batches covering all, part, none of it) and every history of "
             "depth 1..%d of fetches and appends on either frame, and lazy views (select / filter / take) read while the parent is fetched "
             "from (%d histories); then boundaries and random"
             % (depth, len(alphabet(kmax)), nmax, n_eager, ldepth, len(lazy_alphabet(lkmax)), lmaxlen, lnmax, lnmax, n_lazy,
                sdepth, snmax, n_shapes, fnmax, fdepth, n_frames))
    evaluate(ctx, boundary_cases(ctx))
    # every observer once, between two fetches, on a frame with rows left (and with nothing left)
    sweep = []
    for label in obs.eager_labels:
        for kind in ("rows", "dicts", "relation"):
            sweep.append({"src": {"kind": kind, "rows": [[1, 2], [3, 4], [5, 6]]}, "width": 2,
                          "ops": [["fetchone"], ["observe", label], ["fetchmany", 1], ["observe", label], ["fetchall"], ["observe", label], ["fetchone"]]})
    for label in obs.pure_labels:
        sweep.append({"src": {"kind": "arrow", "tables": [[[1, 2]], [], [[3, 4], [5, 6]]], "how": "list"}, "width": 2,
                      "ops": [["observe", label], ["fetchone"], ["observe", label], ["fetchall"], ["observe", label], ["fetchone"]]})
    # …and on the frames whose rows are falsy or are not held in a list, and on a frame another frame was derived from
    for label in obs.eager_labels:
        for cont in ("tuple", "deque", "reiter"):
            sweep.append({"src": {"kind": "rows", "rows": [[0, ""], [None, ""], [5, "x"]], "container": cont}, "width": 2,
                          "ops": [["fetchone"], ["observe", label], ["fetchmany", 1], ["observe", label], ["fetchall"], ["observe", label], ["fetchone"]]})
        sweep.append({"src": {"kind": "rows", "rows": [[1, 2], [3, 4], [5, 6]]}, "width": 2,
                      "ops": [["fetchone"], ["derive", "c", MAIN, "head"], ["on", "c", ["fetchone"]], ["on", "c", ["observe", label]], ["observe", label],
                              ["on", "c", ["fetchmany", 1]], ["fetchmany", 1], ["on", "c", ["append", [7, 8]]], ["observe", label], ["fetchall"],
                              ["on", "c", ["observe", label]]]})
    for label in obs.width0_labels:
        for kind in ("rows", "dicts", "relation"):
            sweep.append({"src": {"kind": kind, "rows": [[], [], []]}, "width": 0,
                          "ops": [["fetchone"], ["observe", label], ["fetchmany", 1], ["observe", label], ["fetchall"], ["observe", label], ["fetchone"]]})
    ctx.note("observers_usable_without_columns", len(obs.width0_labels))
    evaluate(ctx, sweep)
    n_random = ctx.scale(4000, 30000)
    cases = [random_case(ctx, lazy=(i % 2 == 1)) for i in range(n_random)]
    for i in range(0, len(cases), 5000):
        evaluate(ctx, cases[i : i + 5000])


def intensify(ctx):
    cases = [random_case(ctx, lazy=(i % 2 == 1)) for i in range(20000)]
    for i in range(0, len(cases), 5000):
        evaluate(ctx, cases[i : i + 5000])


def replay(ctx, case):
    evaluate(ctx, [case])


KNOWN_PREDICATES = {}
