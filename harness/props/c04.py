"""C04 — Cursor fetches deliver every row exactly once, in order.

Correspondence: histories over {fetchone, fetchmany(k), fetchall, arraysize, observers, append} are run
on orso.DataFrame and on the *code machine* of Model/Cursor.lean (iterators, the fetchmany loop,
list(cursor); guards and fetch-size arithmetic regenerated from the source).  The property's oracle is
evaluated on the implementation's own outputs.

Frames under test (`case["src"]`):
  materialised  rows= / dictionaries / tuple schema / RelationSchema
  lazily backed a generator, an iterator, DataFrame.from_arrow over a list / tuple / generator of tables
                or a single table (tables may be empty: first, in the middle, last), converters.from_arrow
                with a max size, and the lazy results of select / filter / take (parent materialised or
                itself lazy).  Lazy frames are read only through the cursor (+ schema-level observers).

Observers are enumerated from the DataFrame class: every public member (and every read dunder) must be
covered by a recipe, be a known non-observer, or it is picked up automatically when it is a property or
a `to_*/as_*/is_*/get_*` method callable without arguments that leaves the rows alone on a scratch frame.
"""
import inspect
import itertools

from .. import wire
from ..core import InfraError, shrink

NAMES = ["a", "b"]
EAGER_KINDS = ("rows", "dicts", "tuple-schema", "relation")
LAZY_KINDS = ("gen", "iter", "arrow", "select", "filter", "take")
ARROW_HOW = ("list", "tuple", "gen", "single")

# ----------------------------------------------------------------------------- observers

# members of DataFrame that are not read-only observations (cursor API, mutators, constructors)
NOT_OBSERVERS = {"append", "fetchone", "fetchmany", "fetchall", "arraysize", "from_arrow"}
READ_DUNDERS = ("__len__", "__iter__", "__getitem__", "__hash__", "__repr__", "__str__", "__add__", "__contains__",
                "__eq__", "__bool__", "__reversed__", "__copy__", "__deepcopy__", "__sizeof__", "__format__")


def _first_col(df):
    return list(df.column_names)[:1]


def _recipes():
    """label -> (member it covers, kind, fn).  kind: 'pure' (schema only), 'rows', 'nbytes'."""
    import orso  # noqa
    from orso import DataFrame
    from orso import converters as conv
    from orso import display as disp

    R = [
        # --- the observers of round 1, in their original order (old replays address them by index)
        ("rowcount", "rowcount", "rows", lambda df: df.rowcount),
        ("len", "__len__", "rows", lambda df: len(df)),
        ("shape", "shape", "rows", lambda df: df.shape),
        ("collect", "collect", "rows", lambda df: df.collect(0) if df.columncount else None),
        ("getitem", "__getitem__", "rows", lambda df: df["a"] if df.columncount else None),
        ("iter", "__iter__", "rows", lambda df: [r for r in df]),
        ("slice", "slice", "rows", lambda df: df.slice(1, 2).rowcount),
        ("head", "head", "rows", lambda df: df.head(2).rowcount),
        ("tail", "tail", "rows", lambda df: df.tail(1).rowcount),
        ("arrow", "arrow", "rows", lambda df: df.arrow().num_rows),
        ("display", "display", "rows", lambda df: df.display(limit=2, colorize=False)),
        ("markdown", "markdown", "rows", lambda df: df.markdown(limit=2)),
        ("markdown-all", "markdown", "rows", lambda df: df.markdown(limit=0)),
        ("markdown-neg", "markdown", "rows", lambda df: df.markdown(limit=-1)),
        ("display-all", "display", "rows", lambda df: df.display(limit=0, colorize=False)),
        ("display-types", "display", "rows", lambda df: df.display(limit=1, show_types=True, colorize=True)),
        ("pandas", "pandas", "rows", lambda df: df.pandas().shape),
        ("arrow-size", "arrow", "rows", lambda df: df.arrow(size=1).num_rows),
        ("batches", "to_batches", "rows", lambda df: [b.rowcount for b in df.to_batches(2)]),
        ("filter", "filter", "rows", lambda df: df.filter([True] * df.rowcount).rowcount),
        ("take", "take", "rows", lambda df: df.take([0]).rowcount),
        ("select", "select", "rows", lambda df: df.select(_first_col(df)).rowcount),
        ("add", "__add__", "rows", lambda df: (df + df).rowcount),
        ("description", "description", "pure", lambda df: df.description),
        ("hash", "__hash__", "rows", lambda df: hash(df)),
        ("repr", "__repr__", "rows", lambda df: repr(df)),
        ("group", "group_by", "rows", lambda df: df.group_by(_first_col(df)).count().rowcount if df.columncount else None),
        ("str", "__str__", "rows", lambda df: str(df)),
        ("row", "row", "rows", lambda df: df.row(0) if df.rowcount else None),
        ("column_names", "column_names", "pure", lambda df: df.column_names),
        ("nbytes", "nbytes", "nbytes", lambda df: df.nbytes()),
        ("distinct", "distinct", "rows", lambda df: df.distinct().rowcount),
        ("query", "query", "rows", lambda df: df.query(lambda r: True).rowcount),
        # --- round 2: the members that had no recipe
        ("columncount", "columncount", "pure", lambda df: df.columncount),
        ("schema", "schema", "pure", lambda df: df.schema),
        ("arraysize-get", "arraysize", "pure", lambda df: df.arraysize),
        ("materialize", "materialize", "rows", lambda df: df.materialize()),
        ("profile", "profile", "rows", lambda df: df.profile),
        ("polars", "polars", "rows", lambda df: _polars(df)),
        ("collect-list", "collect", "rows", lambda df: df.collect(list(range(df.columncount)), limit=1)),
        ("collect-neg", "collect", "rows", lambda df: df.collect(0, limit=-5) if df.columncount else None),
        ("getitem-list", "__getitem__", "rows", lambda df: df[list(df.column_names)]),
        ("slice-neg", "slice", "rows", lambda df: df.slice(-2).rowcount),
        ("slice-zero", "slice", "rows", lambda df: df.slice(0, 0).rowcount),
        ("head-0", "head", "rows", lambda df: df.head(0).rowcount),
        ("tail-all", "tail", "rows", lambda df: df.tail(10**6).rowcount),
        ("pandas-size", "pandas", "rows", lambda df: df.pandas(size=1).shape),
        ("batches-1", "to_batches", "rows", lambda df: [b.rowcount for b in df.to_batches(1)]),
        ("group-max", "group_by", "rows", lambda df: df.group_by(_first_col(df)).max(list(df.column_names)[-1:]).rowcount if df.columncount else None),
        ("display-wide", "display", "rows", lambda df: df.display(limit=10**6, display_width=False, max_column_width=3, colorize=False)),
        ("markdown-big", "markdown", "rows", lambda df: df.markdown(limit=10**6, max_column_width=1)),
        # --- the module-level functions a frame can be handed to
        ("fn:ascii_table", "display", "rows", lambda df: disp.ascii_table(df, limit=3, colorize=False)),
        ("fn:ascii_table-toptail", "__str__", "rows", lambda df: disp.ascii_table(df, limit=2, top_and_tail=True, colorize=False)),
        ("fn:markdown-all", "markdown", "rows", lambda df: list(disp.markdown(df, limit=0))),
        ("fn:html_table", "__str__", "rows", lambda df: disp.html_table(df, 2)),
        ("fn:to_arrow", "arrow", "rows", lambda df: conv.to_arrow(df).num_rows),
        ("fn:to_pandas", "pandas", "rows", lambda df: conv.to_pandas(df, 2).shape),
        # --- a second object made from the frame is read through *its* cursor: the parent's must not move
        ("child:slice-fetchall", "slice", "rows", lambda df: df.slice(0).fetchall()),
        ("child:head-fetchone", "head", "rows", lambda df: df.head(10**6).fetchone()),
        ("child:tail-fetchmany", "tail", "rows", lambda df: df.tail(10**6).fetchmany(2)),
        ("child:query-fetchall", "query", "rows", lambda df: df.query(lambda r: True).fetchall()),
        ("child:distinct-fetchmany", "distinct", "rows", lambda df: df.distinct().fetchmany()),
        ("child:select-fetchall", "select", "rows", lambda df: df.select(list(df.column_names)).fetchall()),
        ("child:filter-fetchone", "filter", "rows", lambda df: df.filter([True] * df.rowcount).fetchone()),
        ("child:take-fetchall", "take", "rows", lambda df: df.take(range(df.rowcount)).fetchall()),
        ("child:add-fetchall", "__add__", "rows", lambda df: (df + df).fetchall()),
        ("child:batches-fetch", "to_batches", "rows", lambda df: [b.fetchall() for b in df.to_batches(2)]),
        ("child:arrow-roundtrip", "arrow", "rows", lambda df: DataFrame.from_arrow(df.arrow()).fetchall() if df.columncount else None),
        ("iter-partial", "__iter__", "rows", lambda df: next(iter(df), None)),
        ("iter-twice", "__iter__", "rows", lambda df: [list(zip(df, df))]),
    ]
    return R


def _polars(df):
    # to_polars reads `row.as_dict`: it only works on frames whose rows are Row objects (dictionary-built
    # or appended); on plain tuples it raises whatever the cursor has done — not this property's business
    if all(hasattr(r, "as_dict") for r in (df._rows if isinstance(df._rows, list) else [])):
        return df.polars().shape
    return None


class Observers:
    def __init__(self):
        from orso import DataFrame

        self.recipes = _recipes()
        self.legacy = [r[0] for r in self.recipes[:33]]
        self.by_label = {r[0]: r for r in self.recipes}
        covered = {r[1] for r in self.recipes}
        members = [n for n, _ in inspect.getmembers(DataFrame) if not n.startswith("_")]
        members += [n for n in DataFrame.__dict__ if n in READ_DUNDERS or (n.startswith("__") and n not in (
            "__init__", "__new__", "__slots__", "__module__", "__doc__", "__qualname__", "__dict__", "__weakref__",
            "__annotations__", "__firstlineno__", "__static_attributes__") and callable(DataFrame.__dict__[n]))]
        self.members = sorted(set(members))
        self.auto, self.unclassified = [], []
        for name in self.members:
            if name in covered or name in NOT_OBSERVERS or name in DataFrame.__slots__:
                continue
            fn = self._auto(DataFrame, name)
            if fn is None:
                self.unclassified.append(name)
                continue
            label = "auto:" + name
            rec = (label, name, "rows", fn)
            self.recipes.append(rec)
            self.by_label[label] = rec
            self.auto.append(name)
        self.eager_labels = [r[0] for r in self.recipes]
        self.pure_labels = [r[0] for r in self.recipes if r[2] == "pure"]

    @staticmethod
    def _auto(DataFrame, name):
        """A recipe for a member nobody wrote one for — only when it looks like a read-only observation."""
        attr = inspect.getattr_static(DataFrame, name)
        if isinstance(attr, property):
            fn = lambda df, name=name: getattr(df, name)  # noqa: E731
        elif inspect.isfunction(attr) and name.startswith(("to_", "as_", "is_", "get_", "has_")):
            params = list(inspect.signature(attr).parameters.values())[1:]
            if any(p.default is inspect.Parameter.empty and p.kind in (p.POSITIONAL_ONLY, p.POSITIONAL_OR_KEYWORD, p.KEYWORD_ONLY) for p in params):
                return None

            def fn(df, name=name):
                v = getattr(df, name)()
                return list(v) if inspect.isgenerator(v) else v
        else:
            return None
        for rows in ([(1, 2), (3, 4), (5, 6)], []):
            try:
                df = DataFrame(rows=list(rows), schema=list(NAMES))
                fn(df)
                if not isinstance(df._rows, list) or [tuple(r) for r in df._rows] != rows:
                    return None  # it changes the rows: not a read-only observation
            except Exception:
                return None  # it does not work on a plain frame: other properties' business
        return fn

    def get(self, ref):
        if isinstance(ref, int):  # round-1 replays
            return self.by_label[self.legacy[ref % len(self.legacy)]]
        if ref not in self.by_label:
            raise InfraError("unknown observer %r (a replay of an automatically enumerated member that is gone?)" % (ref,))
        return self.by_label[ref]


OBS = None


def observers():
    global OBS
    if OBS is None:
        OBS = Observers()
    return OBS


# ----------------------------------------------------------------------------- cases


def norm_case(case):
    """Round-1 cases ({"rows", "ctor", "lazy": true}) in the round-2 shape."""
    if "src" in case:
        return case
    c = {"width": case["width"], "ops": case["ops"]}
    if case.get("lazy"):
        c["src"] = {"kind": "gen", "rows": case["rows"]}
    else:
        c["src"] = {"kind": case.get("ctor", "rows"), "rows": case["rows"]}
    if "arraysize0" in case:
        c["arraysize0"] = case["arraysize0"]
    return c


def is_lazy(case):
    return case["src"]["kind"] in LAZY_KINDS


def _project(src, width):
    names = NAMES[:width]
    cols = [c for c in src["columns"] if c in names]
    return cols, [names.index(c) for c in cols]


def layout(case):
    """(frame rows, tables for the model, max size) — what the frame under test holds, computed here."""
    src, w = case["src"], case["width"]
    k = src["kind"]
    if "_twin" in case:  # see reference_rows
        return case["_twin"], [[r] for r in case["_twin"]], None
    if k in EAGER_KINDS or k in ("gen", "iter"):
        rows = [list(r) for r in src["rows"]]
        return rows, [rows], None
    if k == "arrow":
        tables = [[list(r) for r in t] for t in src["tables"]]
        rows = [r for t in tables for r in t]
        size = src.get("size")
        return (rows if size is None else rows[:size]), tables, size
    parent = [list(r) for r in src["rows"]]
    if k == "select":
        _, idx = _project(src, w)
        tables = [[[r[i] for i in idx]] for r in parent]
    elif k == "filter":
        tables = [[r] if m else [] for r, m in zip(parent, src["mask"])]
    elif k == "take":
        tables = [[r] if i in src["indexes"] else [] for i, r in enumerate(parent)]
    else:
        raise InfraError("bad source kind %r" % (k,))
    return [r for t in tables for r in t], tables, None


_TABLE_CACHE = {}


def _arrow_table(rows, width):
    import pyarrow

    key = (width, tuple(tuple(r) for r in rows))
    t = _TABLE_CACHE.get(key)
    if t is None:
        t = pyarrow.table({n: pyarrow.array([r[i] for r in rows], pyarrow.int64()) for i, n in enumerate(NAMES[:width])})
        if len(_TABLE_CACHE) < 5000:
            _TABLE_CACHE[key] = t
    return t


def build(case):
    """The frame under test."""
    from orso import DataFrame

    src, w = case["src"], case["width"]
    k = src["kind"]
    names = NAMES[:w]
    rows = [tuple(r) for r in src.get("rows", [])]
    if k == "rows":
        return DataFrame(rows=list(rows), schema=list(names))
    if k == "dicts":
        return DataFrame([dict(zip(names, r)) for r in rows])  # the running byte total is not kept yet
    if k == "tuple-schema":
        return DataFrame(rows=list(rows), schema=tuple(names))
    if k == "relation":
        from orso.schema import FlatColumn, RelationSchema
        from orso.types import OrsoTypes

        sch = RelationSchema(name="t", columns=[FlatColumn(name=n, type=OrsoTypes.INTEGER) for n in names])
        return DataFrame(rows=list(rows), schema=sch)
    if k == "gen":
        return DataFrame(rows=(r for r in rows), schema=list(names))
    if k == "iter":
        return DataFrame(rows=iter(list(rows)), schema=list(names))
    if k == "arrow":
        tabs = [_arrow_table(t, w) for t in src["tables"]]
        how = src.get("how", "list")
        arg = {"list": lambda: list(tabs), "tuple": lambda: tuple(tabs), "gen": lambda: (t for t in tabs), "single": lambda: tabs[0]}[how]()
        if src.get("size") is None:
            return DataFrame.from_arrow(arg)
        from orso.converters import from_arrow

        it, schema = from_arrow(arg, size=src["size"])
        return DataFrame(rows=it, schema=schema)
    if src.get("parent") == "gen":
        parent = DataFrame(rows=(r for r in rows), schema=list(names))
    else:
        parent = DataFrame(rows=list(rows), schema=list(names))
    if k == "select":
        return parent.select(list(src["columns"]))
    if k == "filter":
        return parent.filter(list(src["mask"]))
    if k == "take":
        return parent.take(list(src["indexes"]))
    raise InfraError("bad source kind %r" % (k,))


def reference_rows(ctx, case):
    """For select / filter / take the rows of the frame are whatever the operation selects — C03/C05's
    business, not this property's.  A twin frame is materialised by iteration; if it holds other rows than
    this harness expects, the twin's rows are the reference (and the fact is counted)."""
    if case["src"]["kind"] not in ("select", "filter", "take"):
        return case
    try:
        twin = [_row(r) for r in build(case)]
    except Exception:
        return case
    if twin != layout(case)[0]:
        ctx.hit("derived-frame:rows-differ-from-harness-expectation")
        return dict(case, _twin=twin)
    return case


def _py(v):
    return v.item() if hasattr(v, "item") and not isinstance(v, (int, float, str)) else v


def _row(r):
    return [_py(v) for v in r]


def run_impl(case):
    """Run a history on the real DataFrame. Returns (outs, final rows of a materialised frame or None)."""
    obs = observers()
    df = build(case)
    rel = case["src"]["kind"] == "relation"
    names = NAMES[: case["width"]]
    outs = []
    for op in case["ops"]:
        k = op[0]
        try:
            if k == "fetchone":
                r = df.fetchone()
                outs.append(["one", None if r is None else _row(r)])
            elif k == "fetchmany":
                rs = df.fetchmany() if op[1] is None else df.fetchmany(op[1])
                outs.append(["many", [_row(r) for r in rs]])
            elif k == "fetchall":
                outs.append(["many", [_row(r) for r in df.fetchall()]])
            elif k == "arraysize":
                df.arraysize = op[1]
                outs.append(["unit"])
            elif k == "observe":
                obs.get(op[1])[3](df)
                outs.append(["unit"])
            elif k == "append":
                df.append(dict(zip(names, op[1])) if rel else tuple(op[1]))
                outs.append(["unit"])
            else:
                raise InfraError("bad op " + repr(op))
        except InfraError:
            raise
        except Exception as e:  # the fetch calls refuse after an append
            if k in ("fetchone", "fetchmany", "fetchall"):
                outs.append(["err"])
            else:
                outs.append(["raised", type(e).__name__, k if k != "observe" else obs.get(op[1])[0]])
    final_rows = None
    if not is_lazy(case):
        final_rows = [_row(r) for r in df._rows] if isinstance(df._rows, list) else None
    return outs, final_rows


def model_line(case):
    obs = observers()
    ops = []
    for op in case["ops"]:
        if op[0] == "observe":
            ops.append(["observe", obs.get(op[1])[2]])
        else:
            ops.append(list(op))
    rows, tables, size = layout(case)
    k = case["src"]["kind"]
    if is_lazy(case):
        frame = ["lazy", tables, size, k == "arrow"]
    else:
        frame = ["eager", rows, k == "dicts", k == "relation"]
    return "C04 frame " + wire.line(case.get("arraysize0", 100), frame, ops)


def oracle(case, outs, final_rows):
    """The property, evaluated directly on the implementation's outputs. Returns clause or None."""
    rows = layout(case)[0]
    delivered = []
    arraysize = case.get("arraysize0", 100)
    appended = False
    extra = []
    for op, out in zip(case["ops"], outs):
        k = op[0]
        if out[0] == "raised":
            return "operation %s raised %s" % (out[2], out[1])
        if k == "arraysize":
            arraysize = op[1]
        if k == "append":
            appended = True
            extra.append(list(op[1]))
        remaining = len(rows) - len(delivered)
        if k in ("fetchone", "fetchmany", "fetchall"):
            if appended:
                if out[0] != "err":
                    return "fetch after append did not refuse"
                continue
            if out[0] == "err":
                return "fetch raised without an append"
            if k == "fetchone":
                if remaining == 0 and out[1] is not None:
                    return "fetchone after exhaustion is not None"
                if remaining > 0 and out[1] is None:
                    return "fetchone returned None with rows remaining"
                if out[1] is not None:
                    delivered.append(out[1])
            elif k == "fetchmany":
                want = min(arraysize if op[1] is None else op[1], remaining)
                if len(out[1]) != want:
                    return "fetchmany returned %d rows, min(k, remaining) is %d" % (len(out[1]), want)
                delivered.extend(out[1])
            else:
                if len(out[1]) != remaining:
                    return "fetchall returned %d rows with %d remaining" % (len(out[1]), remaining)
                delivered.extend(out[1])
            if delivered != rows[: len(delivered)]:
                return "delivered rows are not a prefix of the frame"
    if final_rows is not None and final_rows != rows + extra:
        return "frame rows changed other than by append"
    return None


def _norm(clause):
    return None if clause is None else "".join(ch for ch in clause if not ch.isdigit())


def _rows_ok(rows, w):
    return isinstance(rows, list) and all(isinstance(r, list) and len(r) == w for r in rows)


def valid_case(c):
    w = c.get("width")
    src = c.get("src")
    if w not in (1, 2) or not isinstance(c.get("ops"), list) or not c["ops"] or not isinstance(src, dict):
        return False
    k = src.get("kind")
    if k in EAGER_KINDS or k in ("gen", "iter"):
        if not _rows_ok(src.get("rows"), w) or (k == "dicts" and not src["rows"]):
            return False
    elif k == "arrow":
        ts = src.get("tables")
        if not isinstance(ts, list) or not ts or not all(_rows_ok(t, w) for t in ts):
            return False
        if any(not isinstance(v, int) or isinstance(v, bool) for t in ts for r in t for v in r):
            return False
        if src.get("how", "list") not in ARROW_HOW or (src.get("how") == "single" and len(ts) != 1):
            return False
        if src.get("size") is not None and (not isinstance(src["size"], int) or src["size"] < 1):
            return False
    elif k in ("select", "filter", "take"):
        if not _rows_ok(src.get("rows"), w) or src.get("parent", "rows") not in ("rows", "gen"):
            return False
        if k == "select" and (not isinstance(src.get("columns"), list) or not src["columns"]
                              or any(x not in NAMES[:w] for x in src["columns"]) or len(set(src["columns"])) != len(src["columns"])):
            return False
        if k == "filter" and (not isinstance(src.get("mask"), list) or any(not isinstance(m, bool) for m in src["mask"])):
            return False
        if k == "take" and (not isinstance(src.get("indexes"), list) or any(not isinstance(m, int) or isinstance(m, bool) for m in src["indexes"])):
            return False
    else:
        return False
    lazy = k in LAZY_KINDS
    obs = observers()
    for op in c["ops"]:
        if not isinstance(op, list) or not op:
            return False
        if op[0] == "append" and (lazy or len(op) != 2 or not isinstance(op[1], list) or len(op[1]) != w):
            return False
        if op[0] in ("fetchmany", "arraysize", "observe") and len(op) != 2:
            return False
        if op[0] == "arraysize" and (not isinstance(op[1], int) or op[1] < 0):
            return False
        if op[0] == "fetchmany" and op[1] is not None and (not isinstance(op[1], int) or isinstance(op[1], bool) or op[1] < 0):
            return False
        if op[0] == "observe":
            if isinstance(op[1], int) and not isinstance(op[1], bool):
                if lazy:
                    return False
            elif op[1] not in obs.by_label or (lazy and obs.by_label[op[1]][2] != "pure"):
                return False
        if op[0] in ("fetchone", "fetchall") and len(op) != 1:
            return False
        if op[0] not in ("fetchone", "fetchall", "fetchmany", "arraysize", "observe", "append"):
            return False
    return True


def _features(ctx, c):
    src = c["src"]
    k = src["kind"]
    ctx.hit("src:" + k + (":" + src.get("how", "list") if k == "arrow" else "") + (":parent-" + src.get("parent", "rows") if k in ("select", "filter", "take") else ""))
    rows, tables, size = layout(c)
    ctx.hit("rows:%s" % (len(rows) if len(rows) < 9 else ("9-98" if len(rows) < 99 else ("99-101" if len(rows) <= 101 else ("102-9998" if len(rows) < 9999 else "9999+")))))
    ctx.hit("lazy" if is_lazy(c) else "eager")
    if is_lazy(c) and k not in ("gen", "iter"):
        sizes = [len(t) for t in tables]
        if sizes and sizes[0] == 0:
            ctx.hit("chunks:empty-first")
        if any(s == 0 for s in sizes[1:-1]):
            ctx.hit("chunks:empty-middle")
        if len(sizes) > 1 and sizes[-1] == 0:
            ctx.hit("chunks:empty-last")
        if sizes and all(s == 0 for s in sizes):
            ctx.hit("chunks:all-empty")
        if any(a == 0 and b == 0 for a, b in zip(sizes, sizes[1:])):
            ctx.hit("chunks:two-empty-in-a-row")
        ctx.hit("chunks:n=%s" % (len(sizes) if len(sizes) < 6 else "6+"))
        if size is not None:
            ctx.hit("arrow:max_size" + ("<rows" if size < sum(sizes) else "=rows" if size == sum(sizes) else ">rows"))
    for op in c["ops"]:
        ctx.hit("op:" + op[0])
        if op[0] == "observe":
            ctx.hit("obs:" + observers().get(op[1])[0])
        if op[0] == "fetchmany":
            ctx.hit("fetchmany:" + ("omitted" if op[1] is None else "0" if op[1] == 0 else "k"))


def evaluate(ctx, cases):
    cases = [norm_case(c) for c in cases]
    for c in cases:
        if not valid_case(c):
            raise InfraError("generator produced an invalid case: %r" % (c,))
    cases = [reference_rows(ctx, c) for c in cases]
    lines = [model_line(c) for c in cases]
    mouts = ctx.model.batch(lines)
    for c, mo in zip(cases, mouts):
        outs, final_rows = run_impl(c)
        rows = layout(c)[0]
        nontrivial = len(c["ops"]) >= 2 and len(rows) >= 1
        ctx.case(c, nontrivial)
        _features(ctx, c)
        clause = oracle(c, outs, final_rows)
        if not mo.startswith("ok "):
            raise InfraError("model rejected case %r: %r" % (c, mo))
        m = wire.dec_all(mo[3:])
        # m = [code machine outs, its store, live, spec machine outs, spec rows, frame rows]
        if m[5] != rows:
            raise InfraError("the model and the harness disagree about the rows of the frame: %r" % (c,))
        if m[0] != m[3]:
            ctx.hit("model:code-machine-differs-from-spec-machine")
        if clause is not None:
            seen = ctx.__dict__.setdefault("_c04_seen_clauses", set())
            if _norm(clause) in seen:  # this kind of failure has its minimal replay already
                ctx.hit("violation-dup:" + _norm(clause))
                continue
            seen.add(_norm(clause))

            def still(c2):
                if not valid_case(c2):
                    return False
                c2 = reference_rows(ctx, {k_: v_ for k_, v_ in c2.items() if k_ != "_twin"})
                try:
                    o2, f2 = run_impl(c2)
                    return _norm(oracle(c2, o2, f2)) == _norm(clause)
                except InfraError:
                    raise
                except Exception:
                    return False
            c_min = shrink(c, still, budget=1500) if not ctx.replaying else c
            o2, f2 = run_impl(c_min)
            ctx.fail(c_min, oracle(c_min, o2, f2) or clause, impl=o2, model=m[0] if c_min is c else None)
        elif m[0] != outs or (final_rows is not None and m[1] != final_rows):
            ctx.disagree(c, {"outs": outs, "rows": final_rows}, {"outs": m[0], "rows": m[1]})


# ----------------------------------------------------------------------------- generators


def alphabet(kmax):
    ops = [["fetchone"], ["fetchall"], ["fetchmany", None], ["observe", 0], ["arraysize", 1], ["arraysize", 3], ["append", [9]]]
    ops += [["fetchmany", k] for k in range(kmax + 1)]
    return ops


def exhaustive_cases(ctx, depth, nmax, kmax):
    alpha = alphabet(kmax)
    labels = observers().eager_labels
    obs_i = 0
    for n in range(nmax + 1):
        rows = [[i] for i in range(n)]
        for d in range(1, depth + 1):
            for hist in itertools.product(alpha, repeat=d):
                ops = []
                for op in hist:
                    if op[0] == "observe":
                        ops.append(["observe", labels[obs_i % len(labels)]])
                        obs_i += 1
                    else:
                        ops.append(op)
                yield {"src": {"kind": "rows", "rows": rows}, "width": 1, "ops": ops}
                if n and any(o[0] == "append" for o in ops):
                    # the frame built from dictionaries keeps no byte total until nbytes() is called
                    yield {"src": {"kind": "dicts", "rows": rows}, "width": 1, "ops": ops}


def compositions(nmax, maxlen):
    """All lists of chunk sizes (0 allowed) of length 1..maxlen with sum <= nmax."""
    out = []
    for ln in range(1, maxlen + 1):
        for sizes in itertools.product(range(nmax + 1), repeat=ln):
            if sum(sizes) <= nmax:
                out.append(list(sizes))
    return out


def lazy_alphabet(kmax):
    return [["fetchone"], ["fetchall"], ["fetchmany", None], ["arraysize", 1]] + [["fetchmany", k] for k in range(kmax + 1)]


def _tables_from(sizes):
    it = itertools.count()
    return [[[next(it)] for _ in range(s)] for s in sizes]


def exhaustive_lazy(ctx, depth, nmax, maxlen, kmax):
    alpha = lazy_alphabet(kmax)
    hists = [list(h) for d in range(1, depth + 1) for h in itertools.product(alpha, repeat=d)]
    for sizes in compositions(nmax, maxlen):
        tables = _tables_from(sizes)
        for h in hists:
            yield {"src": {"kind": "arrow", "tables": tables, "how": "list"}, "width": 1, "ops": h}
    # every mask over 0..nmax parent rows for filter / take, every history
    for n in range(nmax + 1):
        parent = [[i] for i in range(n)]
        for mask in itertools.product([False, True], repeat=n):
            for h in hists:
                yield {"src": {"kind": "filter", "rows": parent, "mask": list(mask)}, "width": 1, "ops": h}
                yield {"src": {"kind": "take", "rows": parent, "indexes": [i for i, m in enumerate(mask) if m]}, "width": 1, "ops": h}
        for h in hists:
            yield {"src": {"kind": "gen", "rows": parent}, "width": 1, "ops": h}
            yield {"src": {"kind": "select", "rows": parent, "columns": ["a"]}, "width": 1, "ops": h}


ODD_VALUES = [None, "é", 2**70, 1.5, "", -1]


def random_ops(ctx, n, width, lazy):
    rng = ctx.rng
    obs = observers()
    ops = []
    for _ in range(rng.randint(1, 14)):
        r = rng.random()
        if r < 0.2:
            ops.append(["fetchone"])
        elif r < 0.5:
            ops.append(["fetchmany", rng.choice([None, 0, 1, 2, 3, n, n + 1, max(n - 1, 0), rng.randint(0, 20)])])
        elif r < 0.58:
            ops.append(["fetchall"])
        elif r < 0.7:
            ops.append(["arraysize", rng.choice([0, 1, 2, 5, 99, 100, 101, 1000])])
        elif r < 0.93:
            ops.append(["observe", rng.choice(obs.pure_labels if lazy else obs.eager_labels)])
        elif not lazy:
            ops.append(["append", [rng.randint(-3, 3) for _ in range(width)]])
    return ops or [["fetchone"]]


def random_sizes(rng):
    """Chunk sizes with empty tables at the start, in the middle and at the end."""
    ln = rng.choice([1, 2, 3, 3, 4, 5, 8])
    sizes = [rng.choice([0, 0, 1, 2, 3, 5]) for _ in range(ln)]
    r = rng.random()
    if r < 0.25 and ln >= 3:
        sizes[rng.randrange(1, ln - 1)] = 0
        sizes[0] = sizes[0] or 2
        sizes[-1] = sizes[-1] or 3
    elif r < 0.4:
        sizes[0] = 0
    elif r < 0.55:
        sizes[-1] = 0
    return sizes


def random_case(ctx, lazy=False):
    rng = ctx.rng
    width = rng.choice([1, 2])
    if not lazy:
        n = rng.choice([0, 1, 2, 3, 5, 8, 13, 40, 99, 100, 101, 150]) if rng.random() < 0.5 else rng.randint(0, 12)
        rows = [[rng.randint(-3, 3) for _ in range(width)] for _ in range(n)]
        kind = "rows"
        if rng.random() < 0.4:
            kind = rng.choice(["dicts", "tuple-schema", "relation"])
            if kind == "dicts" and not rows:
                kind = "rows"
        return {"src": {"kind": kind, "rows": rows}, "width": width, "ops": random_ops(ctx, n, width, False)}
    kind = rng.choice(["gen", "iter", "arrow", "arrow", "arrow", "select", "filter", "take"])
    if kind == "arrow":
        sizes = random_sizes(rng)
        it = itertools.count(rng.randint(-2, 2))
        tables = [[[next(it) if j == 0 else rng.randint(-3, 3) for j in range(width)] for _ in range(s)] for s in sizes]
        src = {"kind": "arrow", "tables": tables, "how": rng.choice(["list", "list", "tuple", "gen"] + (["single"] if len(tables) == 1 else []))}
        total = sum(sizes)
        if rng.random() < 0.2:
            src["size"] = rng.choice([1, max(total - 1, 1), max(total, 1), total + 1, rng.randint(1, 6)])
        n = min(total, src.get("size") or total)
    else:
        n0 = rng.choice([0, 1, 2, 3, 5, 8, 13, 99, 100, 101]) if rng.random() < 0.4 else rng.randint(0, 10)
        vals = (lambda: rng.choice(ODD_VALUES)) if rng.random() < 0.2 else (lambda: rng.randint(-3, 3))
        rows = [[vals() for _ in range(width)] for _ in range(n0)]
        src = {"kind": kind, "rows": rows}
        if kind in ("select", "filter", "take") and rng.random() < 0.3:
            src["parent"] = "gen"
        if kind == "select":
            src["columns"] = rng.choice([["a"], ["b"], ["b", "a"], ["a", "b"]] if width == 2 else [["a"]])
        elif kind == "filter":
            p = rng.choice([0.0, 0.2, 0.5, 0.8, 1.0])
            src["mask"] = [rng.random() < p for _ in range(rng.choice([n0, n0, n0, max(n0 - 1, 0), n0 + 2]))]
        elif kind == "take":
            src["indexes"] = rng.choice([[], list(range(n0)), [0], [n0 - 1, 0, 0], [n0, -1]]) if rng.random() < 0.4 else [rng.randint(-1, n0 + 1) for _ in range(rng.randint(0, n0 + 2))]
        n = n0
    c = {"src": src, "width": width, "ops": None}
    c["ops"] = random_ops(ctx, len(layout(c)[0]), width, True)
    return c


def boundary_cases(ctx):
    """Exactly at / one past the thresholds in the source: arraysize 100 and the 10 000-row conversion batch."""
    out = []
    for n in (99, 100, 101):
        rows = [[i] for i in range(n)]
        for kind in ("rows", "gen"):
            out.append({"src": {"kind": kind, "rows": rows}, "width": 1, "ops": [["fetchmany", None], ["fetchone"], ["fetchmany", None], ["fetchall"]]})
        out.append({"src": {"kind": "arrow", "tables": [rows[:50], [], rows[50:]], "how": "list"}, "width": 1,
                    "ops": [["fetchmany", None], ["fetchmany", None], ["fetchone"]]})
    for n, a in ((101, 101), (150, 101), (150, 1000), (101, 99), (200, 150)):
        rows = [[i] for i in range(n)]
        for kind in ("rows", "gen"):
            out.append({"src": {"kind": kind, "rows": rows}, "width": 1,
                        "ops": [["arraysize", a], ["fetchmany", None], ["fetchmany", None], ["fetchone"]]})
    for n in ctx.scale((10001,), (9999, 10000, 10001)):
        rows = [[i] for i in range(n)]
        out.append({"src": {"kind": "arrow", "tables": [rows, [], rows[:3]], "how": "list"}, "width": 1,
                    "ops": [["fetchmany", 10000], ["fetchone"], ["fetchmany", 2], ["fetchall"], ["fetchone"]]})
    out.append({"src": {"kind": "arrow", "tables": [[[i] for i in range(7)]], "how": "single", "size": 3}, "width": 1,
                "ops": [["fetchmany", 2], ["fetchall"], ["fetchone"]]})
    return out


def run(ctx):
    obs = observers()
    ctx.note("rule", "histories over the op alphabet run on DataFrame and on the Lean code machine; "
             "non-trivial = at least one row and at least two operations; distinct by canonical JSON")
    ctx.note("observers", {"members_of_DataFrame": obs.members, "recipes": len(obs.recipes),
                           "picked_up_automatically": obs.auto, "not_observers": sorted(NOT_OBSERVERS),
                           "unclassified_members_not_exercised": obs.unclassified})
    depth, nmax, kmax = ctx.scale((4, 3, 2), (5, 3, 4))
    batch = []
    total = 0

    def flush(force=False):
        nonlocal batch, total
        if batch and (force or len(batch) >= 5000):
            evaluate(ctx, batch)
            total += len(batch)
            batch = []

    for c in exhaustive_cases(ctx, depth, nmax, kmax):
        batch.append(c)
        flush()
    flush(True)
    n_eager = total
    ldepth, lnmax, lmaxlen, lkmax = ctx.scale((3, 3, 3, 2), (4, 3, 4, 3))
    for c in exhaustive_lazy(ctx, ldepth, lnmax, lmaxlen, lkmax):
        batch.append(c)
        flush()
    flush(True)
    ctx.exhaustive = False
    ctx.note("exhaustive_scope", "materialised: all histories of depth 1..%d over %d operations on frames of 0..%d rows (%d histories); "
             "lazily backed: all cursor-only histories of depth 1..%d over %d operations on from_arrow frames over every list of 1..%d tables "
             "of 0..%d rows in total (empty tables anywhere), every filter mask / take set over 0..%d parent rows, generator and select "
             "(%d histories); then boundaries and random"
             % (depth, len(alphabet(kmax)), nmax, n_eager, ldepth, len(lazy_alphabet(lkmax)), lmaxlen, lnmax, lnmax, total - n_eager))
    evaluate(ctx, boundary_cases(ctx))
    # every observer once, between two fetches, on a frame with rows left (and with nothing left)
    sweep = []
    for label in obs.eager_labels:
        for kind in ("rows", "dicts", "relation"):
            sweep.append({"src": {"kind": kind, "rows": [[1, 2], [3, 4], [5, 6]]}, "width": 2,
                          "ops": [["fetchone"], ["observe", label], ["fetchmany", 1], ["observe", label], ["fetchall"], ["observe", label], ["fetchone"]]})
    for label in obs.pure_labels:
        sweep.append({"src": {"kind": "arrow", "tables": [[[1, 2]], [], [[3, 4], [5, 6]]], "how": "list"}, "width": 2,
                      "ops": [["observe", label], ["fetchone"], ["observe", label], ["fetchall"], ["observe", label], ["fetchone"]]})
    evaluate(ctx, sweep)
    n_random = ctx.scale(4000, 40000)
    cases = [random_case(ctx, lazy=(i % 2 == 1)) for i in range(n_random)]
    for i in range(0, len(cases), 5000):
        evaluate(ctx, cases[i : i + 5000])


def intensify(ctx):
    cases = [random_case(ctx, lazy=(i % 2 == 1)) for i in range(20000)]
    for i in range(0, len(cases), 5000):
        evaluate(ctx, cases[i : i + 5000])


def replay(ctx, case):
    evaluate(ctx, [case])


KNOWN_PREDICATES = {}
