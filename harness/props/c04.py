"""C04 — Cursor fetches deliver every row exactly once, in order.

Correspondence: histories over {fetchone, fetchmany(k), fetchall, arraysize, observers,
append} are run on orso.DataFrame and on Model/Cursor.lean; outputs are compared and the
property's oracle is evaluated on the implementation's own outputs.
"""
import itertools

from .. import wire
from ..core import InfraError, shrink


def _observers():
    import orso  # noqa

    return [
        ("rowcount", lambda df: df.rowcount),
        ("len", lambda df: len(df)),
        ("shape", lambda df: df.shape),
        ("collect", lambda df: df.collect(0) if df.columncount else None),
        ("getitem", lambda df: df["a"] if df.columncount else None),
        ("iter", lambda df: [r for r in df]),
        ("slice", lambda df: df.slice(1, 2).rowcount),
        ("head", lambda df: df.head(2).rowcount),
        ("tail", lambda df: df.tail(1).rowcount),
        ("arrow", lambda df: df.arrow().num_rows),
        ("display", lambda df: df.display(limit=2, colorize=False)),
        ("markdown", lambda df: df.markdown(limit=2)),
        ("markdown-all", lambda df: df.markdown(limit=0)),
        ("markdown-neg", lambda df: df.markdown(limit=-1)),
        ("display-all", lambda df: df.display(limit=0, colorize=False)),
        ("display-types", lambda df: df.display(limit=1, show_types=True, colorize=True)),
        ("pandas", lambda df: df.pandas().shape),
        ("arrow-size", lambda df: df.arrow(size=1).num_rows),
        ("batches", lambda df: [b.rowcount for b in df.to_batches(2)]),
        ("filter", lambda df: df.filter([True] * df.rowcount).rowcount),
        ("take", lambda df: df.take([0]).rowcount),
        ("select", lambda df: df.select(list(df.column_names)[:1]).rowcount),
        ("add", lambda df: (df + df).rowcount),
        ("description", lambda df: df.description),
        ("hash", lambda df: hash(df)),
        ("repr", lambda df: repr(df)),
        ("group", lambda df: df.group_by(list(df.column_names)[:1]).count().rowcount if df.columncount else None),
        ("str", lambda df: str(df)),
        ("row", lambda df: df.row(0) if df.rowcount else None),
        ("column_names", lambda df: df.column_names),
        ("nbytes", lambda df: df.nbytes()),
        ("distinct", lambda df: df.distinct().rowcount),
        ("query", lambda df: df.query(lambda r: True).rowcount),
    ]


OBS = None


def run_impl(case):
    """Run a history on the real DataFrame. Returns (outs, error)."""
    global OBS
    from orso import DataFrame

    if OBS is None:
        OBS = _observers()
    rows = [tuple(r) for r in case["rows"]]
    names = ["a", "b"][: case["width"]]
    if case.get("lazy"):
        df = DataFrame(rows=(r for r in rows), schema=names)
    elif case.get("ctor") == "dicts" and rows:
        df = DataFrame([dict(zip(names, r)) for r in rows])  # built from dictionaries (size total not computed yet)
    elif case.get("ctor") == "tuple-schema":
        df = DataFrame(rows=list(rows), schema=tuple(names))
    else:
        df = DataFrame(rows=list(rows), schema=names)
    outs = []
    for op in case["ops"]:
        k = op[0]
        try:
            if k == "fetchone":
                r = df.fetchone()
                outs.append(["one", None if r is None else list(r)])
            elif k == "fetchmany":
                rs = df.fetchmany() if op[1] is None else df.fetchmany(op[1])
                outs.append(["many", [list(r) for r in rs]])
            elif k == "fetchall":
                outs.append(["many", [list(r) for r in df.fetchall()]])
            elif k == "arraysize":
                df.arraysize = op[1]
                outs.append(["unit"])
            elif k == "observe":
                OBS[op[1] % len(OBS)][1](df)
                outs.append(["unit"])
            elif k == "append":
                df.append(tuple(op[1]))
                outs.append(["unit"])
            else:
                raise InfraError("bad op " + repr(op))
        except InfraError:
            raise
        except Exception as e:  # the fetch calls refuse after an append
            if k in ("fetchone", "fetchmany", "fetchall"):
                outs.append(["err"])
            else:
                outs.append(["raised", type(e).__name__, k if k != "observe" else OBS[op[1] % len(OBS)][0]])
    final_rows = None
    if not case.get("lazy"):
        final_rows = [list(r) for r in df._rows] if isinstance(df._rows, list) else None
    return outs, final_rows


def model_line(case):
    ops = []
    for op in case["ops"]:
        if op[0] == "observe":
            ops.append(["observe"])
        else:
            ops.append(list(op))
    return "C04 run " + wire.line(case.get("arraysize0", 100), case["rows"], ops)


def oracle(case, outs, final_rows):
    """The property, evaluated directly on the implementation's outputs. Returns clause or None."""
    rows = [list(r) for r in case["rows"]]
    delivered = []
    arraysize = case.get("arraysize0", 100)
    appended = False
    extra = []
    for op, out in zip(case["ops"], outs):
        k = op[0]
        if out[0] == "raised":
            return "operation %s raised %s" % (out[2], out[1])
        if k == "arraysize":
            arraysize = op[1]
        if k == "append":
            appended = True
            extra.append(list(op[1]))
        remaining = len(rows) - len(delivered)
        if k in ("fetchone", "fetchmany", "fetchall"):
            if appended:
                if out[0] != "err":
                    return "fetch after append did not refuse"
                continue
            if out[0] == "err":
                return "fetch raised without an append"
            if k == "fetchone":
                if remaining == 0 and out[1] is not None:
                    return "fetchone after exhaustion is not None"
                if remaining > 0 and out[1] is None:
                    return "fetchone returned None with rows remaining"
                if out[1] is not None:
                    delivered.append(out[1])
            elif k == "fetchmany":
                want = min(arraysize if op[1] is None else op[1], remaining)
                if len(out[1]) != want:
                    return "fetchmany returned %d rows, min(k, remaining) is %d" % (len(out[1]), want)
                delivered.extend(out[1])
            else:
                if len(out[1]) != remaining:
                    return "fetchall returned %d rows with %d remaining" % (len(out[1]), remaining)
                delivered.extend(out[1])
            if delivered != rows[: len(delivered)]:
                return "delivered rows are not a prefix of the frame"
    if final_rows is not None and final_rows != rows + extra:
        return "frame rows changed other than by append"
    return None


def _norm(clause):
    return None if clause is None else "".join(ch for ch in clause if not ch.isdigit())


def valid_case(c):
    w = c.get("width")
    if w not in (1, 2) or not isinstance(c.get("ops"), list) or not c["ops"]:
        return False
    if any(len(r) != w for r in c["rows"]):
        return False
    for op in c["ops"]:
        if not isinstance(op, list) or not op:
            return False
        if op[0] == "append" and (len(op) != 2 or len(op[1]) != w):
            return False
        if op[0] in ("fetchmany", "arraysize", "observe") and len(op) != 2:
            return False
        if op[0] in ("arraysize", "observe") and not isinstance(op[1], int):
            return False
        if op[0] in ("fetchone", "fetchall") and len(op) != 1:
            return False
        if op[0] not in ("fetchone", "fetchall", "fetchmany", "arraysize", "observe", "append"):
            return False
    return True


def evaluate(ctx, cases):
    lines = [model_line(c) for c in cases]
    mouts = ctx.model.batch(lines)
    for c, mo in zip(cases, mouts):
        outs, final_rows = run_impl(c)
        nontrivial = len(c["ops"]) >= 2 and len(c["rows"]) >= 1
        ctx.case(c, nontrivial)
        for op in c["ops"]:
            ctx.hit("op:" + op[0])
        ctx.hit("rows:%d" % min(len(c["rows"]), 9))
        ctx.hit("lazy" if c.get("lazy") else "eager")
        ctx.hit("ctor:" + c.get("ctor", "rows"))
        clause = oracle(c, outs, final_rows)
        if not mo.startswith("ok "):
            raise InfraError("model rejected case %r: %r" % (c, mo))
        m = wire.dec_all(mo[3:])
        if clause is not None:
            def still(c2):
                if not valid_case(c2):
                    return False
                try:
                    o2, f2 = run_impl(c2)
                    return _norm(oracle(c2, o2, f2)) == _norm(clause)
                except InfraError:
                    return False
            c_min = shrink(c, still) if not ctx.replaying else c
            o2, f2 = run_impl(c_min)
            ctx.fail(c_min, oracle(c_min, o2, f2) or clause, impl=o2, model=m[0] if c_min is c else None)
        elif m[0] != outs or (final_rows is not None and m[3] != final_rows):
            ctx.disagree(c, {"outs": outs, "rows": final_rows}, {"outs": m[0], "rows": m[3]})


def alphabet(kmax):
    ops = [["fetchone"], ["fetchall"], ["fetchmany", None], ["observe", 0], ["arraysize", 1], ["arraysize", 3], ["append", [9]]]
    ops += [["fetchmany", k] for k in range(kmax + 1)]
    return ops


def exhaustive_cases(ctx, depth, nmax, kmax):
    alpha = alphabet(kmax)
    obs_i = 0
    for n in range(nmax + 1):
        rows = [[i] for i in range(n)]
        for d in range(1, depth + 1):
            for hist in itertools.product(alpha, repeat=d):
                ops = []
                for op in hist:
                    if op[0] == "observe":
                        ops.append(["observe", obs_i])
                        obs_i += 1
                    else:
                        ops.append(op)
                yield {"rows": rows, "width": 1, "ops": ops}
                if n and any(o[0] == "append" for o in ops):
                    yield {"rows": rows, "width": 1, "ops": ops, "ctor": "dicts"}


def random_case(ctx, lazy=False):
    rng = ctx.rng
    n = rng.choice([0, 1, 2, 3, 5, 8, 13, 40, 150]) if rng.random() < 0.5 else rng.randint(0, 12)
    width = rng.choice([1, 2])
    rows = [[rng.randint(-3, 3) for _ in range(width)] for _ in range(n)]
    ops = []
    for _ in range(rng.randint(1, 14)):
        r = rng.random()
        if r < 0.2:
            ops.append(["fetchone"])
        elif r < 0.5:
            ops.append(["fetchmany", rng.choice([None, 0, 1, 2, 3, n, n + 1, rng.randint(0, 20)])])
        elif r < 0.58:
            ops.append(["fetchall"])
        elif r < 0.7:
            ops.append(["arraysize", rng.choice([0, 1, 2, 5, 100, 1000])])
        elif r < 0.93 and not lazy:
            ops.append(["observe", rng.randrange(64)])
        elif not lazy and r >= 0.93:
            ops.append(["append", [rng.randint(-3, 3) for _ in range(width)]])
    if not ops:
        ops = [["fetchone"]]
    c = {"rows": rows, "width": width, "ops": ops}
    if lazy:
        c["lazy"] = True
    elif rng.random() < 0.3:
        c["ctor"] = rng.choice(["dicts", "tuple-schema"])
    return c


def run(ctx):
    ctx.note("rule", "histories over the op alphabet run on DataFrame and on the Lean cursor machine; "
             "non-trivial = at least one row and at least two operations; distinct by canonical JSON")
    depth, nmax, kmax = ctx.scale((4, 3, 2), (5, 3, 4))
    batch = []
    total = 0
    for c in exhaustive_cases(ctx, depth, nmax, kmax):
        batch.append(c)
        if len(batch) >= 5000:
            evaluate(ctx, batch)
            total += len(batch)
            batch = []
    evaluate(ctx, batch)
    total += len(batch)
    ctx.exhaustive = False
    ctx.note("exhaustive_scope", "all histories of depth 1..%d over %d operations on frames of 0..%d rows (%d histories), then random"
             % (depth, len(alphabet(kmax)), nmax, total))
    n_random = ctx.scale(3000, 40000)
    cases = [random_case(ctx, lazy=(i % 4 == 3)) for i in range(n_random)]
    for i in range(0, len(cases), 5000):
        evaluate(ctx, cases[i : i + 5000])


def intensify(ctx):
    cases = [random_case(ctx, lazy=(i % 3 == 2)) for i in range(20000)]
    for i in range(0, len(cases), 5000):
        evaluate(ctx, cases[i : i + 5000])


def replay(ctx, case):
    evaluate(ctx, [case])


KNOWN_PREDICATES = {}
