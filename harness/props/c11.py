"""C11 — Arrow interchange preserves rows, nulls, order and column typing.

Case kinds (all JSON-serialisable):

* ``iter``      real pyarrow tables (typed columns, nulls anywhere, any chunk layout, empty tables
                anywhere) -> ``from_arrow(tables, size)`` / ``DataFrame.from_arrow`` -> rows, column
                names, nullability.  Model: ``Arrow.fromArrowRows`` (iterator state machine).
* ``big``       the same on one generated table longer than BATCH_SIZE (batches below table length).
* ``roundtrip`` a DataFrame of Python values -> ``.arrow(size)`` -> ``DataFrame.from_arrow`` -> rows,
                column names.  Model: ``Arrow.roundtripRows``.
* ``type``      FlatColumn(type, element_type, precision, scale) -> ``arrow_field`` ->
                ``FlatColumn.from_arrow`` (also through the schema-level converters).  Model:
                ``Arrow.arrowField`` / ``Arrow.fromArrowField`` over the generated tables.
* ``field``     a catalogue of Arrow fields -> ``FlatColumn.from_arrow``.  Model: ``Arrow.fromArrowField``.

Cells are canonicalised before any comparison (documented in ``canon``): numpy array <-> list,
numpy scalar <-> Python scalar, pandas.Timestamp <-> datetime with the same wall clock fields and
UTC offset, Decimal by exact value.  The expected cells are pyarrow's own ``table.to_pylist()``.
The pyarrow/pandas cell conversion is external glue: compared, not modelled.

`process_table` (compiled.pyx, cannot be rebuilt here) is additionally executed from the working
tree's *source*: a plain-Python transcription of the `.pyx` lines (`load_shadow`) replaces the binary
in a second run of every `iter`/`big` case.  The oracle is evaluated on both runs; binary and source
differing while the oracle is quiet is reported as a disagreement ("binary stale or source changed").

Column types outside the property's list (large_binary, large_list, fixed_size_list, struct, map,
duration, time, dictionary, string_view — `EXT_TYPES`) are exercised too: row count, order, the size
cut, names and nullability are demanded as for any table; their *cells* are compared and differences
only counted (`ext-cell-differs:*` in the evidence), because the statement does not speak about them.
"""
import datetime
import decimal
import itertools
import os
import re
import warnings
from fractions import Fraction

from .. import wire
from ..core import REPO, InfraError, match_known, shrink

warnings.filterwarnings("ignore")

INT_TYPES = ("int8", "int16", "int32", "int64", "uint8", "uint16", "uint32", "uint64")
FLOAT_TYPES = ("float32", "float64")
EPOCH_ORD = datetime.date(1970, 1, 1).toordinal()
EPOCH_UTC = datetime.datetime(1970, 1, 1, tzinfo=datetime.timezone.utc)
PANDAS_NS_MIN_US = -9223372036854776  # 1677-09-21T00:12:43.145224Z, lower end of pandas' nanosecond range
ORSO_TYPES = ["ARRAY", "BLOB", "BOOLEAN", "DATE", "DECIMAL", "DOUBLE", "INTEGER", "INTERVAL", "STRUCT",
              "TIMESTAMP", "TIME", "VARCHAR", "NULL", "JSONB", "_MISSING_TYPE"]
CARRIED_AS_BINARY = ("STRUCT", "JSONB")
# column kinds outside the property's list: rows/order/names demanded, cells only compared and counted
EXT_TYPES = ("large_binary", "large_list<int64>", "fixed_list<int64,2>", "list<large_string>", "struct", "map",
             "duration[us]", "time32[ms]", "time64[us]", "dict<string>", "string_view")
# Arrow types arrow_type_map has no entry for: from_arrow raises ValueError (tied to the model by the `field` cases)
REJECTED_TYPES = ("dict<string>", "string_view")


# --------------------------------------------------------------------------- building inputs


def _pa():
    import pyarrow

    return pyarrow


def arrow_type(ctype):
    pa = _pa()
    if ctype in INT_TYPES or ctype in FLOAT_TYPES:
        return getattr(pa, ctype)()
    if ctype == "string":
        return pa.string()
    if ctype == "large_string":
        return pa.large_string()
    if ctype == "bool":
        return pa.bool_()
    if ctype == "binary":
        return pa.binary()
    if ctype == "date32":
        return pa.date32()
    if ctype == "date64":
        return pa.date64()
    if ctype.startswith("timestamp["):
        inner = ctype[len("timestamp["):-1].split(",")
        return pa.timestamp(inner[0], tz=inner[1] if len(inner) > 1 else None)
    if ctype.startswith("decimal128("):
        p, s = ctype[len("decimal128("):-1].split(",")
        return pa.decimal128(int(p), int(s))
    if ctype.startswith("list<"):
        return pa.list_(arrow_type(ctype[5:-1]))
    if ctype == "large_binary":
        return pa.large_binary()
    if ctype == "large_list<int64>":
        return pa.large_list(pa.int64())
    if ctype == "fixed_list<int64,2>":
        return pa.list_(pa.int64(), 2)
    if ctype == "struct":
        return pa.struct([("a", pa.int64()), ("b", pa.string())])
    if ctype == "map":
        return pa.map_(pa.string(), pa.int64())
    if ctype == "duration[us]":
        return pa.duration("us")
    if ctype == "time32[ms]":
        return pa.time32("ms")
    if ctype == "time64[us]":
        return pa.time64("us")
    if ctype == "dict<string>":
        return pa.dictionary(pa.int32(), pa.string())
    if ctype == "string_view":
        return pa.string_view()
    raise ValueError("unknown column type " + ctype)


def _check_cells(ctype, cells):
    """Reject cells that are not of the column's kind (keeps shrinking inside valid cases)."""
    for c in cells:
        if c is None:
            continue
        if ctype in INT_TYPES or ctype in ("date32", "date64") or ctype.startswith("timestamp["):
            ok = isinstance(c, int) and not isinstance(c, bool)
        elif ctype in FLOAT_TYPES:
            ok = isinstance(c, float)
        elif ctype in ("string", "large_string") or ctype.startswith("decimal128("):
            ok = isinstance(c, str)
        elif ctype == "bool":
            ok = isinstance(c, bool)
        elif ctype in ("binary", "large_binary"):
            ok = isinstance(c, bytes)
        elif ctype in ("dict<string>", "string_view"):
            ok = isinstance(c, str)
        elif ctype == "duration[us]":
            ok = isinstance(c, int) and not isinstance(c, bool) and abs(c) < 2**62
        elif ctype == "time32[ms]":
            ok = isinstance(c, int) and not isinstance(c, bool) and 0 <= c < 86400000
        elif ctype == "time64[us]":
            ok = isinstance(c, int) and not isinstance(c, bool) and 0 <= c < 86400000000
        elif ctype in ("large_list<int64>", "fixed_list<int64,2>"):
            ok = isinstance(c, list) and (ctype != "fixed_list<int64,2>" or len(c) == 2)
            if ok:
                _check_cells("int64", c)
        elif ctype == "struct":
            ok = isinstance(c, dict) and list(c) == ["a", "b"]
            if ok:
                _check_cells("int64", [c["a"]])
                _check_cells("string", [c["b"]])
        elif ctype == "map":
            ok = isinstance(c, list) and all(isinstance(kv, list) and len(kv) == 2 and isinstance(kv[0], str) for kv in c) \
                and len({kv[0] for kv in c}) == len(c)
            if ok:
                _check_cells("int64", [kv[1] for kv in c])
        elif ctype.startswith("list<"):
            ok = isinstance(c, list)
            if ok:
                _check_cells(ctype[5:-1], c)
        else:
            ok = False
        if not ok:
            raise ValueError("cell %r is not a %s" % (c, ctype))


def mk_array(ctype, cells):
    pa = _pa()
    _check_cells(ctype, cells)
    t = arrow_type(ctype)
    if ctype.startswith("timestamp["):
        return pa.array(cells, type=pa.int64()).cast(t)
    if ctype == "date32":
        return pa.array(cells, type=pa.int32()).cast(t)
    if ctype == "date64":
        return pa.array([None if c is None else c * 86400000 for c in cells], type=pa.int64()).cast(t)
    if ctype.startswith("decimal128("):
        return pa.array([None if c is None else decimal.Decimal(c) for c in cells], type=t)
    if ctype == "dict<string>":
        return pa.array(cells, type=pa.string()).dictionary_encode()
    if ctype == "map":
        return pa.array([None if c is None else [(k, v) for k, v in c] for c in cells], type=t)
    if ctype in ("duration[us]", "time64[us]"):
        return pa.array(cells, type=pa.int64()).cast(t)
    if ctype == "time32[ms]":
        return pa.array(cells, type=pa.int32()).cast(t)
    return pa.array(cells, type=t)


def mk_table(cols, chunks, stagger=False):
    """cols: [{name,type,nullable?}], chunks: list of chunks, each a list of rows (lists of cells)."""
    pa = _pa()
    arrays = []
    for j, col in enumerate(cols):
        parts = []
        for ch in chunks:
            for r in ch:
                if len(r) != len(cols):
                    raise ValueError("ragged row")
            parts.append(mk_array(col["type"], [r[j] for r in ch]))
        ca = pa.chunked_array(parts, type=arrow_type(col["type"]))
        if stagger and j % 2 == 1:
            ca = pa.chunked_array([ca.combine_chunks()] if len(ca) else [], type=arrow_type(col["type"]))
        arrays.append(ca)
    schema = pa.schema([pa.field(c["name"], arrow_type(c["type"]), nullable=c.get("nullable", True)) for c in cols])
    return pa.Table.from_arrays(arrays, schema=schema)


def py_value(ctype, c):
    """The Python value a DataFrame cell of this kind holds (roundtrip cases)."""
    if c is None:
        return None
    if ctype.startswith("timestamp["):
        v = datetime.datetime(1970, 1, 1) + datetime.timedelta(microseconds=c)
        if "," in ctype:
            v = v.replace(tzinfo=datetime.timezone.utc)
        return v
    if ctype in ("date32", "date64"):
        return datetime.date.fromordinal(EPOCH_ORD + c)
    if ctype.startswith("decimal128("):
        return decimal.Decimal(c)
    if ctype.startswith("list<"):
        return [py_value(ctype[5:-1], x) for x in c]
    return c


# --------------------------------------------------------------------------- canonical cells


def canon(v):
    """Canonical, wire-encodable form of a cell.

    numpy scalar -> Python scalar; numpy array / tuple -> list; datetime (pandas.Timestamp is one)
    -> naive: ["ts", y, m, d, H, M, S, us, ns], zone-aware: ["tsz", instant in us since the epoch, ns]
    (equal instants are equal); date -> ["date", y, m, d];
    Decimal -> ["dec", exact value as a fraction]; NaT -> ["NaT"]; timedelta (pandas.Timedelta is one) ->
    ["td", microseconds, ns]; time -> ["time", H, M, S, us].
    """
    import numpy

    if v is None:
        return None
    if isinstance(v, numpy.ndarray):
        return [canon(x) for x in v]
    if isinstance(v, numpy.generic):
        v = v.item()
        if v is None:
            return None
    if isinstance(v, (bool, int, float, str)):
        return v
    if isinstance(v, (bytes, bytearray)):
        return bytes(v)
    try:
        import pandas

        if v is pandas.NaT:
            return ["NaT"]
    except ImportError:
        pass
    if isinstance(v, datetime.datetime):
        ns = int(getattr(v, "nanosecond", 0))
        if v.utcoffset() is None:
            return ["ts", v.year, v.month, v.day, v.hour, v.minute, v.second, v.microsecond, ns]
        # zone-aware: the instant (microseconds since the epoch, exact integer arithmetic), so that
        # equal instants are equal whatever object describes the zone
        py = v.to_pydatetime(warn=False) if hasattr(v, "to_pydatetime") else v
        d = py - EPOCH_UTC
        return ["tsz", (d.days * 86400 + d.seconds) * 1000000 + d.microseconds, ns]
    if isinstance(v, datetime.date):
        return ["date", v.year, v.month, v.day]
    if isinstance(v, datetime.timedelta):  # pandas.Timedelta is one
        return ["td", (v.days * 86400 + v.seconds) * 1000000 + v.microseconds, int(getattr(v, "nanoseconds", 0))]
    if isinstance(v, datetime.time):
        return ["time", v.hour, v.minute, v.second, v.microsecond]
    if isinstance(v, decimal.Decimal):
        return ["dec", str(Fraction(v)) if v.is_finite() else str(v)]
    if isinstance(v, (list, tuple)):
        return [canon(x) for x in v]
    if isinstance(v, dict):
        return {str(k): canon(x) for k, x in v.items()}
    return ["?", type(v).__name__, repr(v)[:80]]


def _isnan(x):
    return isinstance(x, float) and x != x


def cell_ok(exp, got):
    """`got` equals the Arrow value `exp`; a NaN may surface as None; int/float/bool are distinct."""
    if _isnan(exp):
        return got is None or _isnan(got)
    if exp is None or got is None:
        return exp is None and got is None
    if isinstance(exp, list):
        return isinstance(got, list) and len(exp) == len(got) and all(cell_ok(a, b) for a, b in zip(exp, got))
    if isinstance(exp, dict):
        return isinstance(got, dict) and list(exp) == list(got) and all(cell_ok(exp[k], got[k]) for k in exp)
    if type(exp) is not type(got):
        return False
    return exp == got


def classify_cell(ctype, exp, got, column_has_null, column_has_nested_null=False):
    """Name the way a cell differs (used as the failure clause)."""
    if ctype in INT_TYPES and isinstance(exp, int) and isinstance(got, float) and column_has_null:
        return "integer cells of a column containing a null come back as floats"
    if ctype.startswith("list<") and isinstance(exp, list) and isinstance(got, list) and len(exp) == len(got) \
            and ctype[5:-1] in INT_TYPES + FLOAT_TYPES and column_has_nested_null:
        rest_ok = all((a is None and _isnan(b)) or cell_ok(a, b)
                      or (isinstance(a, int) and isinstance(b, float) and not isinstance(a, bool))
                      for a, b in zip(exp, got))
        if rest_ok:
            return "numeric list cells of a column with a null element come back as floats with NaN"
    if ctype.startswith("timestamp[") and "," in ctype and isinstance(exp, list) and exp[:1] == ["tsz"] \
            and isinstance(got, list) and got[:1] == ["tsz"] and exp[1] < PANDAS_NS_MIN_US \
            and ctype[:-1].split(",")[1] not in ("UTC", "utc"):
        return "zone-aware timestamp before 1677-09-21 comes back as a different instant"
    return "cell differs from the Arrow value"


# --------------------------------------------------------------------------- implementation adaptors


def cols_of(case, ti):
    """Column definitions of table `ti` (the `cols_by_table` override documents what from_arrow does
    with tables whose schema differs from the first table's)."""
    return case.get("cols_by_table", {}).get(str(ti), case["cols"])


def build_tables(case):
    return [mk_table(cols_of(case, ti), chunks, stagger=case.get("stagger", False))
            for ti, chunks in enumerate(case["tables"])]


def expected_rows_of(tables):
    out = []
    for t in tables:
        names = t.column_names
        cols = [t.column(i).to_pylist() for i in range(t.num_columns)]
        for i in range(t.num_rows):
            out.append([canon(c[i]) for c in cols])
    return out


# ---- process_table from the working tree's source (the binary cannot be rebuilt here)

_SHADOW = {}

C_TYPES = r"(?:unsigned\s+)?(?:int|long|short|char|float|double|bint|object|list|tuple|dict|str|bytes|Py_ssize_t|size_t|u?int\d+_t)"


def _pyx_function(name):
    path = os.path.join(REPO, "orso", "compute", "compiled.pyx")
    lines = open(path, encoding="utf-8").read().split("\n")
    start = next((i for i, l in enumerate(lines) if re.match(r"(?:def|cpdef|cdef)\s+(?:[\w\.]+\s+)*%s\s*\(" % name, l)), None)
    if start is None:
        raise KeyError("no top-level %s in compiled.pyx" % name)
    end = len(lines)
    for i in range(start + 1, len(lines)):
        if lines[i] and not lines[i][0].isspace() and not lines[i].startswith(")"):
            end = i
            break
    return start + 1, lines[start:end], lines


def load_shadow():
    """process_table as plain Python, transcribed line by line from the current compiled.pyx.

    Handles exactly the Cython idioms that function uses: C types in the signature, `cdef <type>
    name [= expr]` declarations, `<type>` casts.  Anything else makes the transcription fail to
    compile, which is reported (`unavailable`) and leaves the binary alone under test.
    Returns dict(fn=callable | None, status=str, stale=[...] | None).
    """
    if _SHADOW:
        return _SHADOW
    _SHADOW.update({"fn": None, "status": "unavailable", "stale": None})
    try:
        first, body, all_lines = _pyx_function("process_table")
        out = []
        for i, l in enumerate(body):
            if i == 0 or (out and out[0].count("(") > "".join(out).count(")") and not l.lstrip().startswith(("\"", "'"))):
                # signature (possibly spanning lines): drop C types of parameters, `cpdef`/`cdef` -> def
                if "".join(out).count("(") > "".join(out).count(")") or i == 0:
                    l = re.sub(r"^(?:cpdef|cdef)\s+(?:[\w\.]+\s+)*?(?=\w+\s*\()", "def ", l)
                    l = re.sub(r"(?<=[(,])\s*%s\s+(?=\w)" % C_TYPES, " ", l)
            m = re.match(r"(\s*)cdef\s+%s(?:\[[^\]]*\])?\s+(\w+)\s*(=.*)?$" % C_TYPES, l)
            if m:
                l = "%s%s %s" % (m.group(1), m.group(2), m.group(3) or "= None")
            l = re.sub(r"<\s*%s\s*\*?\s*>" % C_TYPES, "", l)
            out.append(l)
        src = "\n".join(out) + "\n"
        import numpy

        glob = {"np": numpy, "numpy": numpy}
        for l in all_lines:  # plain module-level imports of the .pyx (not cimport)
            if re.match(r"(?:import\s+\w|from\s+[\w\.]+\s+import\s)", l) and "cimport" not in l and "cython" not in l:
                try:
                    exec(l, glob)
                except Exception:
                    pass
        exec(compile(src, "compiled.pyx:process_table(shadow)", "exec"), glob)
        _SHADOW["fn"] = glob["process_table"]
        _SHADOW["status"] = "process_table transcribed from compiled.pyx lines %d-%d" % (first, first + len(body) - 1)
        _SHADOW["source"] = [l.strip() for l in body if l.strip() and not l.strip().startswith("#")]
    except Exception as e:
        _SHADOW["status"] = "unavailable: %s: %s" % (type(e).__name__, str(e)[:120])
        return _SHADOW
    # does the binary reflect this source?  Cython embeds the source lines in compiled.c
    try:
        cfile = os.path.join(REPO, "orso", "compute", "compiled.c")
        ctext = open(cfile, encoding="utf-8", errors="replace").read()
        embedded = {}
        for m in re.finditer(r'/\* "orso/compute/compiled\.pyx":(\d+)\n((?: \*[^\n]*\n)+?) ?\*/', ctext):
            for l in m.group(2).split("\n"):
                if "# <<<<<<<<<<<<<<" in l:
                    embedded[int(m.group(1))] = l[3:].split("# <<<<<<<<<<<<<<")[0].strip()
        diffs = []
        for k, l in enumerate(body):
            n = first + k
            if n in embedded and embedded[n] != l.strip():
                diffs.append("line %d: source %r, binary built from %r" % (n, l.strip(), embedded[n]))
        mine = [embedded[n] for n in sorted(embedded) if first <= n < first + len(body)]
        if not mine:
            diffs.append("no embedded source lines found for process_table")
        _SHADOW["stale"] = diffs
    except OSError:
        _SHADOW["stale"] = None
    return _SHADOW


def run_iter_impl(case, tables, process_table=None):
    """-> dict(rows, names, nullable) or dict(raised=...).  `process_table`: run with this function in
    place of the compiled one (the transcription of the .pyx source)."""
    import orso.converters as oc
    from orso import DataFrame

    via = case.get("via", "from_arrow")
    size = case.get("size")
    arg = tables
    if via == "generator":
        arg = (t for t in tables)
    elif via == "tuple":
        arg = tuple(tables)
    elif via == "single":
        arg = tables[0]
    saved = oc.process_table
    if process_table is not None:
        oc.process_table = process_table
    try:
        if via == "DataFrame":
            df = DataFrame.from_arrow(arg)
            rows = [[canon(c) for c in r] for r in df]
            schema = df.schema
            names = list(df.column_names) if schema else []
        elif via == "DataFrame.arrow":
            # a frame lazily backed by the Arrow iterator, converted back with arrow(size)
            df = DataFrame.from_arrow(arg)
            schema = df.schema
            try:
                table = df.arrow() if size is None else df.arrow(size)
            except Exception as e:
                return {"lazy_arrow_raised": "%s: %s" % (type(e).__name__, str(e)[:120]),
                        "names": list(schema.column_names), "nullable": [bool(c.nullable) for c in schema.columns]}
            pys = [table.column(j).to_pylist() for j in range(table.num_columns)]
            rows = [[canon(p[i]) for p in pys] for i in range(table.num_rows)]
            return {"rows": rows, "names": list(table.column_names), "arrow_rows": table.num_rows,
                    "nullable": [bool(c.nullable) for c in schema.columns]}
        else:
            it, schema = oc.from_arrow(arg, size) if size is not None else oc.from_arrow(arg)
            rows = [[canon(c) for c in r] for r in it]
            names = list(schema.column_names) if schema else []
        nullable = [bool(c.nullable) for c in schema.columns] if schema else []
        return {"rows": rows, "names": names, "nullable": nullable}
    except InfraError:
        raise
    except Exception as e:
        return {"raised": "%s: %s" % (type(e).__name__, str(e)[:200])}
    finally:
        oc.process_table = saved


def wire_same_loose(a, b):
    """Structural equality of canonical outputs (NaN equals NaN, -0.0 differs from 0.0, bool is not int)."""
    if isinstance(a, dict) and isinstance(b, dict):
        return list(a) == list(b) and all(wire_same_loose(a[k], b[k]) for k in a)
    if isinstance(a, (list, tuple)) and isinstance(b, (list, tuple)):
        return len(a) == len(b) and all(wire_same_loose(x, y) for x, y in zip(a, b))
    if type(a) is not type(b):
        return False
    if isinstance(a, float):
        return wire.fbits(a) == wire.fbits(b)
    return a == b


def mirror_rows(all_rows, size):
    return all_rows if size is None else all_rows[:size]


def iter_oracle(case, tables, out):
    """The property on the implementation's own output.  Returns a list of (clause, detail).
    Side channel: out["obs"] collects observations that are counted, not demanded."""
    obs = out.setdefault("obs", [])
    cols = case["cols"]
    if "cols_by_table" in case:
        # tables whose schema differs from the first table's: outside the quantifier; observed only
        if "raised" in out:
            obs.append("schema-differs:raised")
        else:
            exp = mirror_rows(expected_rows_of(tables), case.get("size"))
            same = len(exp) == len(out["rows"]) and all(
                len(a) == len(b) and all(cell_ok(x, y) for x, y in zip(a, b)) for a, b in zip(exp, out["rows"]))
            first = out["names"] == list(tables[0].column_names)
            obs.append("schema-differs:" + ("rows-of-every-table-streamed-unchanged" if same else "rows-changed")
                       + (",schema-of-first-table" if first else ",other-schema"))
        return []
    rejected = [c["type"] for c in cols if c["type"] in REJECTED_TYPES]
    if "raised" in out:
        if rejected and out["raised"].startswith("ValueError: Unable to map"):
            obs.append("ext-rejected:" + rejected[0])  # no entry in arrow_type_map (see the `field` cases)
            return []
        return [("from_arrow raised", {"error": out["raised"]})]
    if "lazy_arrow_raised" in out:
        obs.append("lazy-arrow-raised:" + out["lazy_arrow_raised"].split(":")[0])
        return []
    size = case.get("size")
    exp = mirror_rows(expected_rows_of(tables), size)
    got = out["rows"]
    fails = []
    lazy_arrow = case.get("via") == "DataFrame.arrow"
    if len(got) != len(exp):
        fails.append(("row count differs from the number of Arrow rows cut to size", {"got": len(got), "expected": len(exp)}))
        return fails
    # which table does expected row i come from
    origin = []
    for ti, t in enumerate(tables):
        origin += [ti] * t.num_rows
    seen = set()
    for i, (e, g) in enumerate(zip(exp, got)):
        if len(g) != len(e):
            fails.append(("row width differs", {"row": i}))
            break
        for j, (a, b) in enumerate(zip(e, g)):
            if not cell_ok(a, b):
                if lazy_arrow:
                    obs.append("lazy-arrow-cell-differs:" + cols[j]["type"].split("(")[0].split("[")[0])
                    continue
                if cols[j]["type"] in EXT_TYPES:
                    obs.append("ext-cell-differs:" + cols[j]["type"])
                    continue
                ti = origin[i]
                has_null = tables[ti].column(j).null_count > 0
                nested = cols[j]["type"].startswith("list<") and any(
                    x is not None and any(y is None for y in x) for x in tables[ti].column(j).to_pylist())
                clause = classify_cell(cols[j]["type"], a, b, has_null, nested)
                if clause not in seen:
                    seen.add(clause)
                    fails.append((clause, {"row": i, "col": j, "table": ti, "expected": a, "got": b}))
    if tables:
        if out["names"] != list(tables[0].column_names):
            fails.append(("column names differ from the Arrow field names", {"got": out["names"]}))
        want = [bool(f.nullable) for f in tables[0].schema]
        if out["nullable"] != want:
            fails.append(("nullability not carried over from the Arrow fields", {"got": out["nullable"], "expected": want}))
    return fails


def iter_model_line(case, tables):
    """Tables as chunk lists of canonical expected rows (what pyarrow says the cells are)."""
    enc_tables = []
    for t in tables:
        cols = [t.column(i) for i in range(t.num_columns)]
        if not cols:
            enc_tables.append([])
            continue
        # chunk layout of the first column; the result does not depend on it (theorem
        # process_table_rows), the driver just has to be given some layout
        pys = [c.to_pylist() for c in cols]
        chunks, pos = [], 0
        for ch in cols[0].chunks:
            chunks.append([[canon(p[i]) for p in pys] for i in range(pos, pos + len(ch))])
            pos += len(ch)
        enc_tables.append(chunks)
    if case.get("via") == "DataFrame.arrow":
        # from_arrow (no size) then arrow(size): the rows of all tables, then to_arrow's limit
        names = list(tables[0].column_names)
        return "C11 roundtrip " + wire.line(names, [r for t in enc_tables for ch in t for r in ch], case.get("size"))
    return "C11 iter " + wire.line(enc_tables, case.get("size"))


# ---- big tables


def big_case_tables(case):
    pa = _pa()
    n = case["n"]
    nulls = set(case.get("nulls", []))
    a = pa.array(list(range(case.get("start", 0), case.get("start", 0) + n)), type=pa.int64())
    b = pa.array([None if i in nulls else "r%d" % i for i in range(n)], type=pa.string())
    parts = case.get("parts") or [n]
    tabs, pos = [], 0
    for k in parts:
        tabs.append(pa.Table.from_arrays([a.slice(pos, k), b.slice(pos, k)], names=["a", "b"]))
        pos += k
    if pos != n:
        raise ValueError("parts do not add up")
    return tabs


# ---- roundtrip


def run_roundtrip_impl(case):
    from orso import DataFrame

    types = case["types"]
    for t in types:
        arrow_type(t)  # rejects unknown column kinds
    rows = [tuple(py_value(t, c) for t, c in zip(types, r)) for r in case["rows"]]
    for r in case["rows"]:
        if len(r) != len(types):
            raise ValueError("ragged row")
        for t, c in zip(types, r):
            _check_cells(t, [c])
    names = list(case["names"])
    if len(names) != len(types) or len(set(names)) != len(names):
        raise ValueError("bad names")
    size = case.get("size")
    try:
        if case.get("lazy"):
            df = DataFrame(rows=(r for r in rows), schema=names)
        else:
            df = DataFrame(rows=list(rows), schema=names)
        table = df.arrow() if size is None else df.arrow(size)
        back = DataFrame.from_arrow(table)
        got = [[canon(c) for c in r] for r in back]
        return {"rows": got, "names": list(back.column_names), "arrow_names": list(table.column_names),
                "arrow_rows": table.num_rows,
                "null_cols": [table.column(j).null_count > 0 for j in range(table.num_columns)]}, rows
    except InfraError:
        raise
    except Exception as e:
        return {"raised": "%s: %s" % (type(e).__name__, str(e)[:200])}, rows


def roundtrip_oracle(case, out, rows):
    if "raised" in out:
        return [("arrow()/from_arrow raised", {"error": out["raised"]})]
    size = case.get("size")
    exp = [[canon(c) for c in r] for r in (rows if size is None else rows[:size])]
    fails = []
    if out["names"] != list(case["names"]):
        fails.append(("round trip changed the column names", {"got": out["names"]}))
    got = out["rows"]
    if len(got) != len(exp):
        fails.append(("round trip changed the number of rows", {"got": len(got), "expected": len(exp)}))
        return fails
    seen = set()
    for i, (e, g) in enumerate(zip(exp, got)):
        if len(e) != len(g):
            fails.append(("row width differs", {"row": i}))
            break
        for j, (a, b) in enumerate(zip(e, g)):
            if not cell_ok(a, b):
                has_null = out["null_cols"][j] if j < len(out["null_cols"]) else False
                nested = case["types"][j].startswith("list<") and any(
                    r[j] is not None and any(y is None for y in r[j]) for r in (case["rows"] if size is None else case["rows"][:size]))
                clause = classify_cell(case["types"][j], a, b, has_null, nested)
                if clause not in seen:
                    seen.add(clause)
                    fails.append((clause, {"row": i, "col": j, "table": 0, "expected": a, "got": b}))
    return fails


def roundtrip_model_line(case, rows):
    return "C11 roundtrip " + wire.line(list(case["names"]), [[canon(c) for c in r] for r in rows], case.get("size"))


# ---- column typing


def _orso_type(name):
    from orso.types import OrsoTypes

    return OrsoTypes[name]


def arrow_ty_enc(t):
    """pyarrow DataType -> the model's ArrowTy encoding."""
    import pyarrow.lib as lib

    names = {int(getattr(lib, k)): k[5:] for k in dir(lib) if k.startswith("Type_")}
    name = names.get(int(t.id), "?%d" % t.id)
    if name.startswith("DECIMAL"):
        return ["decimal", name, int(t.precision), int(t.scale)]
    if name in ("LIST", "LARGE_LIST", "FIXED_SIZE_LIST", "LIST_VIEW", "LARGE_LIST_VIEW"):
        return ["list", name, arrow_ty_enc(t.value_type)]
    return ["prim", name]


def col_enc(c):
    return [str(c.name), c.type.name if hasattr(c.type, "name") else str(c.type),
            None if c.element_type is None else c.element_type.name,
            c.precision, c.scale, bool(c.nullable)]


def run_type_impl(case):
    from orso.schema import FlatColumn, RelationSchema, convert_arrow_schema_to_orso_schema, \
        convert_orso_schema_to_arrow_schema

    kw = {}
    if case.get("p") is not None:
        kw["precision"] = case["p"]
    if case.get("s") is not None:
        kw["scale"] = case["s"]
    if case.get("elem") is not None:
        kw["element_type"] = _orso_type(case["elem"])
    col = FlatColumn(name=case["name"], type=_orso_type(case["type"]), nullable=case["nullable"], **kw)
    try:
        if case.get("via") == "schema":
            sch = RelationSchema(name="t", columns=[col])
            f = convert_orso_schema_to_arrow_schema(sch).field(0)
        else:
            f = col.arrow_field
    except ValueError as e:
        return [case["name"], ["invalid"], True], ["err", "ValueError"]
    fenc = [f.name, arrow_ty_enc(f.type), bool(f.nullable)]
    try:
        if case.get("via") == "schema":
            import pyarrow

            back = convert_arrow_schema_to_orso_schema(pyarrow.schema([f])).columns[0]
        else:
            back = FlatColumn.from_arrow(f)
    except ValueError:
        return fenc, ["err", "ValueError"]
    return fenc, col_enc(back)


def type_model_line(case):
    return "C11 forth " + wire.line(case["name"], case["type"], case.get("elem"), case.get("p"), case.get("s"), case["nullable"])


def type_in_quantifier(case):
    """Is this column one the typing clause speaks about?"""
    t, e, p, s = case["type"], case.get("elem"), case.get("p"), case.get("s")
    if t in CARRIED_AS_BINARY or t == "_MISSING_TYPE":
        return False
    if t == "DECIMAL":
        return p is not None and s is not None and 0 <= s <= p <= 38
    if p is not None or s is not None:
        return False  # precision/scale on a non-decimal column: outside the clause (correspondence only)
    if t == "ARRAY":
        # an unspecified element type defaults to VARCHAR (OrsoTypes.from_name does the same);
        # elements carried as binary are outside the clause like the types themselves
        return e is not None and e not in CARRIED_AS_BINARY and e != "_MISSING_TYPE"
    return True


def type_oracle(case, fenc, back):
    if not type_in_quantifier(case):
        return []
    t, e = case["type"], case.get("elem")
    if back[0] == "err":
        if t == "DECIMAL" and case["p"] == 0:
            return [("DECIMAL precision/scale not preserved by the Arrow type mapping", {"back": back})]
        return [("arrow_field/from_arrow raised", {"back": back})]
    fails = []
    if back[1] != t:
        fails.append(("Orso type not preserved by the Arrow type mapping", {"arrow": fenc[1], "back": back[1]}))
        return fails
    if t == "DECIMAL" and (back[3], back[4]) != (case["p"], case["s"]):
        fails.append(("DECIMAL precision/scale not preserved by the Arrow type mapping", {"arrow": fenc[1], "back": back[3:5]}))
    if t == "ARRAY" and back[2] != e:
        fails.append(("ARRAY element type not preserved by the Arrow type mapping", {"arrow": fenc[1], "back": back[2]}))
    return fails


def catalogue():
    """Arrow types for the `field` cases, as constructor descriptions."""
    prims = ["null", "bool_", "int8", "int16", "int32", "int64", "uint8", "uint16", "uint32", "uint64", "float16",
             "float32", "float64", "string", "large_string", "binary", "large_binary", "date32", "date64",
             "month_day_nano_interval", "string_view", "binary_view"]
    cat = [[p] for p in prims]
    cat += [["time32", "s"], ["time32", "ms"], ["time64", "us"], ["time64", "ns"], ["duration", "s"], ["duration", "ns"]]
    cat += [["timestamp", u] for u in ("s", "ms", "us", "ns")] + [["timestamp", "us", "UTC"], ["timestamp", "ns", "Europe/Paris"]]
    cat += [["decimal128", p, s] for p, s in ((1, 0), (1, 1), (10, 0), (10, 2), (28, 21), (38, 0), (38, 38), (5, 7))]
    cat += [["decimal256", p, s] for p, s in ((1, 0), (40, 3), (76, 76))]
    cat += [["decimal32", 5, 2], ["decimal64", 12, 3], ["binary", 4]]
    cat += [["struct"], ["map_"], ["dictionary"], ["run_end_encoded"]]
    return cat


def mk_arrow_type(d):
    pa = _pa()
    k = d[0]
    if k == "struct":
        return pa.struct([("a", pa.int64()), ("b", pa.string())])
    if k == "map_":
        return pa.map_(pa.string(), pa.int64())
    if k == "dictionary":
        return pa.dictionary(pa.int32(), pa.string())
    if k == "run_end_encoded":
        return pa.run_end_encoded(pa.int32(), pa.string())
    if k in ("list_", "large_list", "list_view", "large_list_view"):
        return getattr(pa, k)(mk_arrow_type(d[1]))
    if k == "fixed_list":
        return pa.list_(mk_arrow_type(d[1]), d[2])
    return getattr(pa, k)(*d[1:])


def run_field_impl(case):
    from orso.schema import FlatColumn

    pa = _pa()
    t = mk_arrow_type(case["arrow"])
    f = pa.field(case["name"], t, nullable=case["nullable"])
    try:
        c = FlatColumn.from_arrow(f, case.get("mappable", False)) if case.get("mappable") is not None \
            else FlatColumn.from_arrow(f)
    except ValueError:
        return ["err", "ValueError"], t
    return col_enc(c), t


def field_model_line(case, t):
    return "C11 back " + wire.line(case["name"], arrow_ty_enc(t), case["nullable"], bool(case.get("mappable", False)))


def field_oracle(case, out):
    if out[0] == "err":
        return []  # an Arrow type orso does not map: no column is built
    fails = []
    if out[0] != case["name"]:
        fails.append(("Arrow field name not carried over to the column", {"got": out[0]}))
    if out[5] != case["nullable"]:
        fails.append(("Arrow field nullability not carried over to the column", {"got": out[5]}))
    return fails


# --------------------------------------------------------------------------- evaluation


def _is_known(ctx, case, clause, detail):
    failure = {"clause": clause, "detail": detail}
    return any(k.get("status") == "open" and match_known(ctx.prop_id, k, case, failure) for k in ctx.known)


def valid_case(c):
    try:
        k = c.get("kind")
        if k == "iter":
            if not c["cols"] or len({x["name"] for x in c["cols"]}) != len(c["cols"]):
                return False
            if not isinstance(c["tables"], list) or c.get("via") == "single" and len(c["tables"]) != 1:
                return False
            if c.get("via", "from_arrow") not in ("from_arrow", "DataFrame", "generator", "tuple", "single", "DataFrame.arrow"):
                return False
            if c.get("via") == "DataFrame.arrow" and not c["tables"]:
                return False
            if c.get("via") == "DataFrame" and c.get("size") is not None:
                return False
            if c.get("size") is not None and (not isinstance(c["size"], int) or c["size"] < 1):
                return False
            ts = build_tables(c)
            # a field declared non-nullable must not hold nulls
            for t in ts:
                for j, col in enumerate(c["cols"]):
                    if not col.get("nullable", True) and t.column(j).null_count:
                        return False
            return True
        if k == "big":
            big_case_tables(c)
            return c.get("size") is None or c["size"] >= 1
        if k == "roundtrip":
            if not c["types"]:
                return False
            if c.get("size") is not None and (not isinstance(c["size"], int) or c["size"] < 0):
                return False
            out, _ = run_roundtrip_impl(c)
            return True
        if k == "type":
            return c["type"] in ORSO_TYPES and (c.get("elem") is None or c["elem"] in ORSO_TYPES) \
                and isinstance(c["name"], str) and isinstance(c["nullable"], bool)
        if k == "field":
            mk_arrow_type(c["arrow"])
            return isinstance(c["name"], str) and isinstance(c["nullable"], bool)
    except Exception:
        return False
    return False


def _impl_and_fails(case):
    """Run the implementation on a case -> (impl output for display, fails, model line, comparable output)."""
    k = case["kind"]
    if k in ("iter", "big"):
        tables = build_tables(case) if k == "iter" else big_case_tables(case)
        c2 = case if k == "iter" else dict(case, cols=[{"name": "a", "type": "int64"}, {"name": "b", "type": "string"}])
        out = run_iter_impl(c2, tables)
        fails = iter_oracle(c2, tables, out)
        sh = load_shadow()
        # (the exhaustive split family repeats the same tables for every size: the source run is made for
        # the sizes that change the batching most)
        if sh["fn"] is not None and not (k == "iter" and case["cols"] == SPLIT_COLS and case.get("size") not in (None, 1, 2)):
            out_s = run_iter_impl(c2, tables, process_table=sh["fn"])
            fails_s = iter_oracle(c2, tables, out_s)
            have = {cl for cl, _ in fails}
            fails = fails + [(cl, dict(d, process_table="as transcribed from compiled.pyx, not the binary"))
                             for cl, d in fails_s if cl not in have]
            a = {k: out.get(k) for k in ("rows", "raised", "names", "lazy_arrow_raised")}
            b = {k: out_s.get(k) for k in ("rows", "raised", "names", "lazy_arrow_raised")}
            if not wire_same_loose(a, b):
                out["shadow_differs"] = {"binary": a, "source": b}
        return out, fails, iter_model_line(case, tables), ("rows", out.get("rows"), mirror_rows(expected_rows_of(tables), case.get("size")))
    if k == "roundtrip":
        out, rows = run_roundtrip_impl(case)
        fails = roundtrip_oracle(case, out, rows)
        return out, fails, roundtrip_model_line(case, rows), ("roundtrip", out, rows)
    if k == "type":
        fenc, back = run_type_impl(case)
        return {"field": fenc, "back": back}, type_oracle(case, fenc, back), type_model_line(case), ("type", fenc, back)
    if k == "field":
        out, t = run_field_impl(case)
        return {"back": out}, field_oracle(case, out), field_model_line(case, t), ("field", out)
    raise InfraError("unknown case kind %r" % (k,))


def focus_candidates(case, detail):
    """Smaller cases around the failing cell: only its column (and only its table / its row)."""
    j = (detail or {}).get("col")
    if j is None:
        return
    if case["kind"] == "iter" and "cols_by_table" not in case:
        col = dict(case["cols"][j])
        tabs = [[[[r[j]] for r in ch] for ch in t] for t in case["tables"]]
        ti = detail.get("table", 0)
        one = dict(case, cols=[col], tables=[tabs[ti]])
        one.pop("stagger", None)
        if one.get("via") == "single" and len(one["tables"]) != 1:
            one.pop("via")
        yield dict(one, tables=[[[r for ch in tabs[ti] for r in ch]]])
        yield one
        yield dict(case, cols=[col], tables=tabs)
    elif case["kind"] == "roundtrip":
        yield dict(case, names=[case["names"][j]], types=[case["types"][j]], rows=[[r[j]] for r in case["rows"]])


def _norm(clause):
    return "".join(ch for ch in clause if not ch.isdigit())


def evaluate(ctx, cases):
    prepared = []
    for c in cases:
        try:
            prepared.append((c,) + _impl_and_fails(c))
        except InfraError:
            raise
        except Exception as e:
            raise InfraError("harness could not run case %r: %s: %s" % (c, type(e).__name__, e))
    mouts = ctx.model.batch([p[3] for p in prepared])
    for (c, out, fails, _line, cmp_), mo in zip(prepared, mouts):
        k = c["kind"]
        if not mo.startswith("ok "):
            raise InfraError("model rejected case %r: %r" % (c, mo))
        m = wire.dec_all(mo[3:])
        nontrivial, model_view, impl_view = True, None, None
        # ---- model vs mirror (implementation out of the picture), then model vs implementation
        if k in ("iter", "big"):
            _, got_rows, mirror = cmp_
            lazy_arrow = c.get("via") == "DataFrame.arrow"
            mrows = m[2] if lazy_arrow else m[0]  # `roundtrip` op answers [names, num_rows, rows]
            if not wire.same(mrows, mirror) or (lazy_arrow and m[1] != len(mirror)):
                # The model is assembled from expressions generated from the source, so it can follow a
                # changed source away from the specification.  Model wrong while the implementation is
                # right = a harness/model bug (exit 2); otherwise the source moved: report it.
                impl_right = got_rows is not None and len(got_rows) == len(mirror) and not fails
                if impl_right:
                    raise InfraError("Lean iterator model disagrees with the Python mirror on %r" % (c,))
                ctx.disagree(c, got_rows, mrows, what="the model generated from the source departs from the specification "
                                                     "(rows of all tables cut to size) on this input")
            nrows = len(mirror)
            nontrivial = nrows >= 1 and (k == "big" or len(c["tables"]) >= 1)
            model_view, impl_view = mrows, got_rows
            observed_only = lazy_arrow or "cols_by_table" in c or got_rows is None and not fails
            ext_cols = [j for j, col in enumerate(c.get("cols", [])) if col["type"] in EXT_TYPES] if k == "iter" else []
            agree = observed_only or (got_rows is not None and len(got_rows) == len(mrows) and all(
                len(a) == len(b) and all(j in ext_cols or cell_ok(x, y) for j, (x, y) in enumerate(zip(a, b)))
                for a, b in zip(mrows, got_rows)))
            if lazy_arrow and got_rows is not None:
                agree = len(got_rows) == len(mrows) and out.get("arrow_rows") == m[1] and out["names"] == m[0]
            for ob in out.get("obs", []):
                ctx.hit(ob)
            if out.get("shadow_differs") and not fails:
                ctx.disagree(c, out["shadow_differs"]["binary"], out["shadow_differs"]["source"],
                             what="the compiled process_table and its compiled.pyx source (transcribed) give different "
                                  "results: the binary is stale or the source changed")
            ctx.hit("kind:" + k)
            ctx.hit("via:" + c.get("via", "from_arrow"))
            total = sum(len(ch) for t in c["tables"] for ch in t) if k == "iter" else c["n"]
            ctx.hit("size:" + ("none" if c.get("size") is None else "below" if c["size"] < total else "at-or-above"))
            if k == "iter":
                nt = len(c["tables"])
                ctx.hit("tables:%d" % min(nt, 6))
                empties = [i for i, t in enumerate(c["tables"]) if sum(len(ch) for ch in t) == 0]
                if empties:
                    ctx.hit("empty-table:" + ("first" if 0 in empties else "later"))
                if not lazy_arrow and m[0] != m[1]:
                    ctx.hit("pinned-iterator-would-lose-rows")
                for col in c["cols"]:
                    ctx.hit("coltype:" + col["type"].split("(")[0].split("[")[0])
                if c.get("stagger"):
                    ctx.hit("staggered-chunk-layout")
                if any(len(t) != 1 for t in c["tables"]):
                    ctx.hit("multi-chunk-table")
                if any(len(t) >= 10 for t in c["tables"]):
                    ctx.hit("many-small-batches")
        elif k == "roundtrip":
            _, o, rows = cmp_
            size = c.get("size")
            mirror = [[canon(x) for x in r] for r in (rows if size is None else rows[:size])]
            if not wire.same(m[2], mirror) or m[0] != list(c["names"]):
                impl_right = "raised" not in o and not fails
                if impl_right:
                    raise InfraError("Lean to_arrow/from_arrow model disagrees with the Python mirror on %r" % (c,))
                ctx.disagree(c, o, {"names": m[0], "rows": m[2]},
                             what="the model generated from the source departs from the specification (rows[:size]) on this input")
            nontrivial = len(rows) >= 1
            model_view, impl_view = {"names": m[0], "arrow_rows": m[1], "rows": m[2]}, o
            agree = "raised" not in o and o["names"] == m[0] and o["arrow_names"] == m[0] and o["arrow_rows"] == m[1] \
                and len(o["rows"]) == len(m[2]) and all(
                    len(a) == len(b) and all(cell_ok(x, y) for x, y in zip(a, b)) for a, b in zip(m[2], o["rows"]))
            ctx.hit("kind:roundtrip")
            ctx.hit("rt-size:" + ("none" if size is None else "0" if size == 0 else "below" if size < len(rows) else "at-or-above"))
            ctx.hit("rt-lazy" if c.get("lazy") else "rt-eager")
            for t in c["types"]:
                ctx.hit("rt-coltype:" + t.split("(")[0].split("[")[0])
        elif k == "type":
            _, fenc, back = cmp_
            model_view, impl_view = {"field": m[0], "back": m[1]}, {"field": fenc, "back": back}
            agree = (m[0] == fenc and m[1] == back)
            ctx.hit("kind:type")
            ctx.hit("type:" + c["type"])
            if c.get("via"):
                ctx.hit("type-via:" + c["via"])
            if back[0] == "err":
                ctx.hit("type-error")
        else:
            _, o = cmp_
            model_view, impl_view = m[0], o
            agree = (m[0] == o)
            ctx.hit("kind:field")
            ctx.hit("field:" + c["arrow"][0])
            if o[0] == "err":
                ctx.hit("field-unmapped")
        ctx.case(c, nontrivial)
        # ---- oracle
        unknown = [(cl, d) for cl, d in fails if not _is_known(ctx, c, cl, d)]
        for cl, d in fails:
            if (cl, d) not in unknown:
                ctx.fail(c, cl, impl=impl_view, model=model_view, detail=d)  # counted as known finding
        if not hasattr(ctx, "_c11_reported"):
            ctx._c11_reported = set()
        seen_sigs = ctx._c11_reported
        unknown = [(cl, d) for cl, d in unknown if _norm(cl) not in seen_sigs]
        if unknown:
            cl, d = unknown[0]
            seen_sigs.add(_norm(cl))  # one minimised replay per way of failing; later ones are not shrunk again
            c_min = c
            if not ctx.replaying and k != "big":
                def still(c2):
                    if not valid_case(c2):
                        return False
                    try:
                        _, f2, _, _ = _impl_and_fails(c2)
                    except Exception:
                        return False
                    return any(_norm(x) == _norm(cl) and not _is_known(ctx, c2, x, dd) for x, dd in f2)
                c_min = c
                for cand in focus_candidates(c, d):
                    if still(cand):
                        c_min = cand
                        break
                c_min = shrink(c_min, still, budget=250)
            out2, f2, _, _ = _impl_and_fails(c_min)
            hit = [(x, dd) for x, dd in f2 if _norm(x) == _norm(cl)] or [(cl, d)]
            ctx.fail(c_min, hit[0][0], impl=out2, model=model_view if c_min is c else None, detail=hit[0][1])
        elif not fails and not agree:
            ctx.disagree(c, impl_view, model_view)


# --------------------------------------------------------------------------- generators

SPLIT_COLS = [{"name": "n", "type": "int64", "nullable": False}, {"name": "s", "type": "string"}]


def split_rows(n):
    return [[2**53 + 1 + i, None if i == 1 else "r%d" % i] for i in range(n)]


def compositions(n, k):
    """All ways of writing n as an ordered sum of k non-negative parts."""
    if k == 1:
        yield (n,)
        return
    for first in range(n + 1):
        for rest in compositions(n - first, k - 1):
            yield (first,) + rest


def exhaustive_split_cases(nmax, kmax):
    for n in range(nmax + 1):
        rows = split_rows(n)
        for k in range(1, kmax + 1):
            for parts in compositions(n, k):
                tables, pos = [], 0
                for p in parts:
                    tables.append([rows[pos:pos + p]])
                    pos += p
                for size in [None] + list(range(1, n + 2)):
                    yield {"kind": "iter", "cols": SPLIT_COLS, "tables": tables, "size": size}


def exhaustive_type_cases(full_grid):
    for t in ORSO_TYPES:
        if t == "DECIMAL":
            continue
        for nullable in (True, False):
            yield {"kind": "type", "type": t, "elem": None, "p": None, "s": None, "name": "c_" + t.lower(), "nullable": nullable}
    for e in ORSO_TYPES:
        yield {"kind": "type", "type": "ARRAY", "elem": e, "p": None, "s": None, "name": "arr", "nullable": True}
        yield {"kind": "type", "type": "ARRAY", "elem": e, "p": None, "s": None, "name": "arr", "nullable": True, "via": "schema"}
    step = 1 if full_grid else 3
    for p in range(0, 39):
        for s in range(0, p + 1):
            if full_grid or s in (0, 1, p - 1, p) or (p + s) % step == 0:
                yield {"kind": "type", "type": "DECIMAL", "elem": None, "p": p, "s": s, "name": "d", "nullable": True}
    for p, s in ((None, None), (10, None), (None, 3), (39, 0), (40, 40), (5, 7), (0, 3)):
        yield {"kind": "type", "type": "DECIMAL", "elem": None, "p": p, "s": s, "name": "d", "nullable": False}
    for t in ("INTEGER", "VARCHAR", "DATE", "TIMESTAMP", "DECIMAL"):
        kw = {"p": 12, "s": 0} if t == "DECIMAL" else {"p": None, "s": None}
        yield dict({"kind": "type", "type": t, "elem": None, "name": "via schema é", "nullable": True, "via": "schema"}, **kw)
    # an odd precision on a non-decimal column still goes through the eagerly built table
    yield {"kind": "type", "type": "INTEGER", "elem": None, "p": 39, "s": 0, "name": "i", "nullable": True}
    yield {"kind": "type", "type": "INTEGER", "elem": None, "p": 0, "s": 0, "name": "i", "nullable": True}


def exhaustive_field_cases():
    cat = catalogue()
    names = ["x", "", "é 日本", "a b|c"]
    i = 0
    for d in cat:
        for nullable in (True, False):
            if d == ["null"] and not nullable:
                continue  # pyarrow refuses a non-nullable null field
            yield {"kind": "field", "arrow": d, "name": names[i % len(names)], "nullable": nullable}
            i += 1
    elems = [["int64"], ["string"], ["float64"], ["bool_"], ["binary"], ["date32"], ["date64"], ["timestamp", "us"],
             ["time32", "ms"], ["null"], ["decimal128", 10, 2], ["month_day_nano_interval"], ["struct"], ["dictionary"],
             ["list_", ["int64"]]]
    for e in elems:
        for ctor in ("list_", "large_list"):
            yield {"kind": "field", "arrow": [ctor, e], "name": "l", "nullable": i % 2 == 0}
            i += 1
        yield {"kind": "field", "arrow": ["fixed_list", e, 3], "name": "l", "nullable": True}
    yield {"kind": "field", "arrow": ["list_view", ["int64"]], "name": "l", "nullable": True}
    for d in (["struct"], ["map_"], ["int64"], ["binary"]):
        for mp in (True, False):
            yield {"kind": "field", "arrow": d, "name": "m", "nullable": True, "mappable": mp}


EXT_COLTYPES = list(EXT_TYPES)

COLTYPES = ["int64", "int64", "int32", "int16", "int8", "uint64", "uint32", "uint16", "uint8", "float64", "float32", "string", "large_string", "bool",
            "binary", "timestamp[us]", "timestamp[ns]", "timestamp[ms]", "timestamp[us,UTC]", "timestamp[us,Europe/Paris]",
            "date32", "date64", "decimal128(10,2)", "decimal128(38,0)", "decimal128(5,5)", "list<int64>", "list<string>",
            "list<float64>"]

INT_RANGE = {"int8": (-2**7, 2**7 - 1), "int16": (-2**15, 2**15 - 1), "int32": (-2**31, 2**31 - 1),
             "int64": (-2**63, 2**63 - 1), "uint8": (0, 2**8 - 1), "uint16": (0, 2**16 - 1), "uint32": (0, 2**32 - 1),
             "uint64": (0, 2**64 - 1)}
TS_US_EDGES = [0, 1, -1, 1577934245678901, -31536000000000, 253370764800000000, -62135596800000000, 951782400000000]
TEXTS = ["", "a", "nan", "None", "é", "日本語", "\U0001f600", "line\nbreak", "x" * 40, " "]
FLOATS = [0.0, -0.0, 1.5, -2.25, 1e300, 5e-324, float("inf"), float("-inf"), float("nan"), 2.0**53, 0.1, 3.0]


def gen_cell(rng, ctype, null_p, allow_nan=True, nested_null=True):
    if rng.random() < null_p:
        return None
    if ctype in INT_TYPES:
        lo, hi = INT_RANGE[ctype]
        r = rng.random()
        if r < 0.3:
            v = rng.choice([0, 1, -1, 2**53, 2**53 + 1, -(2**53) - 1, 2**60 + 1, 2**63 - 1, -(2**63), 2**64 - 1, 255, 127])
            return min(max(v, lo), hi)
        if r < 0.6:
            return min(max(rng.randint(-50, 50), lo), hi)
        return rng.randint(lo, hi)
    if ctype in FLOAT_TYPES:
        if ctype == "float32":
            import struct

            v = rng.choice([0.0, -0.0, 1.5, -2.25, float("inf"), float("nan"), 0.1, 3.0, 16777217.0, rng.uniform(-100, 100)])
            v = struct.unpack("f", struct.pack("f", v))[0]
        else:
            v = rng.choice(FLOATS) if rng.random() < 0.5 else rng.uniform(-1e6, 1e6)
        if not allow_nan and v != v:
            v = 1.0
        return v
    if ctype in ("string", "large_string"):
        return rng.choice(TEXTS) if rng.random() < 0.6 else "".join(rng.choice("abcXYZ01 é日") for _ in range(rng.randint(0, 9)))
    if ctype == "bool":
        return rng.random() < 0.5
    if ctype in ("binary", "large_binary"):
        return bytes(rng.getrandbits(8) for _ in range(rng.randint(0, 6)))
    if ctype in ("dict<string>", "string_view"):
        return rng.choice(["a", "b", "", "é", "long string " * 3])
    if ctype == "duration[us]":
        return rng.choice([0, 1, -5, 10**12, -86400000000, rng.randint(-2**50, 2**50)])
    if ctype == "time32[ms]":
        return rng.choice([0, 1000, 86399999, rng.randint(0, 86399999)])
    if ctype == "time64[us]":
        return rng.choice([0, 1, 86399999999, rng.randint(0, 86399999999)])
    if ctype == "large_list<int64>":
        return [gen_cell(rng, "int64", 0.15 if nested_null else 0.0) for _ in range(rng.choice([0, 1, 2, 3]))]
    if ctype == "fixed_list<int64,2>":
        return [gen_cell(rng, "int64", 0.15 if nested_null else 0.0) for _ in range(2)]
    if ctype == "list<large_string>":
        return [gen_cell(rng, "string", 0.15) for _ in range(rng.choice([0, 1, 2]))]
    if ctype == "struct":
        return {"a": gen_cell(rng, "int64", 0.2), "b": gen_cell(rng, "string", 0.2)}
    if ctype == "map":
        keys = rng.sample(["k", "a", "b", "é", ""], rng.choice([0, 1, 2, 3]))
        return [[k, gen_cell(rng, "int64", 0.2)] for k in keys]
    if ctype.startswith("timestamp["):
        unit = ctype[len("timestamp["):-1].split(",")[0]
        if unit == "us":
            return rng.choice(TS_US_EDGES) if rng.random() < 0.4 else rng.randint(-2**50, 2**52)
        if unit == "ms":
            return rng.randint(-2**40, 2**42)
        return rng.randint(-2**62, 2**62)
    if ctype in ("date32", "date64"):
        return rng.choice([0, 1, -1, 18263, -719162, 2932896, 11016]) if rng.random() < 0.4 else rng.randint(-100000, 100000)
    if ctype.startswith("decimal128("):
        p, s = [int(x) for x in ctype[len("decimal128("):-1].split(",")]
        digits = rng.randint(0, 10 ** min(p, 30) - 1) if rng.random() < 0.7 else rng.choice([0, 1, 10 ** p - 1])
        sign = "-" if rng.random() < 0.4 and digits else ""
        txt = str(digits).rjust(s + 1, "0")
        return sign + (txt[:-s] + "." + txt[-s:] if s else txt)
    if ctype.startswith("list<"):
        inner = ctype[5:-1]
        n = rng.choice([0, 0, 1, 2, 3, 5])
        return [gen_cell(rng, inner, 0.15 if nested_null else 0.0, allow_nan=allow_nan) for _ in range(n)]
    raise InfraError("generator: " + ctype)


def split_random(rng, rows, max_tables):
    """Cut rows into tables and tables into chunks, with empty tables and empty chunks anywhere."""
    nt = rng.randint(1, max_tables)
    cuts = sorted(rng.randint(0, len(rows)) for _ in range(nt - 1))
    bounds = [0] + cuts + [len(rows)]
    tables = []
    for a, b in zip(bounds, bounds[1:]):
        part = rows[a:b]
        r = rng.random()
        if r < 0.55:
            chunks = [part]
        elif r < 0.65:
            chunks = [] if not part else [part[:1], [], part[1:]]
        elif r < 0.75 and len(part) >= 4:
            # many small batches: chunks of 0..3 rows
            chunks, pos = [], 0
            while pos < len(part):
                k = rng.choice([0, 1, 1, 2, 3])
                chunks.append(part[pos:pos + k])
                pos += k
        else:
            nc = rng.randint(1, 3)
            cc = sorted(rng.randint(0, len(part)) for _ in range(nc - 1))
            bb = [0] + cc + [len(part)]
            chunks = [part[x:y] for x, y in zip(bb, bb[1:])]
        tables.append(chunks)
    return tables


def random_iter_case(ctx, quiet_known=False, ext=False):
    rng = ctx.rng
    ncols = rng.choice([1, 1, 2, 2, 3, 4])
    types = [rng.choice(COLTYPES) for _ in range(ncols)]
    if ext:
        # an exact row id first (order and count are demanded), then kinds outside the property's list
        types = ["int64"] + [rng.choice(EXT_COLTYPES) for _ in range(rng.choice([1, 1, 2]))]
        ncols = len(types)
    n = rng.choice([0, 1, 2, 3, 4, 5, 6, 8, 12, 20]) if rng.random() < 0.85 else rng.randint(21, 120)
    cols, columns = [], []
    for j, t in enumerate(types):
        null_p = rng.choice([0.0, 0.0, 0.2, 0.5, 1.0])
        if (quiet_known and t in INT_TYPES) or (ext and j == 0):
            null_p = 0.0
        cells = [gen_cell(rng, t, null_p, nested_null=not quiet_known) for _ in range(n)]
        if ext and j == 0:
            cells = [2**53 + 1 + i for i in range(n)]
        has_null = any(c is None for c in cells)
        col = {"name": rng.choice(["a", "b", "c", "col", "é", "a b", ""]) + str(j), "type": t}
        if not has_null and rng.random() < 0.4:
            col["nullable"] = False
        cols.append(col)
        columns.append(cells)
    rows = [[columns[j][i] for j in range(ncols)] for i in range(n)]
    tables = split_random(rng, rows, rng.choice([1, 2, 3, 4, 6]))
    size = rng.choice([None, None, 1, 2, n, n + 1, max(1, n - 1)] + ([rng.randint(1, n)] if n else []))
    case = {"kind": "iter", "cols": cols, "tables": tables, "size": size}
    r = rng.random()
    if r < 0.12 and tables:
        case["via"] = "DataFrame.arrow"
    elif size is None and r < 0.3:
        case["via"] = "DataFrame"
    elif r < 0.45:
        case["via"] = "generator"
    elif r < 0.55:
        case["via"] = "tuple"
    elif r < 0.65 and len(tables) == 1:
        case["via"] = "single"
    if rng.random() < 0.25:
        case["stagger"] = True
    return case


RT_TYPES = ["int64", "int64", "float64", "string", "bool", "binary", "timestamp[us]", "timestamp[us,UTC]", "date32",
            "decimal128(10,2)", "decimal128(38,0)", "list<int64>", "list<string>", "list<float64>"]


def random_roundtrip_case(ctx, quiet_known=False):
    rng = ctx.rng
    ncols = rng.choice([1, 2, 2, 3, 4])
    types = [rng.choice(RT_TYPES) for _ in range(ncols)]
    n = rng.choice([0, 1, 2, 3, 4, 5, 6, 9, 15]) if rng.random() < 0.9 else rng.randint(16, 80)
    columns = []
    for t in types:
        null_p = rng.choice([0.0, 0.0, 0.25, 0.6, 1.0])
        if quiet_known and t in INT_TYPES:
            null_p = 0.0
        cells = []
        for _ in range(n):
            c = gen_cell(rng, t, null_p, nested_null=not quiet_known)
            if t == "int64" and c is not None:
                c = min(max(c, -2**63), 2**63 - 1)
            cells.append(c)
        columns.append(cells)
    rows = [[columns[j][i] for j in range(ncols)] for i in range(n)]
    names = [rng.choice(["a", "b", "name", "é", "x y"]) + str(j) for j in range(ncols)]
    size = rng.choice([None, None, 0, 1, 2, n, n + 1, max(0, n - 1)])
    case = {"kind": "roundtrip", "names": names, "types": types, "rows": rows, "size": size}
    if rng.random() < 0.3:
        case["lazy"] = True
    return case


def big_cases(ctx):
    rng = ctx.rng
    out = [
        {"kind": "big", "n": 10001, "nulls": [0, 10000], "size": None},
        {"kind": "big", "n": 25000, "nulls": [9999, 10000, 20000], "size": 20001, "start": 2**53},
        {"kind": "big", "n": 12000, "nulls": [], "size": None, "parts": [3, 0, 10001, 1996], "via": "DataFrame"},
    ]
    if ctx.tier == "thorough":
        for _ in range(6):
            n = rng.randint(10001, 40000)
            a = rng.randint(0, n)
            out.append({"kind": "big", "n": n, "nulls": sorted(rng.sample(range(n), 5)),
                        "size": rng.choice([None, n, n + 1, rng.randint(1, n), 10000, 10001]),
                        "parts": [a, 0, n - a], "start": rng.choice([0, 2**53, -2**62])})
    return out


CORPUS = [
    # the two repaired defects
    {"kind": "iter", "cols": [{"name": "a", "type": "int64"}], "tables": [[[[1], [2]]], [[]], [[[3]]]], "size": None},
    {"kind": "iter", "cols": [{"name": "a", "type": "int64"}], "tables": [[[]], [[[1], [2]]], [[[3]]]], "size": None},
    {"kind": "iter", "cols": [{"name": "a", "type": "int64"}], "tables": [[], [[[1]]], [[]], [[]], [[[2]]]], "size": 2, "via": "generator"},
    {"kind": "type", "type": "DECIMAL", "elem": None, "p": 10, "s": 0, "name": "x", "nullable": True},
    # no tables at all
    {"kind": "iter", "cols": [{"name": "a", "type": "int64"}], "tables": [], "size": None},
    {"kind": "iter", "cols": [{"name": "a", "type": "int64"}], "tables": [], "size": 3, "via": "generator"},
    # zero-row frames keep their column names
    {"kind": "roundtrip", "names": ["x", "y"], "types": ["int64", "string"], "rows": [], "size": None},
    {"kind": "roundtrip", "names": ["x", "y"], "types": ["int64", "string"], "rows": [[1, "a"], [2, None]], "size": 0},
    {"kind": "roundtrip", "names": ["x", "y"], "types": ["int64", "string"], "rows": [[2**53 + 1, "a"], [-2**63, None], [3, ""]], "size": 2, "lazy": True},
]


SCHEMA_DIFFERS = [
    # what from_arrow does with tables whose schema differs from the first table's (observed, not demanded)
    {"kind": "iter", "cols": [{"name": "a", "type": "int64"}], "size": None,
     "cols_by_table": {"1": [{"name": "b", "type": "string"}, {"name": "c", "type": "float64"}]},
     "tables": [[[[1], [2]]], [[["x", 1.5]]]]},
    {"kind": "iter", "cols": [{"name": "a", "type": "int64"}], "size": 2,
     "cols_by_table": {"1": [{"name": "a", "type": "float64"}]},
     "tables": [[[[1]]], [[[2.5], [3.5]]]]},
    {"kind": "iter", "cols": [{"name": "a", "type": "int64"}, {"name": "b", "type": "string"}], "size": None, "via": "DataFrame",
     "cols_by_table": {"1": [{"name": "b", "type": "string"}, {"name": "a", "type": "int64"}]},
     "tables": [[[[1, "x"]]], [[["y", 2]]]]},
]


def ext_type_cases():
    """One deterministic table per column kind outside the property's list."""
    import random

    rng = random.Random(12)
    for t in EXT_TYPES:
        for null_p in (0.0, 0.4):
            cells = [gen_cell(rng, t, null_p, nested_null=False) for _ in range(5)]
            rows = [[2**53 + 1 + i, c] for i, c in enumerate(cells)]
            cols = [{"name": "id", "type": "int64", "nullable": False}, {"name": "c", "type": t}]
            yield {"kind": "iter", "cols": cols, "tables": [[rows[:2], []], [[]], [rows[2:3], rows[3:]]],
                   "size": None if null_p == 0.0 else 4}


def many_batches_cases():
    """Chunked tables with many small batches (and batch sizes 1, 2, 7 through the size limit)."""
    n = 30
    rows = [[i, None if i % 5 == 0 else "r%d" % i] for i in range(n)]
    cols = [{"name": "n", "type": "int64", "nullable": False}, {"name": "s", "type": "string"}]
    one = [rows[i:i + 1] for i in range(n)]
    mixed = []
    for i in range(0, n, 3):
        mixed += [rows[i:i + 2], [], rows[i + 2:i + 3]]
    for chunks in (one, mixed):
        for size in (None, 1, 2, 7, n - 1, n, n + 1):
            for via in ("from_arrow", "DataFrame.arrow"):
                if via == "DataFrame.arrow" and size not in (None, 7):
                    continue
                yield {"kind": "iter", "cols": cols, "tables": [chunks[:20], [], chunks[20:]], "size": size, "via": via,
                       "stagger": size == 7}


def per_type_cases():
    """One small deterministic table per column type of the quantifier: no nulls, nulls, two tables, a limit."""
    import random

    rng = random.Random(11)
    for t in sorted(set(COLTYPES)):
        for null_p in (0.0, 0.4):
            cells = [gen_cell(rng, t, null_p, nested_null=False) for _ in range(5)]
            rows = [[c] for c in cells]
            yield {"kind": "iter", "cols": [{"name": "c", "type": t}], "tables": [[rows[:2]], [[]], [rows[2:]]],
                   "size": None if null_p == 0.0 else 4}


def _batched(ctx, cases, n=400):
    batch = []
    count = 0
    for c in cases:
        batch.append(c)
        if len(batch) >= n:
            evaluate(ctx, batch)
            count += len(batch)
            batch = []
    evaluate(ctx, batch)
    return count + len(batch)


def run(ctx):
    ctx.note("rule", "cases: real pyarrow tables / DataFrames / column definitions run on orso and on the Lean model "
             "(iterator machine, to_arrow transposition, generated type tables); non-trivial = at least one row "
             "(iter, roundtrip) or any column/field definition; distinct by canonical JSON of the case")
    ctx.note("assumptions", ["pyarrow/pandas cell conversion (Table.to_batches, RecordBatch.to_pandas, itertuples, "
                             "pyarrow type inference in Table.from_arrays) is external glue: compared cell by cell with "
                             "table.to_pylist() after the canonicalisation documented in harness/props/c11.py, not modelled",
                             "numeric pyarrow.lib.Type_* ids and the decimal128 precision range are read from the installed pyarrow"])
    sh = load_shadow()
    ctx.note("process_table_source_shadow", sh["status"])
    ctx.note("process_table_binary_vs_source", "source lines embedded in compiled.c are identical to compiled.pyx"
             if sh["stale"] == [] else ("no compiled.c to compare with" if sh["stale"] is None else sh["stale"][:10]))
    _batched(ctx, CORPUS)
    _batched(ctx, per_type_cases())
    _batched(ctx, ext_type_cases())
    _batched(ctx, many_batches_cases())
    _batched(ctx, SCHEMA_DIFFERS)
    nmax, kmax = ctx.scale((6, 4), (6, 4))
    n_split = _batched(ctx, exhaustive_split_cases(nmax, kmax))
    n_type = _batched(ctx, exhaustive_type_cases(True))
    n_field = _batched(ctx, exhaustive_field_cases())
    ctx.exhaustive = False
    ctx.note("exhaustive_scope", "every split of 0..%d rows into 1..%d tables (empty tables anywhere) x every size 1..N+1 and none "
             "(%d cases); every Orso type, every ARRAY element type, every DECIMAL (p,s) with 0<=s<=p<=38 (%d cases); "
             "a catalogue of %d Arrow fields; then random" % (nmax, kmax, n_split, n_type, n_field))
    _batched(ctx, big_cases(ctx), n=2)
    n_iter, n_rt = ctx.scale((1500, 700), (30000, 12000))
    done = 0
    while done < n_iter and ctx.time_left() > 8:
        k = min(300, n_iter - done)
        evaluate(ctx, [random_iter_case(ctx, quiet_known=(i % 2 == 0), ext=(i % 5 == 4)) for i in range(k)])
        done += k
    done = 0
    while done < n_rt and ctx.time_left() > 3:
        k = min(300, n_rt - done)
        evaluate(ctx, [random_roundtrip_case(ctx, quiet_known=(i % 2 == 0)) for i in range(k)])
        done += k


def intensify(ctx):
    for _ in range(10):
        if ctx.time_left() < 5:
            break
        evaluate(ctx, [random_iter_case(ctx, quiet_known=True) for _ in range(300)])
        evaluate(ctx, [random_roundtrip_case(ctx, quiet_known=True) for _ in range(200)])
    _batched(ctx, exhaustive_type_cases(True))
    _batched(ctx, exhaustive_field_cases())


def replay(ctx, case):
    if not valid_case(case):
        raise InfraError("stored case is not a valid C11 case: %r" % (case,))
    evaluate(ctx, [case])


# --------------------------------------------------------------------------- known findings


def _col_type(case, j):
    if case.get("kind") == "iter":
        return case["cols"][j]["type"]
    if case.get("kind") == "big":
        return ["int64", "string"][j]
    if case.get("kind") == "roundtrip":
        return case["types"][j]
    return None


def _known_int_null(case, failure):
    d = failure.get("detail") or {}
    if failure.get("clause") != "integer cells of a column containing a null come back as floats":
        return False
    t = _col_type(case, d.get("col"))
    if t not in INT_TYPES:
        return False
    # the column of that table really holds a null
    if case["kind"] == "iter":
        j = d["col"]
        return any(r[j] is None for ch in case["tables"][d["table"]] for r in ch)
    if case["kind"] == "roundtrip":
        return any(r[d["col"]] is None for r in case["rows"])
    return False


def _known_list_null(case, failure):
    d = failure.get("detail") or {}
    if failure.get("clause") != "numeric list cells of a column with a null element come back as floats with NaN":
        return False
    j = d.get("col")
    t = _col_type(case, j)
    if not (t and t.startswith("list<") and t[5:-1] in INT_TYPES + FLOAT_TYPES):
        return False
    # some cell of that column (of that table) really holds a null element
    if case["kind"] == "iter":
        cells = [r[j] for ch in case["tables"][d["table"]] for r in ch]
    elif case["kind"] == "roundtrip":
        cells = [r[j] for r in case["rows"]]
    else:
        return False
    return any(c is not None and any(x is None for x in c) for c in cells)


def _known_zoned_ts(case, failure):
    d = failure.get("detail") or {}
    if failure.get("clause") != "zone-aware timestamp before 1677-09-21 comes back as a different instant":
        return False
    t = _col_type(case, d.get("col"))
    e = d.get("expected")
    return bool(t) and t.startswith("timestamp[") and "," in t and t[:-1].split(",")[1] not in ("UTC", "utc") \
        and isinstance(e, list) and e[:1] == ["tsz"] and e[1] < PANDAS_NS_MIN_US


def _known_date(case, failure):
    return case.get("kind") == "type" and case.get("type") == "DATE" \
        and failure.get("clause") == "Orso type not preserved by the Arrow type mapping" \
        and (failure.get("detail") or {}).get("back") == "TIMESTAMP"


def _known_array_date(case, failure):
    return case.get("kind") == "type" and case.get("type") == "ARRAY" and case.get("elem") == "DATE" \
        and failure.get("clause") == "ARRAY element type not preserved by the Arrow type mapping" \
        and (failure.get("detail") or {}).get("back") == "TIMESTAMP"


def _known_array_decimal(case, failure):
    return case.get("kind") == "type" and case.get("type") == "ARRAY" and case.get("elem") == "DECIMAL" \
        and failure.get("clause") == "ARRAY element type not preserved by the Arrow type mapping" \
        and (failure.get("detail") or {}).get("back") is None


def _known_decimal_p0(case, failure):
    return case.get("kind") == "type" and case.get("type") == "DECIMAL" and case.get("p") == 0 \
        and failure.get("clause") == "DECIMAL precision/scale not preserved by the Arrow type mapping"


KNOWN_PREDICATES = {
    "int_column_with_null_becomes_float": _known_int_null,
    "numeric_list_with_null_element": _known_list_null,
    "zoned_timestamp_below_pandas_ns_range": _known_zoned_ts,
    "date_maps_to_timestamp": _known_date,
    "array_of_date_maps_to_timestamp": _known_array_date,
    "array_of_decimal_loses_element_type": _known_array_decimal,
    "decimal_precision_zero": _known_decimal_p0,
}
