"""C11 — Arrow interchange preserves rows, nulls, order and column typing.

Case kinds (all JSON-serialisable):

* ``iter``      real pyarrow tables (typed columns, nulls anywhere, any chunk layout, empty tables
                anywhere) -> ``from_arrow(tables, size)`` / ``DataFrame.from_arrow`` -> rows, column
                names, nullability.  Model: ``Arrow.fromArrowRows`` (iterator state machine).
* ``big``       the same on one generated table longer than BATCH_SIZE (batches below table length).
* ``roundtrip`` a DataFrame of Python values -> ``.arrow(size)`` -> ``DataFrame.from_arrow`` -> rows,
                column names.  Model: ``Arrow.roundtripRows``.
* ``seq``       ONE frame (lazily backed by the Arrow iterator / by a generator, or eager) and a history of calls on
                it: ``arrow(size)``, ``pandas(size)``, len/rowcount/shape/iteration, ``head``, cursor fetches,
                ``append``.  Every conversion and observation is judged against the rows the frame holds.
                Model: ``Arrow.run`` (Model/ArrowFrame.lean).
* ``schema``    several columns in one schema, Orso -> Arrow -> Orso (schema converters / from_arrow's own
                schema extraction).  Model: ``forths``.
* ``iter`` with ``via: iterator``: ``_RowsIterator`` constructed directly with an explicit batch size and limit.
* ``type``      FlatColumn(type, element_type, precision, scale) -> ``arrow_field`` ->
                ``FlatColumn.from_arrow`` (also through the schema-level converters).  Model:
                ``Arrow.arrowField`` / ``Arrow.fromArrowField`` over the generated tables.
* ``field``     a catalogue of Arrow fields -> ``FlatColumn.from_arrow``.  Model: ``Arrow.fromArrowField``.

Cells are canonicalised before any comparison (documented in ``canon``): numpy array <-> list,
numpy scalar <-> Python scalar, pandas.Timestamp <-> datetime with the same wall clock fields and
UTC offset, Decimal by exact value.  The expected cells are pyarrow's own ``table.to_pylist()``.
The pyarrow/pandas cell conversion is external glue: compared, not modelled.

`process_table` (compiled.pyx, cannot be rebuilt here) is additionally executed from the working
tree's *source*: a plain-Python transcription of the `.pyx` lines (`load_shadow`) replaces the binary
in a second run of every `iter`/`big` case.  The oracle is evaluated on both runs; binary and source
differing while the oracle is quiet is reported as a disagreement ("binary stale or source changed").

Column types outside the property's list (large_binary, large_list, fixed_size_list, struct, map,
duration, time, dictionary, string_view — `EXT_TYPES`) are exercised too: row count, order, the size
cut, names and nullability are demanded as for any table; their *cells* are compared and differences
only counted (`ext-cell-differs:*` in the evidence), because the statement does not speak about them.
"""
import datetime
import decimal
import itertools
import os
import re
import warnings
from fractions import Fraction

from .. import wire
from ..core import REPO, InfraError, match_known, shrink

warnings.filterwarnings("ignore")

INT_TYPES = ("int8", "int16", "int32", "int64", "uint8", "uint16", "uint32", "uint64")
FLOAT_TYPES = ("float32", "float64")
EPOCH_ORD = datetime.date(1970, 1, 1).toordinal()
EPOCH_UTC = datetime.datetime(1970, 1, 1, tzinfo=datetime.timezone.utc)
PANDAS_NS_MIN_US = -9223372036854776  # 1677-09-21T00:12:43.145224Z, lower end of pandas' nanosecond range
ORSO_TYPES = ["ARRAY", "BLOB", "BOOLEAN", "DATE", "DECIMAL", "DOUBLE", "INTEGER", "INTERVAL", "STRUCT",
              "TIMESTAMP", "TIME", "VARCHAR", "NULL", "JSONB", "_MISSING_TYPE"]
CARRIED_AS_BINARY = ("STRUCT", "JSONB")
# column kinds outside the property's list: rows/order/names demanded, cells only compared and counted
EXT_TYPES = ("large_binary", "large_list<int64>", "fixed_list<int64,2>", "list<large_string>", "struct", "map",
             "duration[us]", "time32[ms]", "time64[us]", "dict<string>", "string_view")
# Arrow types arrow_type_map has no entry for: from_arrow raises ValueError (tied to the model by the `field` cases)
REJECTED_TYPES = ("dict<string>", "string_view")


# --------------------------------------------------------------------------- building inputs


def _pa():
    import pyarrow

    return pyarrow


def arrow_type(ctype):
    pa = _pa()
    if ctype in INT_TYPES or ctype in FLOAT_TYPES:
        return getattr(pa, ctype)()
    if ctype == "string":
        return pa.string()
    if ctype == "large_string":
        return pa.large_string()
    if ctype == "bool":
        return pa.bool_()
    if ctype == "binary":
        return pa.binary()
    if ctype == "date32":
        return pa.date32()
    if ctype == "date64":
        return pa.date64()
    if ctype.startswith("timestamp["):
        inner = ctype[len("timestamp["):-1].split(",")
        return pa.timestamp(inner[0], tz=inner[1] if len(inner) > 1 else None)
    if ctype.startswith("decimal128("):
        p, s = ctype[len("decimal128("):-1].split(",")
        return pa.decimal128(int(p), int(s))
    if ctype.startswith("list<"):
        return pa.list_(arrow_type(ctype[5:-1]))
    if ctype == "large_binary":
        return pa.large_binary()
    if ctype == "large_list<int64>":
        return pa.large_list(pa.int64())
    if ctype == "fixed_list<int64,2>":
        return pa.list_(pa.int64(), 2)
    if ctype == "struct":
        return pa.struct([("a", pa.int64()), ("b", pa.string())])
    if ctype == "map":
        return pa.map_(pa.string(), pa.int64())
    if ctype == "duration[us]":
        return pa.duration("us")
    if ctype == "time32[ms]":
        return pa.time32("ms")
    if ctype == "time64[us]":
        return pa.time64("us")
    if ctype == "dict<string>":
        return pa.dictionary(pa.int32(), pa.string())
    if ctype == "string_view":
        return pa.string_view()
    raise ValueError("unknown column type " + ctype)


def _check_cells(ctype, cells):
    """Reject cells that are not of the column's kind (keeps shrinking inside valid cases)."""
    for c in cells:
        if c is None:
            continue
        if ctype in INT_TYPES or ctype in ("date32", "date64") or ctype.startswith("timestamp["):
            ok = isinstance(c, int) and not isinstance(c, bool)
        elif ctype in FLOAT_TYPES:
            ok = isinstance(c, float)
        elif ctype in ("string", "large_string") or ctype.startswith("decimal128("):
            ok = isinstance(c, str)
        elif ctype == "bool":
            ok = isinstance(c, bool)
        elif ctype in ("binary", "large_binary"):
            ok = isinstance(c, bytes)
        elif ctype in ("dict<string>", "string_view"):
            ok = isinstance(c, str)
        elif ctype == "duration[us]":
            ok = isinstance(c, int) and not isinstance(c, bool) and abs(c) < 2**62
        elif ctype == "time32[ms]":
            ok = isinstance(c, int) and not isinstance(c, bool) and 0 <= c < 86400000
        elif ctype == "time64[us]":
            ok = isinstance(c, int) and not isinstance(c, bool) and 0 <= c < 86400000000
        elif ctype in ("large_list<int64>", "fixed_list<int64,2>"):
            ok = isinstance(c, list) and (ctype != "fixed_list<int64,2>" or len(c) == 2)
            if ok:
                _check_cells("int64", c)
        elif ctype == "struct":
            ok = isinstance(c, dict) and list(c) == ["a", "b"]
            if ok:
                _check_cells("int64", [c["a"]])
                _check_cells("string", [c["b"]])
        elif ctype == "map":
            ok = isinstance(c, list) and all(isinstance(kv, list) and len(kv) == 2 and isinstance(kv[0], str) for kv in c) \
                and len({kv[0] for kv in c}) == len(c)
            if ok:
                _check_cells("int64", [kv[1] for kv in c])
        elif ctype.startswith("list<"):
            ok = isinstance(c, list)
            if ok:
                _check_cells(ctype[5:-1], c)
        else:
            ok = False
        if not ok:
            raise ValueError("cell %r is not a %s" % (c, ctype))


def mk_array(ctype, cells):
    pa = _pa()
    _check_cells(ctype, cells)
    t = arrow_type(ctype)
    if ctype.startswith("timestamp["):
        return pa.array(cells, type=pa.int64()).cast(t)
    if ctype == "date32":
        return pa.array(cells, type=pa.int32()).cast(t)
    if ctype == "date64":
        return pa.array([None if c is None else c * 86400000 for c in cells], type=pa.int64()).cast(t)
    if ctype.startswith("decimal128("):
        return pa.array([None if c is None else decimal.Decimal(c) for c in cells], type=t)
    if ctype == "dict<string>":
        return pa.array(cells, type=pa.string()).dictionary_encode()
    if ctype == "map":
        return pa.array([None if c is None else [(k, v) for k, v in c] for c in cells], type=t)
    if ctype in ("duration[us]", "time64[us]"):
        return pa.array(cells, type=pa.int64()).cast(t)
    if ctype == "time32[ms]":
        return pa.array(cells, type=pa.int32()).cast(t)
    return pa.array(cells, type=t)


def mk_table(cols, chunks, stagger=False, schema=None):
    """cols: [{name,type,nullable?}], chunks: list of chunks, each a list of rows (lists of cells).
    `schema`: build the table on this pyarrow.Schema object instead of a new (equal) one."""
    pa = _pa()
    arrays = []
    for j, col in enumerate(cols):
        parts = []
        for ch in chunks:
            for r in ch:
                if len(r) != len(cols):
                    raise ValueError("ragged row")
            parts.append(mk_array(col["type"], [r[j] for r in ch]))
        ca = pa.chunked_array(parts, type=arrow_type(col["type"]))
        if stagger and j % 2 == 1:
            ca = pa.chunked_array([ca.combine_chunks()] if len(ca) else [], type=arrow_type(col["type"]))
        arrays.append(ca)
    if schema is None:
        schema = pa.schema([pa.field(c["name"], arrow_type(c["type"]), nullable=c.get("nullable", True)) for c in cols])
    return pa.Table.from_arrays(arrays, schema=schema)


def py_value(ctype, c):
    """The Python value a DataFrame cell of this kind holds (roundtrip cases)."""
    if c is None:
        return None
    if ctype.startswith("timestamp["):
        v = datetime.datetime(1970, 1, 1) + datetime.timedelta(microseconds=c)
        if "," in ctype:
            v = v.replace(tzinfo=datetime.timezone.utc)
        return v
    if ctype in ("date32", "date64"):
        return datetime.date.fromordinal(EPOCH_ORD + c)
    if ctype.startswith("decimal128("):
        return decimal.Decimal(c)
    if ctype.startswith("list<"):
        return [py_value(ctype[5:-1], x) for x in c]
    return c


# --------------------------------------------------------------------------- canonical cells


def canon(v):
    """Canonical, wire-encodable form of a cell.

    numpy scalar -> Python scalar; numpy array / tuple -> list; datetime (pandas.Timestamp is one)
    -> naive: ["ts", y, m, d, H, M, S, us, ns], zone-aware: ["tsz", instant in us since the epoch, ns]
    (equal instants are equal); date -> ["date", y, m, d];
    Decimal -> ["dec", exact value as a fraction]; NaT -> ["NaT"]; timedelta (pandas.Timedelta is one) ->
    ["td", microseconds, ns]; time -> ["time", H, M, S, us].
    """
    import numpy

    if v is None:
        return None
    if isinstance(v, numpy.ndarray):
        return [canon(x) for x in v]
    if isinstance(v, numpy.generic):
        v = v.item()
        if v is None:
            return None
    if isinstance(v, (bool, int, float, str)):
        return v
    if isinstance(v, (bytes, bytearray)):
        return bytes(v)
    try:
        import pandas

        if v is pandas.NaT:
            return ["NaT"]
    except ImportError:
        pass
    if isinstance(v, datetime.datetime):
        ns = int(getattr(v, "nanosecond", 0))
        if v.utcoffset() is None:
            return ["ts", v.year, v.month, v.day, v.hour, v.minute, v.second, v.microsecond, ns]
        # zone-aware: the instant (microseconds since the epoch, exact integer arithmetic), so that
        # equal instants are equal whatever object describes the zone
        py = v.to_pydatetime(warn=False) if hasattr(v, "to_pydatetime") else v
        d = py - EPOCH_UTC
        return ["tsz", (d.days * 86400 + d.seconds) * 1000000 + d.microseconds, ns]
    if isinstance(v, datetime.date):
        return ["date", v.year, v.month, v.day]
    if isinstance(v, datetime.timedelta):  # pandas.Timedelta is one
        return ["td", (v.days * 86400 + v.seconds) * 1000000 + v.microseconds, int(getattr(v, "nanoseconds", 0))]
    if isinstance(v, datetime.time):
        return ["time", v.hour, v.minute, v.second, v.microsecond]
    if isinstance(v, decimal.Decimal):
        return ["dec", str(Fraction(v)) if v.is_finite() else str(v)]
    if isinstance(v, (list, tuple)):
        return [canon(x) for x in v]
    if isinstance(v, dict):
        return {str(k): canon(x) for k, x in v.items()}
    return ["?", type(v).__name__, repr(v)[:80]]


def canon_row(r):
    """A row orso delivered, cell by cell.  Something that is not a row at all (e.g. `None` handed out as a row)
    becomes a one-cell row describing it - to be judged by the oracle, not to raise inside the harness."""
    if isinstance(r, (str, bytes)) or not hasattr(r, "__iter__"):
        return [["?", "not a row", type(r).__name__, repr(r)[:40]]]
    return [canon(c) for c in r]


def _isnan(x):
    return isinstance(x, float) and x != x


def cell_ok(exp, got):
    """`got` equals the Arrow value `exp`; a NaN may surface as None; int/float/bool are distinct."""
    if _isnan(exp):
        return got is None or _isnan(got)
    if exp is None or got is None:
        return exp is None and got is None
    if isinstance(exp, list):
        return isinstance(got, list) and len(exp) == len(got) and all(cell_ok(a, b) for a, b in zip(exp, got))
    if isinstance(exp, dict):
        return isinstance(got, dict) and list(exp) == list(got) and all(cell_ok(exp[k], got[k]) for k in exp)
    if type(exp) is not type(got):
        return False
    return exp == got


def classify_cell(ctype, exp, got, column_has_null, column_has_nested_null=False):
    """Name the way a cell differs (used as the failure clause)."""
    if ctype in INT_TYPES and isinstance(exp, int) and not isinstance(exp, bool) and isinstance(got, float) \
            and column_has_null and got == float(exp):
        # exactly the float conversion of that integer (inexact above 2**53) - any other float is a new failure
        return "integer cells of a column containing a null come back as floats"
    if ctype.startswith("list<") and isinstance(exp, list) and isinstance(got, list) and len(exp) == len(got) \
            and ctype[5:-1] in INT_TYPES + FLOAT_TYPES and column_has_nested_null:
        rest_ok = all((a is None and _isnan(b)) or cell_ok(a, b)
                      or (isinstance(a, int) and isinstance(b, float) and not isinstance(a, bool) and b == float(a))
                      for a, b in zip(exp, got))
        if rest_ok:
            return "numeric list cells of a column with a null element come back as floats with NaN"
    if ctype.startswith("timestamp[") and "," in ctype and isinstance(exp, list) and exp[:1] == ["tsz"] \
            and isinstance(got, list) and got[:1] == ["tsz"] and exp[1] < PANDAS_NS_MIN_US \
            and ctype[:-1].split(",")[1] not in ("UTC", "utc"):
        return "zone-aware timestamp before 1677-09-21 comes back as a different instant"
    return "cell differs from the Arrow value"


# --------------------------------------------------------------------------- implementation adaptors


def cols_of(case, ti):
    """Column definitions of table `ti` (the `cols_by_table` override documents what from_arrow does
    with tables whose schema differs from the first table's)."""
    return case.get("cols_by_table", {}).get(str(ti), case["cols"])


def build_tables(case):
    return [mk_table(cols_of(case, ti), chunks, stagger=case.get("stagger", False))
            for ti, chunks in enumerate(case["tables"])]


def expected_rows_of(tables):
    out = []
    for t in tables:
        names = t.column_names
        cols = [t.column(i).to_pylist() for i in range(t.num_columns)]
        for i in range(t.num_rows):
            out.append([canon(c[i]) for c in cols])
    return out


# ---- process_table from the working tree's source (the binary cannot be rebuilt here)

_SHADOW = {}

C_TYPES = r"(?:unsigned\s+)?(?:int|long|short|char|float|double|bint|object|list|tuple|dict|str|bytes|Py_ssize_t|size_t|u?int\d+_t)"


def _pyx_function(name):
    path = os.path.join(REPO, "orso", "compute", "compiled.pyx")
    lines = open(path, encoding="utf-8").read().split("\n")
    start = next((i for i, l in enumerate(lines) if re.match(r"(?:def|cpdef|cdef)\s+(?:[\w\.]+\s+)*%s\s*\(" % name, l)), None)
    if start is None:
        raise KeyError("no top-level %s in compiled.pyx" % name)
    end = len(lines)
    for i in range(start + 1, len(lines)):
        if lines[i] and not lines[i][0].isspace() and not lines[i].startswith(")"):
            end = i
            break
    return start + 1, lines[start:end], lines


def load_shadow():
    """process_table as plain Python, transcribed line by line from the current compiled.pyx.

    Handles exactly the Cython idioms that function uses: C types in the signature, `cdef <type>
    name [= expr]` declarations, `<type>` casts.  Anything else makes the transcription fail to
    compile, which is reported (`unavailable`) and leaves the binary alone under test.
    Returns dict(fn=callable | None, status=str, stale=[...] | None).
    """
    if _SHADOW:
        return _SHADOW
    _SHADOW.update({"fn": None, "status": "unavailable", "stale": None})
    try:
        first, body, all_lines = _pyx_function("process_table")
        out = []
        for i, l in enumerate(body):
            if i == 0 or (out and out[0].count("(") > "".join(out).count(")") and not l.lstrip().startswith(("\"", "'"))):
                # signature (possibly spanning lines): drop C types of parameters, `cpdef`/`cdef` -> def
                if "".join(out).count("(") > "".join(out).count(")") or i == 0:
                    l = re.sub(r"^(?:cpdef|cdef)\s+(?:[\w\.]+\s+)*?(?=\w+\s*\()", "def ", l)
                    l = re.sub(r"(?<=[(,])\s*%s\s+(?=\w)" % C_TYPES, " ", l)
            m = re.match(r"(\s*)cdef\s+%s(?:\[[^\]]*\])?\s+(\w+)\s*(=.*)?$" % C_TYPES, l)
            if m:
                l = "%s%s %s" % (m.group(1), m.group(2), m.group(3) or "= None")
            l = re.sub(r"<\s*%s\s*\*?\s*>" % C_TYPES, "", l)
            out.append(l)
        src = "\n".join(out) + "\n"
        import numpy

        glob = {"np": numpy, "numpy": numpy}
        for l in all_lines:  # plain module-level imports of the .pyx (not cimport)
            if re.match(r"(?:import\s+\w|from\s+[\w\.]+\s+import\s)", l) and "cimport" not in l and "cython" not in l:
                try:
                    exec(l, glob)
                except Exception:
                    pass
        exec(compile(src, "compiled.pyx:process_table(shadow)", "exec"), glob)
        _SHADOW["fn"] = glob["process_table"]
        _SHADOW["status"] = "process_table transcribed from compiled.pyx lines %d-%d" % (first, first + len(body) - 1)
        _SHADOW["source"] = [l.strip() for l in body if l.strip() and not l.strip().startswith("#")]
    except Exception as e:
        _SHADOW["status"] = "unavailable: %s: %s" % (type(e).__name__, str(e)[:120])
        return _SHADOW
    # does the binary reflect this source?  Cython embeds the source lines in compiled.c
    try:
        cfile = os.path.join(REPO, "orso", "compute", "compiled.c")
        ctext = open(cfile, encoding="utf-8", errors="replace").read()
        embedded = {}
        for m in re.finditer(r'/\* "orso/compute/compiled\.pyx":(\d+)\n((?: \*[^\n]*\n)+?) ?\*/', ctext):
            for l in m.group(2).split("\n"):
                if "# <<<<<<<<<<<<<<" in l:
                    embedded[int(m.group(1))] = l[3:].split("# <<<<<<<<<<<<<<")[0].strip()
        diffs = []
        for k, l in enumerate(body):
            n = first + k
            if n in embedded and embedded[n] != l.strip():
                diffs.append("line %d: source %r, binary built from %r" % (n, l.strip(), embedded[n]))
        mine = [embedded[n] for n in sorted(embedded) if first <= n < first + len(body)]
        if not mine:
            diffs.append("no embedded source lines found for process_table")
        _SHADOW["stale"] = diffs
    except OSError:
        _SHADOW["stale"] = None
    return _SHADOW


# ---- the kind of *object* a size limit / batch size is given as (sixth pass)
# The quantifier says "all size limits 1..N+1": a limit is an integer, and integers reach `from_arrow(size=)`,
# `frame.arrow(size)` and `_RowsIterator(batch_size=, max_size=)` as other objects than a built-in int - what
# numpy / pandas arithmetic returns (numpy.int64 ... uint8), a bool (True is the integer 1), an int subclass
# (an IntEnum member, a wrapped id).  The unchanged tree treats each of them as the integer it is (measured:
# design_notes, "Sixth pass"), so "cut to the requested size" is demanded for them.  Numbers with an integral
# value that are not integers (2.0, Fraction(2), Decimal(2)) are accepted by the unchanged `from_arrow` and
# refused with a TypeError by `frame.arrow` (`head` slices with it): for those the oracle accepts a loud refusal
# and demands only that a conversion that *returns* is cut to the size - never silently everything.
# kind name -> class of the kind (the name the generated guard's type test is evaluated on in the model)
SIZE_KIND_CLASS = {
    "int": "int", "bool": "bool", "int-subclass": "int-subclass",
    "np.int8": "numpy-integer", "np.int16": "numpy-integer", "np.int32": "numpy-integer", "np.int64": "numpy-integer",
    "np.uint8": "numpy-integer", "np.uint16": "numpy-integer", "np.uint32": "numpy-integer", "np.uint64": "numpy-integer",
    "np.intp": "numpy-integer",
    "float": "float", "np.float64": "float", "Fraction": "other-real", "Decimal": "other-real",
}
SIZE_KINDS_DEMANDED = tuple(k for k, v in SIZE_KIND_CLASS.items() if v in ("int", "bool", "int-subclass", "numpy-integer"))
SIZE_KINDS_LOOSE = tuple(k for k in SIZE_KIND_CLASS if k not in SIZE_KINDS_DEMANDED)


class _IntSubclass(int):
    """An int subclass (what an IntEnum member or a typed id is to `isinstance(x, int)` / `type(x) is int`)."""
    __slots__ = ()


def size_kind_ok(kind, value):
    """Is `value` (an int >= 1) representable as an object of this kind with that integer value?"""
    if kind is None or kind == "int":
        return True
    if kind not in SIZE_KIND_CLASS or not isinstance(value, int) or isinstance(value, bool):
        return False
    if kind == "bool":
        return value == 1
    if kind.startswith("np.") and kind != "np.float64":
        import numpy
        info = numpy.iinfo(getattr(numpy, kind[3:]))
        return info.min <= value <= info.max
    return abs(value) < 2**53


def mk_size(kind, value):
    """The argument object: the integer `value` as an object of kind `kind` (None stays None)."""
    if value is None or kind is None or kind == "int":
        return value
    if kind == "bool":
        return bool(value)
    if kind == "int-subclass":
        return _IntSubclass(value)
    if kind.startswith("np."):
        import numpy
        return getattr(numpy, kind[3:])(value)
    if kind == "float":
        return float(value)
    if kind == "Fraction":
        import fractions
        return fractions.Fraction(value)
    if kind == "Decimal":
        import decimal
        return decimal.Decimal(value)
    raise ValueError("size kind %r" % (kind,))


# iterables of tables that are neither a generator object, a list nor a tuple: the statement speaks of "a sequence
# of tables", from_arrow's docstring of "an iterable"; what happens to them is observed and counted, not demanded
OTHER_ITERABLES = {
    "list_iterator": lambda ts: iter(list(ts)),
    "map": lambda ts: map(lambda t: t, ts),
    "chain": lambda ts: itertools.chain(ts[:1], ts[1:]),
    "deque": lambda ts: __import__("collections").deque(ts),
    "dict_values": lambda ts: {i: t for i, t in enumerate(ts)}.values(),
}


def _same_tables(handed, truth):
    """Does the container that was handed to orso still hold exactly the tables it held (same objects, same order)?"""
    return len(handed) == len(truth) and all(a is b for a, b in zip(handed, truth))


def run_iter_impl(case, tables, process_table=None):
    """-> dict(rows, names, nullable) or dict(raised=...).  `process_table`: run with this function in
    place of the compiled one (the transcription of the .pyx source).

    Nothing the harness keeps is handed to orso: the list orso receives is a private copy (`handed`), and
    after the call it is compared with the harness's own tuple of tables - a conversion must not modify its
    argument (`arg_mutated` in the result is judged by the oracle like any other output)."""
    truth = tuple(tables)
    handed = list(truth)
    out = _run_iter_impl(case, truth, handed, process_table)
    if not _same_tables(handed, truth):
        out["arg_mutated"] = {"tables_given": len(truth), "tables_left_in_the_list": len(handed)}
    return out


def _run_iter_impl(case, truth, handed, process_table):
    import orso.converters as oc
    from orso import DataFrame

    via = case.get("via", "from_arrow")
    size = mk_size(case.get("size_kind"), case.get("size"))
    batch = mk_size(case.get("batch_kind"), case.get("batch"))
    arg = handed
    if via == "generator":
        arg = (t for t in truth)
    elif via == "tuple":
        arg = truth
    elif via == "single":
        arg = truth[0]
    elif via in OTHER_ITERABLES:
        arg = OTHER_ITERABLES[via](truth)
    # the module global(s) of converters.py that hold the compiled function (`process_table` itself, or the name the
    # compiled function is kept under when `process_table` is a Python wrapper around it)
    import orso.compute.compiled as occ

    slots = [n_ for n_, v_ in list(vars(oc).items()) if v_ is occ.process_table] or ["process_table"]
    saved = {n_: getattr(oc, n_) for n_ in slots}
    if process_table is not None:
        for n_ in slots:
            setattr(oc, n_, process_table)
    # an iterator that never stops is a wrong row count, not a hanging harness
    cap = sum(t.num_rows for t in truth) + 8
    try:
        if via == "DataFrame":
            df = DataFrame.from_arrow(arg)
            rows = [canon_row(r) for r in df]
            schema = df.schema
            names = list(df.column_names) if schema else []
        elif via == "DataFrame.arrow":
            # a frame lazily backed by the Arrow iterator, converted back with arrow(size)
            df = DataFrame.from_arrow(arg)
            schema = df.schema
            try:
                table = df.arrow() if size is None else df.arrow(size)
            except Exception as e:
                return {"lazy_arrow_raised": "%s: %s" % (type(e).__name__, str(e)[:120]),
                        "names": list(schema.column_names), "nullable": [bool(c.nullable) for c in schema.columns]}
            pys = [table.column(j).to_pylist() for j in range(table.num_columns)]
            rows = [[canon(p[i]) for p in pys] for i in range(table.num_rows)]
            return {"rows": rows, "names": list(table.column_names), "arrow_rows": table.num_rows,
                    "nullable": [bool(c.nullable) for c in schema.columns]}
        elif via == "iterator":
            # `_RowsIterator` driven directly with an explicit batch size and limit (the way from_arrow
            # builds it), so that every batch size above and below the table lengths is exercised cheaply
            it0, schema = oc.from_arrow(handed)
            try:
                it = type(it0)(tables=iter(list(truth)), row_factory=it0.row_factory, batch_size=batch,
                               max_size=float("inf") if size is None else size)
            except (TypeError, AttributeError) as e:
                return {"unavailable": "%s: %s" % (type(e).__name__, str(e)[:120])}
            rows = [canon_row(r) for r in itertools.islice(it, cap)]
            names = list(schema.column_names) if schema else []
        else:
            it, schema = oc.from_arrow(arg, size) if size is not None else oc.from_arrow(arg)
            rows = [canon_row(r) for r in itertools.islice(it, cap)]
            names = list(schema.column_names) if schema else []
        nullable = [bool(c.nullable) for c in schema.columns] if schema else []
        return {"rows": rows, "names": names, "nullable": nullable,
                "coltypes": [col_enc(c)[1:5] for c in schema.columns] if schema else []}
    except InfraError:
        raise
    except Exception as e:
        return {"raised": "%s: %s" % (type(e).__name__, str(e)[:200])}
    finally:
        for n_, v_ in saved.items():
            setattr(oc, n_, v_)


def wire_same_loose(a, b):
    """Structural equality of canonical outputs (NaN equals NaN, -0.0 differs from 0.0, bool is not int)."""
    if isinstance(a, dict) and isinstance(b, dict):
        return list(a) == list(b) and all(wire_same_loose(a[k], b[k]) for k in a)
    if isinstance(a, (list, tuple)) and isinstance(b, (list, tuple)):
        return len(a) == len(b) and all(wire_same_loose(x, y) for x, y in zip(a, b))
    if type(a) is not type(b):
        return False
    if isinstance(a, float):
        return wire.fbits(a) == wire.fbits(b)
    return a == b


def mirror_rows(all_rows, size):
    return all_rows if size is None else all_rows[:size]


CLAUSE_MUTATED = "a conversion modified the list of tables it was given"
CLAUSE_LATER = "a later conversion of the same tables does not return one row per Arrow row, in order, cut to its size"


def iter_oracle(case, tables, out):
    """The property on the implementation's own output.  Returns a list of (clause, detail).
    Side channel: out["obs"] collects observations that are counted, not demanded.

    A conversion reads its argument: the list of tables the caller passed must hold the same tables afterwards
    (otherwise the *next* conversion of that list - another size, `DataFrame.from_arrow` after
    `converters.from_arrow`, a retry - no longer returns one row per Arrow row)."""
    fails = _iter_oracle(case, tables, out)
    if "arg_mutated" in out:
        fails = fails + [(CLAUSE_MUTATED, dict(out["arg_mutated"], via=case.get("via", "from_arrow")))]
    return fails


def _iter_oracle(case, tables, out):
    obs = out.setdefault("obs", [])
    cols = case["cols"]
    if "cols_by_table" in case:
        # tables whose schema differs from the first table's: outside the quantifier; observed only
        if "raised" in out:
            obs.append("schema-differs:raised")
        else:
            exp = mirror_rows(expected_rows_of(tables), case.get("size"))
            same = len(exp) == len(out["rows"]) and all(
                len(a) == len(b) and all(cell_ok(x, y) for x, y in zip(a, b)) for a, b in zip(exp, out["rows"]))
            first = out["names"] == list(tables[0].column_names)
            obs.append("schema-differs:" + ("rows-of-every-table-streamed-unchanged" if same else "rows-changed")
                       + (",schema-of-first-table" if first else ",other-schema"))
        return []
    rejected = [c["type"] for c in cols if c["type"] in REJECTED_TYPES]
    if case.get("via") in OTHER_ITERABLES:
        if "raised" in out:
            obs.append("other-iterable:%s:rejected:%s" % (case["via"], out["raised"].split(":")[0]))
            return []
        obs.append("other-iterable:%s:accepted" % case["via"])  # …and then judged like any other conversion
    if case.get("size_kind") or case.get("batch_kind"):
        obs.append("size-object:%s%s" % (case.get("size_kind") or "int", ",batch-object:" + case["batch_kind"] if case.get("batch_kind") else ""))
    if "raised" in out and case.get("size_kind") in SIZE_KINDS_LOOSE and out["raised"].split(":")[0] in ("TypeError", "ValueError"):
        # an integral number that is not an integer, refused loudly: nothing of the statement is broken
        obs.append("size-object-refused:%s:%s" % (case["size_kind"], out["raised"].split(":")[0]))
        return []
    if "raised" in out:
        if rejected and out["raised"].startswith("ValueError: Unable to map"):
            obs.append("ext-rejected:" + rejected[0])  # no entry in arrow_type_map (see the `field` cases)
            return []
        return [("from_arrow raised", {"error": out["raised"]})]
    if "lazy_arrow_raised" in out:
        obs.append("lazy-arrow-raised:" + out["lazy_arrow_raised"].split(":")[0])
        return []
    if "unavailable" in out:
        obs.append("iterator-class-not-constructible-directly")  # a refactor of the class: from_arrow still covers it
        return []
    size = case.get("size")
    exp = mirror_rows(expected_rows_of(tables), size)
    if case.get("read") is not None:  # a conversion of a `reuse` case that is read only this far
        exp = exp[:case["read"]]
    got = out["rows"]
    fails = []
    lazy_arrow = case.get("via") == "DataFrame.arrow"
    if len(got) != len(exp):
        fails.append(("row count differs from the number of Arrow rows cut to size", {"got": len(got), "expected": len(exp)}))
        return fails
    # which table does expected row i come from
    origin = []
    for ti, t in enumerate(tables):
        origin += [ti] * t.num_rows
    seen = set()
    # `from_arrow(...).arrow(size)`: the cells went through pandas and back into pyarrow's type inference, which
    # the statement does not speak about - except where nothing can be re-typed on the way: an int64 column
    # without a null (the row id of most cases), text, booleans, bytes.  Those are demanded (a conversion that
    # returns the right *number* of rows but other rows must not pass).
    lazy_exact = {j for j, col in enumerate(cols)
                  if (col["type"] == "int64" and not any(t.column(j).null_count for t in tables))
                  or col["type"] in ("string", "bool", "binary")} if lazy_arrow else set()
    for i, (e, g) in enumerate(zip(exp, got)):
        if len(g) != len(e):
            fails.append(("row width differs", {"row": i}))
            break
        for j, (a, b) in enumerate(zip(e, g)):
            if not cell_ok(a, b):
                if lazy_arrow and j not in lazy_exact:
                    obs.append("lazy-arrow-cell-differs:" + cols[j]["type"].split("(")[0].split("[")[0])
                    continue
                if cols[j]["type"] in EXT_TYPES:
                    obs.append("ext-cell-differs:" + cols[j]["type"])
                    continue
                ti = origin[i]
                has_null = tables[ti].column(j).null_count > 0
                nested = cols[j]["type"].startswith("list<") and any(
                    x is not None and any(y is None for y in x) for x in tables[ti].column(j).to_pylist())
                clause = classify_cell(cols[j]["type"], a, b, has_null, nested)
                if clause not in seen:
                    seen.add(clause)
                    fails.append((clause, {"row": i, "col": j, "table": ti, "expected": a, "got": b}))
    if tables:
        fails += schema_clauses(cols, tables[0].schema, out)
    return fails


def schema_clauses(cols, arrow_schema, out):
    """What the statement says about the columns built from an Arrow schema: the fields' names and nullability
    carry over; a decimal128(p, s) field comes back as DECIMAL(p, s)."""
    fails = []
    if out["names"] != list(arrow_schema.names):
        fails.append(("column names differ from the Arrow field names", {"got": out["names"], "expected": list(arrow_schema.names)}))
    want = [bool(f.nullable) for f in arrow_schema]
    if out["nullable"] != want:
        fails.append(("nullability not carried over from the Arrow fields", {"got": out["nullable"], "expected": want}))
    # a decimal128(p, s) field with 1 <= p <= 38 is the image of DECIMAL(p, s) under arrow_field
    # (C11.arrow_decimal_exact), so it has to come back as DECIMAL(p, s) - also when it is the second
    # or third decimal type of the table
    for j, col in enumerate(cols):
        if col["type"].startswith("decimal128(") and j < len(out.get("coltypes", [])):
            pp, ss = [int(x) for x in col["type"][len("decimal128("):-1].split(",")]
            got = out["coltypes"][j]
            if got[0] != "DECIMAL" or (got[2], got[3]) != (pp, ss):
                fails.append(("DECIMAL precision/scale not preserved by the Arrow type mapping",
                              {"col": j, "arrow": col["type"], "back": got}))
                break
    return fails


def iter_model_line(case, tables):
    """Tables as chunk lists of canonical expected rows (what pyarrow says the cells are)."""
    enc_tables = []
    for t in tables:
        cols = [t.column(i) for i in range(t.num_columns)]
        if not cols:
            enc_tables.append([])
            continue
        # chunk layout of the first column; the result does not depend on it (theorem
        # process_table_rows), the driver just has to be given some layout
        pys = [c.to_pylist() for c in cols]
        chunks, pos = [], 0
        for ch in cols[0].chunks:
            chunks.append([[canon(p[i]) for p in pys] for i in range(pos, pos + len(ch))])
            pos += len(ch)
        enc_tables.append(chunks)
    if case.get("via") == "DataFrame.arrow":
        # DataFrame.from_arrow(tables) (lazily backed, no size) then arrow(size): the `seq` op with that one call
        names = list(tables[0].column_names)
        return "C11 seq " + wire.line(names, "arrow", enc_tables, [["arrow", case.get("size")]])
    kc = SIZE_KIND_CLASS[case["size_kind"]] if case.get("size_kind") else None
    if case.get("via") == "iterator":
        # (the class takes `max_size` as it comes: no guard of its own looks at the kind of object)
        return "C11 iterb " + wire.line(enc_tables, case.get("size"), case["batch"])
    shape = {"from_arrow": "list", "DataFrame": "list", "tuple": "tuple", "generator": "generator",
             "single": "single"}.get(case.get("via", "from_arrow"))
    if shape is not None:
        # the shape of the argument goes to the model too: from_arrow's input dispatch is generated from the source
        if kc is not None:
            # ... and the kind of object the size is: the guard's type test (if it has one) is generated too
            return "C11 iter " + wire.line(enc_tables, case.get("size"), shape, kc)
        return "C11 iter " + wire.line(enc_tables, case.get("size"), shape)
    return "C11 iter " + wire.line(enc_tables, case.get("size"))


# ---- big tables


def batch_constant():
    """BATCH_SIZE as extracted from the working tree's from_arrow on this run (pinned 10000 if not found)."""
    import json

    try:
        from ..extract import GEN_DIR

        v = json.load(open(os.path.join(GEN_DIR, "generated.json"))).get("arrow.BATCH_SIZE", 10000)
        return int(v)
    except Exception:
        return 10000


def big_case_tables(case):
    pa = _pa()
    n = case["n"]
    nulls = set(case.get("nulls", []))
    a = pa.array(list(range(case.get("start", 0), case.get("start", 0) + n)), type=pa.int64())
    b = pa.array([None if i in nulls else "r%d" % i for i in range(n)], type=pa.string())
    parts = case.get("parts") or [n]
    tabs, pos = [], 0
    for k in parts:
        tabs.append(pa.Table.from_arrays([a.slice(pos, k), b.slice(pos, k)], names=["a", "b"]))
        pos += k
    if pos != n:
        raise ValueError("parts do not add up")
    return tabs


# ---- roundtrip


def run_roundtrip_impl(case):
    from orso import DataFrame

    types = case["types"]
    for t in types:
        arrow_type(t)  # rejects unknown column kinds
    rows = [tuple(py_value(t, c) for t, c in zip(types, r)) for r in case["rows"]]
    for r in case["rows"]:
        if len(r) != len(types):
            raise ValueError("ragged row")
        for t, c in zip(types, r):
            _check_cells(t, [c])
    names = list(case["names"])
    if len(names) != len(types) or any(not isinstance(x, str) for x in names):
        raise ValueError("bad names")
    size = mk_size(case.get("size_kind"), case.get("size"))
    try:
        if case.get("lazy"):
            df = DataFrame(rows=(r for r in rows), schema=names)
        else:
            df = DataFrame(rows=list(rows), schema=names)
        table = df.arrow() if size is None else df.arrow(size)
        back = DataFrame.from_arrow(table)
        got = [canon_row(r) for r in back]
        return {"rows": got, "names": list(back.column_names), "arrow_names": list(table.column_names),
                "arrow_rows": table.num_rows,
                "null_cols": [table.column(j).null_count > 0 for j in range(table.num_columns)]}, rows
    except InfraError:
        raise
    except Exception as e:
        return {"raised": "%s: %s" % (type(e).__name__, str(e)[:200])}, rows


def roundtrip_oracle(case, out, rows):
    if "raised" in out:
        return [("arrow()/from_arrow raised", {"error": out["raised"]})]
    size = case.get("size")
    exp = [[canon(c) for c in r] for r in (rows if size is None else rows[:size])]
    fails = []
    if out.get("arrow_names") != list(case["names"]):
        fails.append(("round trip changed the column names", {"where": "the Arrow table", "got": out.get("arrow_names"),
                                                               "columns": len(out.get("arrow_names") or []), "expected_columns": len(case["names"])}))
    elif out["names"] != list(case["names"]):
        fails.append(("round trip changed the column names", {"where": "the frame read back from the table", "got": out["names"]}))
    got = out["rows"]
    if len(got) != len(exp):
        fails.append(("round trip changed the number of rows", {"got": len(got), "expected": len(exp)}))
        return fails
    seen = set()
    for i, (e, g) in enumerate(zip(exp, got)):
        if len(e) != len(g):
            fails.append(("row width differs", {"row": i}))
            break
        for j, (a, b) in enumerate(zip(e, g)):
            if not cell_ok(a, b):
                has_null = out["null_cols"][j] if j < len(out["null_cols"]) else False
                nested = case["types"][j].startswith("list<") and any(
                    r[j] is not None and any(y is None for y in r[j]) for r in (case["rows"] if size is None else case["rows"][:size]))
                clause = classify_cell(case["types"][j], a, b, has_null, nested)
                if clause not in seen:
                    seen.add(clause)
                    fails.append((clause, {"row": i, "col": j, "table": 0, "expected": a, "got": b}))
    return fails


def roundtrip_model_line(case, rows):
    if case.get("size_kind"):
        return "C11 roundtrip " + wire.line(list(case["names"]), [[canon(c) for c in r] for r in rows], case.get("size"),
                                            SIZE_KIND_CLASS[case["size_kind"]])
    return "C11 roundtrip " + wire.line(list(case["names"]), [[canon(c) for c in r] for r in rows], case.get("size"))


# ---- one frame used more than once (`seq`)

# how the frame of a session came to be: from Arrow tables (list / generator of tables), from a generator of tuples,
# from a list of tuples, from dictionaries (the only kind whose `_nbytes` starts as None), or derived from another
# frame (eagerly: head/slice, query; lazily: select, filter)
SEQ_SOURCES = ("from_arrow", "from_arrow_gen", "generator", "list", "dicts", "derived-slice", "derived-query",
               "derived-select", "derived-filter")
SEQ_LAZY = ("from_arrow", "from_arrow_gen", "generator", "derived-select", "derived-filter")
SEQ_FROM_ARROW = ("from_arrow", "from_arrow_gen")
SEQ_UNIQUE_NAMES = ("dicts", "derived-select")  # built through a name -> value mapping / a lookup by name
# calls that materialise the frame and read (or size) every row; `nbytes` / `materialize` are followed by len()
SEQ_OBSERVERS = ("len", "rowcount", "shape", "iter", "nbytes", "materialize")
SEQ_OPS = ("arrow", "pandas", "head", "fetchone", "fetchmany", "fetchall", "append", "names") + SEQ_OBSERVERS
ARRAYSIZE = 100  # DataFrame.arraysize, what fetchmany() without a size fetches


def seq_frame(case, tables):
    """The frame a `seq` case starts from: lazily backed by the Arrow iterator (`from_arrow`, tables given
    as a list or as a generator), lazily backed by a plain generator of tuples, or eager (a list)."""
    from orso import DataFrame

    src = case["source"]
    if src == "from_arrow":
        return DataFrame.from_arrow(list(tables))
    if src == "from_arrow_gen":
        return DataFrame.from_arrow((t for t in tables))
    names = [c["name"] for c in case["cols"]]
    pyrows = []
    for t in tables:
        cols = [t.column(i).to_pylist() for i in range(t.num_columns)]
        pyrows += [tuple(c[i] for c in cols) for i in range(t.num_rows)]
    if src == "generator":
        return DataFrame(rows=(r for r in pyrows), schema=names)
    if src == "dicts":
        return DataFrame([dict(zip(names, r)) for r in pyrows])
    if src.startswith("derived-"):
        base = DataFrame(rows=list(pyrows), schema=names)
        if src == "derived-slice":
            return base.head(len(pyrows) + 3)
        if src == "derived-query":
            return base.query(lambda r: True)
        if src == "derived-select":
            return base.select(list(names))
        return base.filter([True] * len(pyrows))
    return DataFrame(rows=list(pyrows), schema=names)


def _canon_rows(rows):
    return [canon_row(r) for r in rows]


def run_seq_impl(case, tables):
    """Run the history on one frame -> list of per-call outputs (dicts)."""
    from orso import DataFrame

    try:
        df = seq_frame(case, tables)
    except InfraError:
        raise
    except Exception as e:
        return [{"raised": "building the frame: %s: %s" % (type(e).__name__, str(e)[:160])}]
    outs = []
    for op in case["ops"]:
        k = op[0]
        try:
            if k == "arrow":
                t = df.arrow() if op[1] is None else df.arrow(op[1])
                pys = [t.column(j).to_pylist() for j in range(t.num_columns)]
                back = DataFrame.from_arrow(t)
                outs.append({"table": [[canon(p[i]) for p in pys] for i in range(t.num_rows)],
                             "names": list(t.column_names), "num_rows": t.num_rows,
                             "back": _canon_rows(back), "back_names": list(back.column_names)})
            elif k == "pandas":
                pdf = df.pandas() if op[1] is None else df.pandas(op[1])
                outs.append({"ids": [int(x) for x in pdf.iloc[:, 0].tolist()], "names": [str(c) for c in pdf.columns],
                             "num_rows": len(pdf)})
            elif k == "len":
                outs.append({"n": len(df)})
            elif k == "rowcount":
                outs.append({"n": df.rowcount})
            elif k == "nbytes":
                nb = df.nbytes()
                outs.append({"n": len(df), "nbytes": nb})
            elif k == "materialize":
                df.materialize()
                outs.append({"n": len(df)})
            elif k == "shape":
                outs.append({"n": df.shape[0], "w": df.shape[1]})
            elif k == "iter":
                outs.append({"rows": _canon_rows(df)})
            elif k == "names":
                outs.append({"names": list(df.column_names)})
            elif k == "head":
                outs.append({"rows": _canon_rows(df.head(op[1]))})
            elif k == "fetchone":
                r = df.fetchone()
                outs.append({"rows": [] if r is None else _canon_rows([r])})
            elif k == "fetchmany":
                outs.append({"rows": _canon_rows(df.fetchmany() if op[1] is None else df.fetchmany(op[1]))})
            elif k == "fetchall":
                outs.append({"rows": _canon_rows(df.fetchall())})
            elif k == "append":
                if case["source"] == "dicts":
                    df.append(dict(zip([c["name"] for c in case["cols"]], op[1])))
                else:
                    df.append(tuple(op[1]))
                outs.append({"rows": []})
            else:
                raise InfraError("unknown seq op %r" % (op,))
        except InfraError:
            raise
        except Exception as e:
            outs.append({"raised": "%s: %s" % (type(e).__name__, str(e)[:160])})
    return outs


def seq_mirror(all_rows, case, fetch_takes=True, outs=None):
    """The specification of a history, written out (implementation and Lean model out of the picture).
    `fetch_takes=False` is the other reading of a fetch on a still-lazy frame (the cursor does not take rows
    out of the frame); `outs`: the implementation's outputs, only to see whether an `append` was refused.

    The rows a frame holds are its source's rows; `append` adds one to an eager frame; a cursor fetch on a
    frame that is *still lazy* takes the fetched rows out of it (the cursor is the row source - the reading
    `C11.lazy_fetch_takes_rows` documents); nothing else changes them.  Every conversion returns the rows
    held at that moment, cut to its size; every observation sees all of them.
    -> (list of expected outputs, valid?)  An output is ("table", rows) | ("rows", rows) | ("names",) | ("error",)."""
    rows = list(all_rows)
    lazy = case["source"] in SEQ_LAZY
    cursor = None if lazy else list(rows)  # eager: the rows the cursor has still to deliver
    appended = False
    exp, valid = [], True
    for i, op in enumerate(case["ops"]):
        k = op[0]
        if k in ("arrow", "pandas"):
            if lazy:
                lazy, cursor = False, []
            size = op[1]
            exp.append(("table", rows if size is None or size < 0 else rows[:size]))
        elif k in SEQ_OBSERVERS:
            if lazy:
                lazy, cursor = False, []
            exp.append(("rows", list(rows)))
        elif k == "names":
            exp.append(("names",))
        elif k == "head":
            if lazy:
                lazy, cursor = False, []
            exp.append(("rows", rows[:op[1]]))
        elif k in ("fetchone", "fetchmany", "fetchall"):
            n = 1 if k == "fetchone" else (None if k == "fetchall" else (ARRAYSIZE if op[1] is None else op[1]))
            if lazy:
                got = rows if n is None else rows[:n]
                if fetch_takes:
                    rows = [] if n is None else rows[n:]
                exp.append(("rows", got))
            elif appended:
                exp.append(("error",))
            else:
                got = cursor if n is None else cursor[:n]
                cursor = [] if n is None else cursor[n:]
                exp.append(("rows", got))
        elif k == "append":
            if case["source"] in SEQ_FROM_ARROW:
                valid = False  # a RelationSchema validates the entry as a dictionary (C05's subject): not generated
                exp.append(("error",))
            elif outs is not None and i < len(outs) and "raised" in outs[i]:
                exp.append(("error",))  # the frame refused the row (what append accepts is C05's subject)
            else:
                lazy = False  # (a lazily backed frame is materialised by append, then the row is added)
                rows = rows + [[canon(c) for c in op[1]]]
                appended = True
                exp.append(("rows", []))
        else:
            valid = False
            exp.append(("error",))
    return exp, rows, valid


def seq_lazy_fetch_at(case):
    """Index of the first cursor fetch made while the frame is still lazy, or None."""
    lazy = case["source"] in SEQ_LAZY
    for i, op in enumerate(case["ops"]):
        if op[0] in ("fetchone", "fetchmany", "fetchall") and lazy:
            return i
        if op[0] in ("arrow", "pandas", "head", "append") or op[0] in SEQ_OBSERVERS:
            lazy = False
    return None


def seq_model_ops(case):
    """The calls as the Lean model takes them (`names` has no model counterpart: it reads no rows)."""
    out = []
    for op in case["ops"]:
        k = op[0]
        if k in ("arrow", "pandas"):
            # (`pandas(size)` reaches to_arrow through three glue sites whose argument expressions are generated)
            out.append([k, op[1]])
        elif k in SEQ_OBSERVERS:
            out.append(["observe"])
        elif k == "head":
            out.append(["head", op[1]])
        elif k == "fetchone":
            out.append(["fetch", 1])
        elif k == "fetchmany":
            out.append(["fetch", ARRAYSIZE if op[1] is None else op[1]])
        elif k == "fetchall":
            out.append(["fetch", None])
        elif k == "append":
            out.append(["append", [canon(c) for c in op[1]]])
    return out


def seq_model_line(case, tables):
    names = [c["name"] for c in case["cols"]]
    enc_tables = []
    for t in tables:
        cols = [t.column(i) for i in range(t.num_columns)]
        pys = [c.to_pylist() for c in cols]
        chunks, pos = [], 0
        for ch in cols[0].chunks:
            chunks.append([[canon(p[i]) for p in pys] for i in range(pos, pos + len(ch))])
            pos += len(ch)
        enc_tables.append(chunks)
    if case["source"] in SEQ_FROM_ARROW:
        return "C11 seq " + wire.line(names, "arrow", enc_tables, seq_model_ops(case))
    rows = [r for t in enc_tables for ch in t for r in ch]
    return "C11 seq " + wire.line(names, "gen" if case["source"] in SEQ_LAZY else "list", rows, seq_model_ops(case))


def _rows_same(exp, got):
    return got is not None and len(exp) == len(got) and all(
        len(a) == len(b) and all(cell_ok(x, y) for x, y in zip(a, b)) for a, b in zip(exp, got))


SEQ_CLAUSE_CONV = "a conversion in a history of calls on one frame does not return the frame's rows cut to size"
SEQ_CLAUSE_HOLD = "a frame does not hold one row per source row, in order, after a history of calls on it"


def seq_oracle(case, tables, outs):
    """The property on the implementation's own outputs: every conversion (`arrow(size)`, also through
    `pandas(size)`) returns the rows the frame holds cut to its size with the frame's column names, and comes
    back from Arrow as those rows; every observation (len/rowcount/shape/iteration) sees every row."""
    if len(outs) != len(case["ops"]):
        return [("arrow()/from_arrow raised", {"error": outs[-1].get("raised") if outs else "no output"})]
    all_rows = expected_rows_of(tables)
    fails = _seq_oracle_reading(case, outs, seq_mirror(all_rows, case, True, outs)[0])
    if fails and seq_lazy_fetch_at(case) is not None:
        # A cursor fetch on a frame that is still lazy: the statement does not say whether the fetched rows
        # stay in the frame.  Today they do not (cursor and row source are one object); a frame whose cursor
        # is independent of its rows is as acceptable - but then consistently so for the rest of the history.
        if not _seq_oracle_reading(case, outs, seq_mirror(all_rows, case, False, outs)[0]):
            outs[0].setdefault("obs", []).append("seq-lazy-fetch-leaves-the-rows-in-the-frame")
            return []
    return fails


def _seq_oracle_reading(case, outs, exp):
    names = [c["name"] for c in case["cols"]]
    fails = []
    for i, (op, e, o) in enumerate(zip(case["ops"], exp, outs)):
        k = op[0]
        judged = k in ("arrow", "pandas") or k in SEQ_OBSERVERS
        if not judged:
            continue
        if "raised" in o:
            fails.append(("arrow()/from_arrow raised", {"step": i, "op": op, "error": o["raised"]}))
            break
        if k == "arrow":
            want = e[1]
            bad = None
            if not _rows_same(want, o["table"]) or o["num_rows"] != len(want):
                bad = "table"
            elif not _rows_same(want, o["back"]):
                bad = "rows read back from the table"
            elif o["names"] != names or o["back_names"] != names:
                bad = "column names"
            if bad:
                fails.append((SEQ_CLAUSE_CONV, {"step": i, "op": op, "what": bad, "expected_rows": len(want),
                                                "got_rows": o["num_rows"], "got_first": (o["table"] or [None])[0],
                                                "expected_first": (want or [None])[0]}))
                break
        elif k == "pandas":
            want = e[1]
            if o["ids"] != [r[0] for r in want] or o["num_rows"] != len(want) or o["names"] != names:
                fails.append((SEQ_CLAUSE_CONV, {"step": i, "op": op, "what": "pandas(size)", "expected_rows": len(want),
                                                "got_rows": o["num_rows"]}))
                break
        else:
            want = e[1]
            got_n = o["n"] if "n" in o else len(o["rows"])
            if got_n != len(want) or ("rows" in o and not _rows_same(want, o["rows"])):
                fails.append((SEQ_CLAUSE_HOLD, {"step": i, "op": op, "expected_rows": len(want), "got_rows": got_n}))
                break
    return fails


def seq_impl_matches(case, outs, mirror):
    """Does every output of the implementation that reads rows (conversions, observations, `head`) equal the
    written-out specification?  (Decides whether model != mirror is the harness's fault.)"""
    if len(outs) != len(case["ops"]):
        return False
    for op, e, o in zip(case["ops"], mirror, outs):
        k = op[0]
        if k in ("fetchone", "fetchmany", "fetchall", "append", "names"):
            continue
        if "raised" in o:
            return False
        if k == "arrow" and not (_rows_same(e[1], o["table"]) and _rows_same(e[1], o["back"])):
            return False
        if k == "pandas" and o["ids"] != [r[0] for r in e[1]]:
            return False
        if k in ("len", "rowcount", "shape", "nbytes", "materialize") and o["n"] != len(e[1]):
            return False
        if k in ("iter", "head") and not _rows_same(e[1], o["rows"]):
            return False
    return True


def seq_agrees(case, outs, mouts, mfinal):
    """Correspondence: every output of the implementation against the Lean model's (`step`), call by call."""
    names = [c["name"] for c in case["cols"]]
    mi = 0
    stop = seq_lazy_fetch_at(case)
    for i, (op, o) in enumerate(zip(case["ops"], outs)):
        k = op[0]
        if stop is not None and i >= stop:
            return True  # what a fetch on a lazy frame does to it is not C11's to fix (two readings, see seq_oracle)
        if k == "names":
            if o.get("names") != names:
                return False
            continue
        m = mouts[mi]
        mi += 1
        if k == "append" and "raised" in o:
            return True  # the frame refused the row: what append accepts is C05's subject
        if k in ("fetchone", "fetchmany", "fetchall", "append"):
            continue  # the cursor's own outputs are C04's subject
        if "raised" in o or m[0] == "error":
            return False
        if k == "arrow":
            if m[0] != "table" or m[1] != o["names"] or m[2] != o["num_rows"] or not _rows_same(m[3], o["table"]) \
                    or not _rows_same(m[3], o["back"]):
                return False
        elif k == "pandas":
            if m[0] != "table" or m[2] != o["num_rows"] or [r[0] for r in m[3]] != o["ids"]:
                return False
        elif k in ("len", "rowcount", "shape", "nbytes", "materialize"):
            if m[0] != "rows" or len(m[1]) != o["n"]:
                return False
        else:
            if m[0] != "rows" or not _rows_same(m[1], o["rows"]):
                return False
    return True


# ---- one list / tuple / table converted more than once (`reuse`)

REUSE_CONTAINERS = ("list", "tuple", "single")
REUSE_VIAS = ("from_arrow", "DataFrame")
REUSE_ORDERS = ("sequential", "interleaved")
# after an exact int64 row id (kinds whose cells come back exactly, so that every conversion can be judged cell by cell)
REUSE_COLTYPES = ("string", "bool", "float64", "binary", "decimal128(10,2)", "decimal128(10,0)", "decimal128(38,0)")


def reuse_args(case):
    """The argument objects of a `reuse` case as case-like dicts: the tables of the case and, optionally, a
    `second` set of tables (typically with the same column names and another typing / nullability)."""
    return [case] + ([case["second"]] if case.get("second") else [])


def reuse_conv(cv):
    """[via, size, read] or [via, size, read, which argument] -> (via, size, read, which)"""
    return cv[0], cv[1], cv[2], (cv[3] if len(cv) > 3 else 0)


def build_reuse_tables(case):
    return [[mk_table(a["cols"], chunks) for chunks in a["tables"]] for a in reuse_args(case)]


def run_reuse_impl(case, table_sets):
    """ONE argument object (the caller's list / tuple of tables, or a single table) - or two of them - converted
    several times: `convs` = [[via, size, read(, which)]] - `converters.from_arrow(arg, size)` or
    `DataFrame.from_arrow(arg)`, read to the end (`read` None) or only `read` rows and then abandoned.
    `sequential`: each conversion is read before the next is started; `interleaved`: all are started, then their
    rows are drawn in turn, one at a time.
    -> {"convs": [per conversion: rows/names/nullable or raised], "arg_mutated"?: …}"""
    import orso.converters as oc
    from orso import DataFrame

    cont = case["container"]
    truths = [tuple(ts) for ts in table_sets]
    handeds = [list(t) for t in truths]
    args = [h if cont == "list" else t if cont == "tuple" else t[0] for h, t in zip(handeds, truths)]
    convs = [reuse_conv(cv) for cv in case["convs"]]
    outs = [{"rows": [], "names": [], "nullable": [], "coltypes": []} for _ in convs]
    cap = max(sum(t.num_rows for t in truth) for truth in truths) + 8
    its = [None] * len(convs)

    def start(i):
        via, size, _, which = convs[i]
        arg = args[which]
        try:
            if via == "DataFrame":
                df = DataFrame.from_arrow(arg)
                schema = df.schema
                its[i] = ("frame", df)
            else:
                it, schema = oc.from_arrow(arg, size) if size is not None else oc.from_arrow(arg)
                its[i] = ("it", iter(it))
            outs[i]["names"] = list(schema.column_names) if schema else []
            outs[i]["nullable"] = [bool(c.nullable) for c in schema.columns] if schema else []
            outs[i]["coltypes"] = [col_enc(c)[1:5] for c in schema.columns] if schema else []
        except InfraError:
            raise
        except Exception as e:
            outs[i] = {"raised": "%s: %s" % (type(e).__name__, str(e)[:200])}
            its[i] = None

    def draw(i):
        """One more row of conversion i; False when it is finished (exhausted, read far enough, or raised)."""
        if its[i] is None or "raised" in outs[i]:
            return False
        read = convs[i][2]
        if read is not None and len(outs[i]["rows"]) >= read:
            return False
        try:
            if its[i][0] == "frame":
                its[i] = ("it", iter(its[i][1]))  # DataFrame.__iter__ (materialises the frame)
            r = next(its[i][1], _END)
        except InfraError:
            raise
        except Exception as e:
            outs[i] = {"raised": "%s: %s" % (type(e).__name__, str(e)[:200])}
            return False
        if r is _END:
            its[i] = None
            return False
        outs[i]["rows"].append(canon_row(r))
        return len(outs[i]["rows"]) < cap  # (an iterator that never stops: a wrong row count, not a hanging harness)

    n = len(convs)
    if case.get("order", "sequential") == "interleaved":
        for i in range(n):
            start(i)
        live = list(range(n))
        while live:
            live = [i for i in live if draw(i)]
    else:
        for i in range(n):
            start(i)
            while draw(i):
                pass
    out = {"convs": outs}
    for k, (handed, truth) in enumerate(zip(handeds, truths)):
        if not _same_tables(handed, truth) and "arg_mutated" not in out:
            out["arg_mutated"] = {"argument": k, "tables_given": len(truth), "tables_left_in_the_list": len(handed),
                                  "same_objects": [a is b for a, b in zip(handed, truth)]}
    return out


_END = object()


def reuse_expected(case, table_sets):
    """The specification, written out: every conversion returns the Arrow rows of all tables of *its* argument,
    cut to its own size, as far as it is read - whatever was converted before it or is being read beside it."""
    all_rows = [expected_rows_of(ts) for ts in table_sets]
    exp = []
    for cv in case["convs"]:
        via, size, read, which = reuse_conv(cv)
        rows = mirror_rows(all_rows[which], size)
        exp.append(rows if read is None else rows[:read])
    return exp


def reuse_oracle(case, table_sets, out):
    fails = []
    args = reuse_args(case)
    for i, (cv, o) in enumerate(zip(case["convs"], out["convs"])):
        via, size, read, which = reuse_conv(cv)
        sub = {"kind": "iter", "cols": args[which]["cols"], "tables": args[which]["tables"], "size": size, "read": read,
               "via": "DataFrame" if via == "DataFrame" else "from_arrow"}
        for cl, d in _iter_oracle(sub, table_sets[which], o):
            d = dict(d, conversion=i, conv=list(cv))
            if i == 0:
                fails.append((cl, d))       # the first conversion: the plain property
            else:
                fails.append(("%s (%s)" % (CLAUSE_LATER, cl), d))
        for ob in o.get("obs", []):
            out.setdefault("obs", []).append(ob)
        if fails:
            break
    if "arg_mutated" in out:
        fails.append((CLAUSE_MUTATED, dict(out["arg_mutated"], container=case["container"])))
    return fails


def _enc_table_set(tables):
    enc_tables = []
    for t in tables:
        cols = [t.column(i) for i in range(t.num_columns)]
        pys = [c.to_pylist() for c in cols]
        chunks, pos = [], 0
        for ch in (cols[0].chunks if cols else []):
            chunks.append([[canon(p[i]) for p in pys] for i in range(pos, pos + len(ch))])
            pos += len(ch)
        enc_tables.append(chunks)
    return enc_tables


def reuse_model_line(case, table_sets):
    return "C11 reuse " + wire.line([_enc_table_set(ts) for ts in table_sets],
                                    [[which, size, read] for _, size, read, which in map(reuse_conv, case["convs"])])


# ---- separate conversions, the owner of an earlier result edits it in between (`share`)
#
# A conversion hands its caller *mutable* objects (a RelationSchema, its list of columns, FlatColumn objects); the
# Arrow schema they were built from is immutable and compares by value.  So anything kept between two conversions
# under the Arrow schema (a memo on the schema helper, a per-field memo of columns, a frame-level memo of the table)
# turns "a copy" into "an alias": the owner of the first result renames a column, and the next, independent
# conversion of another table with an equal Arrow schema carries the edited name instead of its field's.
# Sessions: conversions of several tables (equal Arrow schemas - the very same Schema object or an equal one -, or
# the same names under another typing) through every entry point, interleaved with edits of earlier results; every
# conversion is judged from scratch against its own Arrow fields; results of separate conversions must share no
# mutable object; at the end every result must show exactly the edits made through it.
# `dir: to`: the other direction - Orso schema objects converted to Arrow (schema helper, with identities, per
# column, through a frame), edited, converted again: each conversion is judged against the columns as they are then.

SHARE_VIAS = ("from_arrow", "DataFrame", "helper", "fields")
SHARE_EDITS = ("rename", "nullable", "type", "pop", "append")
SHARE_COLTYPES = ("int64", "string", "bool", "float64", "binary", "decimal128(10,2)", "decimal128(10,0)", "decimal128(38,0)")
SHARE_EDIT_TYPES = ("VARCHAR", "INTEGER", "DOUBLE", "BOOLEAN", "BLOB", "TIMESTAMP")
SHARE_TO_VIAS = ("helper", "identities", "fields", "frame")
SHARE_TO_EDITS = ("rename", "nullable", "type", "precision", "scale", "elem", "pop", "append")
SHARE_TO_TYPES = ("INTEGER", "VARCHAR", "BOOLEAN", "DOUBLE", "BLOB", "TIMESTAMP")
SHARE_TO_ELEMS = ("INTEGER", "VARCHAR", "DOUBLE", "BOOLEAN")

CLAUSE_SHARE_LATER = "a conversion made after the result of an earlier conversion was edited does not carry over its own Arrow fields"
CLAUSE_SHARED = "separate conversions returned the same mutable schema / column objects"
CLAUSE_LEAK = "an edit made through the result of one conversion shows in the result of another conversion"
CLAUSE_TYPING_HISTORY = "column typing differs between two conversions of an equal Arrow schema"
CLAUSE_TO_STALE = "a conversion to Arrow does not describe the columns as they are when it is made"


def share_table_cols(case, t):
    return case["tables"][t].get("cols") or case["cols"]


def build_share_tables(case):
    """One table per entry; tables with equal column definitions are built on the very same pyarrow.Schema object
    unless the entry says `own` (then on an equal Schema of its own)."""
    import json

    shared, out = {}, []
    for t, spec in enumerate(case["tables"]):
        cols = share_table_cols(case, t)
        key = json.dumps(cols, sort_keys=True)
        if spec.get("own") or key not in shared:
            tb = mk_table(cols, [spec["rows"]])
            if not spec.get("own"):
                shared[key] = tb.schema
        else:
            tb = mk_table(cols, [spec["rows"]], schema=shared[key])
        out.append(tb)
    return out


def _share_mirror_edit(cols, what, j, value):
    """The edit on a result held by value ([name, nullable, type-or-None] per column) -> new list, or None (no such column)."""
    cols = [list(c) for c in cols]
    if what == "append":
        return cols + [[value, True, "VARCHAR"]]
    if not 0 <= j < len(cols):
        return None
    if what == "pop":
        return cols[:j] + cols[j + 1:]
    if what == "rename":
        cols[j][0] = value
    elif what == "nullable":
        cols[j][1] = value
    elif what == "type":
        cols[j][2] = value
    return cols


def share_mirror(case):
    """The specification, written out: a conversion's result is its own - (what each conversion returns as
    [name, nullable, None] per column, what each result shows at the end, valid?).  The third entry of a column is a
    type only where an edit set it."""
    seen, vals = [], []
    for st in case["steps"]:
        if st[0] == "conv":
            cols = [[c["name"], bool(c.get("nullable", True)), None] for c in share_table_cols(case, st[2])]
            seen.append(cols)
            vals.append([list(c) for c in cols])
        else:
            _, r, what, j, value = st
            if not 0 <= r < len(vals):
                return seen, vals, False
            new = _share_mirror_edit(vals[r], what, j, value)
            if new is None:
                return seen, vals, False
            vals[r] = new
    return seen, vals, True


def _share_read(res):
    """What a result shows now: [col_enc per column] (or a description of why it cannot be read)."""
    try:
        return [col_enc(c) for c in res["columns"]]
    except Exception as e:
        return {"unreadable": "%s: %s" % (type(e).__name__, str(e)[:120])}


def run_share_impl(case, tables):
    import orso.converters as oc
    from orso import DataFrame
    from orso.schema import FlatColumn, convert_arrow_schema_to_orso_schema
    from orso.types import OrsoTypes

    results, outs, edits = [], [], []
    schemas = [t.schema for t in tables]  # (one Python object per table, handed over again by every conversion of it)
    for st in case["steps"]:
        if st[0] == "conv":
            _, via, t = st
            table = tables[t]
            o = {}
            try:
                if via == "from_arrow":
                    it, schema = oc.from_arrow(table)
                    o["rows"] = [canon_row(r) for r in itertools.islice(it, table.num_rows + 8)]
                    res = {"schema": schema, "columns": schema.columns}
                    o["names"] = list(schema.column_names)
                elif via == "DataFrame":
                    df = DataFrame.from_arrow(table)
                    schema = df.schema
                    res = {"schema": schema, "columns": schema.columns}
                    o["names"] = list(df.column_names)
                    o["rows"] = [canon_row(r) for r in itertools.islice(iter(df), table.num_rows + 8)]
                    back = df.arrow()
                    o["arrow_names"] = list(back.column_names)
                    pys = [back.column(j).to_pylist() for j in range(back.num_columns)]
                    o["arrow_rows"] = [[canon(p[i]) for p in pys] for i in range(back.num_rows)]
                elif via == "helper":
                    schema = convert_arrow_schema_to_orso_schema(schemas[t])
                    res = {"schema": schema, "columns": schema.columns}
                    o["names"] = list(schema.column_names)
                else:
                    columns = [FlatColumn.from_arrow(f) for f in schemas[t]]
                    res = {"schema": None, "columns": columns}
                    o["names"] = [str(c.name) for c in columns]
                res["objs"] = list(res["columns"])
                o["cols"] = [col_enc(c) for c in res["objs"]]
                o["nullable"] = [c[5] for c in o["cols"]]
                o["coltypes"] = [c[1:5] for c in o["cols"]]
                shared = []
                for r0, e in enumerate(results):
                    if e is None:
                        continue
                    what = []
                    if res["schema"] is not None and res["schema"] is e["schema"]:
                        what.append("schema object")
                    if res["columns"] is e["columns"]:
                        what.append("list of columns")
                    if any(a is b for a in res["objs"] for b in e["objs"]):
                        what.append("column object")
                    if what:
                        shared.append([r0, what])
                if shared:
                    o["shared_with"] = shared
                results.append(res)
            except InfraError:
                raise
            except Exception as e:
                o = {"raised": "%s: %s" % (type(e).__name__, str(e)[:200])}
                results.append(None)
            outs.append(o)
        else:
            _, r, what, j, value = st
            res = results[r] if r < len(results) else None
            try:
                if res is None:
                    raise LookupError("no result to edit")
                if what == "rename":
                    res["columns"][j].name = value
                elif what == "nullable":
                    res["columns"][j].nullable = value
                elif what == "type":
                    res["columns"][j].type = OrsoTypes[value]
                elif what == "pop":
                    res["columns"].pop(j)
                elif what == "append":
                    res["columns"].append(FlatColumn(name=value, type=OrsoTypes.VARCHAR))
                edits.append("ok")
            except InfraError:
                raise
            except Exception as e:
                edits.append("%s: %s" % (type(e).__name__, str(e)[:120]))
    final = [None if res is None else _share_read(res) for res in results]
    return {"convs": outs, "edits": edits, "final": final}


def _share_cols_match(spec, encs):
    """Does a result (col encodings) show what the by-value specification says ([name, nullable, type-or-None])?"""
    if not isinstance(encs, list) or len(encs) != len(spec):
        return False
    return all(e[0] == s_[0] and e[5] == s_[1] and (s_[2] is None or e[1] == s_[2]) for s_, e in zip(spec, encs))


def share_oracle(case, tables, out):
    if case.get("dir") == "to":
        return share_to_oracle(case, out)
    seen, vals, _ = share_mirror(case)
    fails = []
    convs = [st for st in case["steps"] if st[0] == "conv"]
    first_typing = {}
    edited = False
    k = 0
    for st in case["steps"]:
        if st[0] != "conv":
            edited = True
            continue
        o, (_, via, t) = out["convs"][k], st
        cols = share_table_cols(case, t)
        mine = []
        if "raised" in o:
            mine.append(("from_arrow raised", {"error": o["raised"]}))
        else:
            if via in ("from_arrow", "DataFrame"):
                sub = {"kind": "iter", "cols": cols, "tables": [[case["tables"][t]["rows"]]], "size": None,
                       "via": "DataFrame" if via == "DataFrame" else "from_arrow"}
                mine += _iter_oracle(sub, [tables[t]], o)
            else:
                mine += schema_clauses(cols, tables[t].schema, o)
            if via == "DataFrame":
                exp = expected_rows_of([tables[t]])
                if o["arrow_names"] != list(tables[t].column_names):
                    mine.append(("round trip changed the column names", {"got": o["arrow_names"]}))
                elif not _rows_same(exp, o["arrow_rows"]):
                    mine.append(("round trip changed the rows", {"got": o["arrow_rows"][:3], "expected": exp[:3]}))
            key = wire.line(cols)
            if key in first_typing and first_typing[key][1] != o["coltypes"]:
                mine.append((CLAUSE_TYPING_HISTORY, {"earlier_conversion": first_typing[key][0], "earlier": first_typing[key][1],
                                                      "now": o["coltypes"]}))
            first_typing.setdefault(key, (k, o["coltypes"]))
            if o.get("shared_with"):
                mine.append((CLAUSE_SHARED, {"shared_with": o["shared_with"]}))
        for cl, d in mine:
            d = dict(d, conversion=k, conv=list(st))
            if edited and cl not in (CLAUSE_SHARED,):
                fails.append(("%s (%s)" % (CLAUSE_SHARE_LATER, cl), d))
            else:
                fails.append((cl, d))
        k += 1
        if fails:
            return fails
    for r, (spec, got) in enumerate(zip(vals, out["final"])):
        if got is not None and not _share_cols_match(spec, got):
            fails.append((CLAUSE_LEAK, {"conversion": r, "conv": list(convs[r]), "shows": got,
                                         "expected_names_nullability": [s_[:2] for s_ in spec]}))
            break
    return fails


def _share_fields_enc(table_schema):
    return [[f.name, arrow_ty_enc(f.type), bool(f.nullable)] for f in table_schema]


def share_model_line(case, tables):
    if case.get("dir") == "to":
        # the session itself goes to the model: schema objects, conversions, edits (the To machine of Model/ArrowShare.lean)
        return "C11 shareto " + wire.line([[[c["name"], c["type"], c.get("elem"), c.get("p"), c.get("s"), c.get("nullable", True)]
                                            for c in cols] for cols in case["schemas"]], case["steps"])
    steps = []
    for st in case["steps"]:
        if st[0] == "conv":
            site = {"from_arrow": "from_arrow", "DataFrame": "from_arrow", "helper": "helper", "fields": "field"}[st[1]]
            steps.append(["conv", site, _share_fields_enc(tables[st[2]].schema)])
        else:
            steps.append(["edit", st[1], st[2], st[3], st[4]])
    return "C11 share " + wire.line(steps)


# ---- … the other direction: Orso schema objects converted to Arrow, edited, converted again


def _share_to_edit(cols, what, j, value):
    cols = [dict(c) for c in cols]
    if what == "append":
        return cols + [_scol(value, "VARCHAR")]
    if not 0 <= j < len(cols):
        return None
    c = cols[j]
    if what == "pop":
        return cols[:j] + cols[j + 1:]
    if what == "rename":
        c["name"] = value
    elif what == "nullable":
        c["nullable"] = value
    elif what == "type":
        # (between types without precision / scale / element type: an edited object is not normalised again)
        if c["type"] not in SHARE_TO_TYPES or value not in SHARE_TO_TYPES:
            return None
        c["type"] = value
    elif what in ("precision", "scale"):
        if c["type"] != "DECIMAL":
            return None
        c["p" if what == "precision" else "s"] = value
        if not (isinstance(c["p"], int) and isinstance(c["s"], int) and 1 <= c["p"] <= 38 and 0 <= c["s"] <= c["p"]):
            return None
    elif what == "elem":
        if c["type"] != "ARRAY" or value not in SHARE_TO_ELEMS:
            return None
        c["elem"] = value
    return cols


def share_to_mirror(case):
    """-> (the columns of the converted schema object as they are at each conversion, valid?)"""
    state = [[dict(c) for c in cols] for cols in case["schemas"]]
    at_conv = []
    for st in case["steps"]:
        if st[0] == "conv":
            if not 0 <= st[2] < len(state):
                return at_conv, False
            at_conv.append([dict(c) for c in state[st[2]]])
        else:
            _, k, what, j, value = st
            if not 0 <= k < len(state):
                return at_conv, False
            new = _share_to_edit(state[k], what, j, value)
            if new is None or not new:
                return at_conv, False
            state[k] = new
    return at_conv, True


def _share_to_rows(cols0, n=2):
    cell = {"INTEGER": lambda i: 2**53 + 1 + i, "VARCHAR": lambda i: "r%d" % i, "BOOLEAN": lambda i: i % 2 == 0,
            "DOUBLE": lambda i: i + 0.5, "BLOB": lambda i: b"b%d" % i}
    return [tuple(cell.get(c["type"], lambda i: None)(i) for c in cols0) for i in range(n)]


def run_share_to_impl(case):
    from orso import DataFrame
    from orso.schema import FlatColumn, RelationSchema, convert_orso_schema_to_arrow_schema
    from orso.types import OrsoTypes

    def mk(c):
        kw = {}
        if c.get("p") is not None:
            kw["precision"] = c["p"]
        if c.get("s") is not None:
            kw["scale"] = c["s"]
        if c.get("elem") is not None:
            kw["element_type"] = _orso_type(c["elem"])
        return FlatColumn(name=c["name"], type=_orso_type(c["type"]), nullable=c.get("nullable", True), **kw)

    live = [RelationSchema(name="t%d" % k, columns=[mk(c) for c in cols]) for k, cols in enumerate(case["schemas"])]
    outs, edits = [], []
    for st in case["steps"]:
        if st[0] == "conv":
            _, via, k = st
            sch = live[k]
            try:
                if via == "frame":
                    # (every frame holds the rows laid out for the columns the schema had at the start and as many
                    # cells per row as the schema has columns now)
                    width = len(sch.columns)
                    rows = [tuple((list(r) + [None] * width)[:width]) for r in _share_to_rows(case["schemas"][k])]
                    table = DataFrame(rows=rows, schema=sch).arrow()
                    outs.append({"arrow_names": list(table.column_names), "arrow_rows": table.num_rows, "rows": len(rows)})
                    continue
                if via == "fields":
                    fields = [c.arrow_field for c in sch.columns]
                elif via == "identities":
                    fields = list(convert_orso_schema_to_arrow_schema(sch, use_identities=True))
                else:
                    fields = list(convert_orso_schema_to_arrow_schema(sch))
                fencs = [[f.name, arrow_ty_enc(f.type), bool(f.nullable)] for f in fields]
                backs = [col_enc(FlatColumn.from_arrow(f)) for f in fields]
                outs.append({"fields": fencs, "back": backs})
            except InfraError:
                raise
            except Exception as e:
                outs.append({"raised": "%s: %s" % (type(e).__name__, str(e)[:160])})
        else:
            _, k, what, j, value = st
            try:
                cols = live[k].columns
                if what == "rename":
                    cols[j].name = value
                elif what == "nullable":
                    cols[j].nullable = value
                elif what == "type":
                    cols[j].type = OrsoTypes[value]
                elif what == "precision":
                    cols[j].precision = value
                elif what == "scale":
                    cols[j].scale = value
                elif what == "elem":
                    cols[j].element_type = OrsoTypes[value]
                elif what == "pop":
                    cols.pop(j)
                elif what == "append":
                    cols.append(FlatColumn(name=value, type=OrsoTypes.VARCHAR))
                edits.append("ok")
            except InfraError:
                raise
            except Exception as e:
                edits.append("%s: %s" % (type(e).__name__, str(e)[:120]))
    return {"convs": outs, "edits": edits}


def share_to_oracle(case, out):
    at_conv, _ = share_to_mirror(case)
    convs = [st for st in case["steps"] if st[0] == "conv"]
    fails = []
    edited = False
    k = 0
    for st in case["steps"]:
        if st[0] != "conv":
            edited = True
            continue
        o, cols = out["convs"][k], at_conv[k]
        mine = []
        if "raised" in o:
            mine.append(("arrow_field/from_arrow raised", {"error": o["raised"]}))
        elif st[1] == "frame":
            if o["arrow_names"] != [c["name"] for c in cols]:
                mine.append(("round trip changed the column names", {"got": o["arrow_names"], "expected": [c["name"] for c in cols]}))
            elif o["arrow_rows"] != o["rows"]:
                mine.append(("round trip changed the number of rows", {"got": o["arrow_rows"], "expected": o["rows"]}))
        else:
            sub = {"kind": "schema", "cols": cols, "identities": st[1] == "identities"}
            mine += schema_oracle(sub, o["fields"], o["back"])
        for cl, d in mine:
            d = dict(d, conversion=k, conv=list(st))
            fails.append(("%s (%s)" % (CLAUSE_TO_STALE, cl), d) if edited else (cl, d))
        k += 1
        if fails:
            break
    return fails


def share_valid(c):
    if c.get("dir") == "to":
        if not isinstance(c.get("schemas"), list) or not 1 <= len(c["schemas"]) <= 3 or not isinstance(c.get("steps"), list):
            return False
        for cols in c["schemas"]:
            names = [x["name"] for x in cols]
            if not cols or len(set(names)) != len(names):
                return False
            for x in cols:
                if set(x) - {"name", "type", "elem", "p", "s", "nullable"} or not isinstance(x["name"], str):
                    return False
                t = x["type"]
                if t == "DECIMAL":
                    if not (isinstance(x.get("p"), int) and isinstance(x.get("s"), int) and 1 <= x["p"] <= 38 and 0 <= x["s"] <= x["p"]):
                        return False
                elif t == "ARRAY":
                    if x.get("elem") not in SHARE_TO_ELEMS or x.get("p") is not None or x.get("s") is not None:
                        return False
                elif t not in SHARE_TO_TYPES or x.get("p") is not None or x.get("s") is not None or x.get("elem") is not None:
                    return False
        nconv = 0
        for st in c["steps"]:
            if not isinstance(st, list) or not st:
                return False
            if st[0] == "conv":
                if len(st) != 3 or st[1] not in SHARE_TO_VIAS or not isinstance(st[2], int) or isinstance(st[2], bool):
                    return False
                nconv += 1
            elif st[0] == "edit":
                if len(st) != 5 or st[2] not in SHARE_TO_EDITS or any(isinstance(x, bool) or not isinstance(x, int) for x in (st[1], st[3])):
                    return False
                if st[2] in ("rename", "append") and not isinstance(st[4], str):
                    return False
                if st[2] == "nullable" and not isinstance(st[4], bool):
                    return False
                if st[2] in ("precision", "scale") and (isinstance(st[4], bool) or not isinstance(st[4], int)):
                    return False
            else:
                return False
        if not 1 <= nconv <= 8 or len(c["steps"]) > 16:
            return False
        at_conv, ok = share_to_mirror(c)
        if not ok:
            return False
        # the columns of a schema keep distinct names (a frame / an Arrow schema with a repeated name is another matter)
        return all(len({x["name"] for x in cols}) == len(cols) for cols in at_conv)
    if c.get("dir", "from") != "from" or not isinstance(c.get("tables"), list) or not c["tables"] or not isinstance(c.get("steps"), list):
        return False
    for t, spec in enumerate(c["tables"]):
        if not isinstance(spec, dict) or set(spec) - {"rows", "own", "cols"} or not isinstance(spec.get("rows"), list):
            return False
        cols = share_table_cols(c, t)
        if not cols or len({x["name"] for x in cols}) != len(cols) or any(x["type"] not in SHARE_COLTYPES for x in cols):
            return False
    nconv = 0
    for st in c["steps"]:
        if not isinstance(st, list) or not st:
            return False
        if st[0] == "conv":
            if len(st) != 3 or st[1] not in SHARE_VIAS or isinstance(st[2], bool) or not isinstance(st[2], int) \
                    or not 0 <= st[2] < len(c["tables"]):
                return False
            nconv += 1
        elif st[0] == "edit":
            if len(st) != 5 or st[2] not in SHARE_EDITS or any(isinstance(x, bool) or not isinstance(x, int) for x in (st[1], st[3])):
                return False
            if st[2] in ("rename", "append") and not isinstance(st[4], str):
                return False
            if st[2] == "nullable" and not isinstance(st[4], bool):
                return False
            if st[2] == "type" and st[4] not in SHARE_EDIT_TYPES:
                return False
        else:
            return False
    if not 1 <= nconv <= 8 or len(c["steps"]) > 16:
        return False
    if not share_mirror(c)[2]:
        return False
    for t, tb in enumerate(build_share_tables(c)):
        for j, col in enumerate(share_table_cols(c, t)):
            if tb.column(j).null_count and (col["type"] == "int64" or not col.get("nullable", True)):
                return False  # (an integer column with a null is the open finding K01; a non-nullable field holds no null)
    return True


def share_evaluate(ctx, c, out, fails, m, tables):
    """model vs written-out specification, model vs implementation -> (nontrivial, model view, impl view, agree)"""
    if c.get("dir") == "to":
        at_conv, _ = share_to_mirror(c)
        # model vs the written-out specification: the names written are those of the columns as they are at each conversion
        model_ok = len(m[0]) == len(at_conv) and all(
            isinstance(mo, list) and [mf[0] for mf, _ in mo] == [x["name"] for x in cols] for mo, cols in zip(m[0], at_conv))
        if not model_ok:
            convs_ = [s_ for s_ in c["steps"] if s_[0] == "conv"]
            impl_right = not fails and all(
                "raised" not in o and (st[1] == "identities" or (o["arrow_names"] if st[1] == "frame" else [f[0] for f in o["fields"]])
                                       == [x["name"] for x in cols]) for st, o, cols in zip(convs_, out["convs"], at_conv))
            if impl_right:
                _model_departs(ctx, c, "Lean conversion-to-Arrow session model disagrees with the Python mirror on %r" % (c,))
            ctx.disagree(c, out, m, what="the model generated from the source departs from the specification (a conversion to "
                                         "Arrow describes the columns as they are when it is made) on this input")
        agree = len(m[0]) == len(out["convs"]) and all(isinstance(mo, list) for mo in m[0])
        for st, cols, mo, o in zip([s_ for s_ in c["steps"] if s_[0] == "conv"], at_conv, m[0], out["convs"]):
            if "raised" in o or not isinstance(mo, list):
                agree = False
            elif st[1] == "frame":
                agree = agree and o["arrow_names"] == [mf[0] for mf, _ in mo]
            else:
                for (mf, mb), f, b in zip(mo, o["fields"], o["back"]):
                    if st[1] == "identities":
                        mf, f = mf[1:], f[1:]
                        mb, b = (mb[1:], b[1:]) if mb[0] != "err" and b[0] != "err" else (mb, b)
                    agree = agree and mf == f and mb == b
                agree = agree and len(mo) == len(o["fields"])
        ctx.hit("kind:share-to")
        for st in c["steps"]:
            ctx.hit("share-to-step:" + (st[0] + ":" + (st[1] if st[0] == "conv" else st[2])))
        nconv = sum(1 for s_ in c["steps"] if s_[0] == "conv")
        ctx.hit("share-to-conversions:%d" % min(nconv, 5))
        if len(c["schemas"]) > 1:
            ctx.hit("share-to-several-schema-objects")
        return nconv >= 2, m[0], out, agree
    seen, vals, _ = share_mirror(c)
    mseen, mfinal = m[0], m[1]

    def proj(encs):
        return None if not isinstance(encs, list) or (encs and encs[0] == "err") else [[e[0], e[5]] for e in encs]

    model_ok = len(mseen) == len(seen) and all(proj(a) == [s_[:2] for s_ in b] for a, b in zip(mseen, seen)) \
        and len(mfinal) == len(vals) and all(_share_cols_match(b, a) for a, b in zip(mfinal, vals))
    if not model_ok:
        impl_right = not fails and all("raised" not in o and proj(o["cols"]) == [s_[:2] for s_ in b]
                                       for o, b in zip(out["convs"], seen))
        if impl_right:
            _model_departs(ctx, c, "Lean conversion-session model disagrees with the Python mirror on %r" % (c,))
        ctx.disagree(c, out, m, what="the model generated from the source departs from the specification (every conversion "
                                     "returns columns of its own, built from its Arrow fields) on this input")
    agree = len(out["convs"]) == len(mseen) and all("raised" not in o and o["cols"] == a for o, a in zip(out["convs"], mseen)) \
        and out["final"] == mfinal
    ctx.hit("kind:share")
    convs = [s_ for s_ in c["steps"] if s_[0] == "conv"]
    ctx.hit("share-conversions:%d" % min(len(convs), 5))
    for st in c["steps"]:
        ctx.hit("share-step:" + (st[0] + ":" + (st[1] if st[0] == "conv" else st[2])))
    if len({s_[2] for s_ in convs}) < len(convs):
        ctx.hit("share-same-table-converted-again")
    if any(spec.get("own") for spec in c["tables"]):
        ctx.hit("share-equal-schema-in-a-distinct-Schema-object")
    if len(c["tables"]) > 1 and not all(spec.get("own") for spec in c["tables"][1:]):
        ctx.hit("share-very-same-Schema-object")
    if any(spec.get("cols") for spec in c["tables"]):
        ctx.hit("share-same-names-other-typing")
    if len({s_[1] for s_ in convs}) >= 2:
        ctx.hit("share-conversions-through-different-entry-points")
    first_conv = next((i for i, s_ in enumerate(c["steps"]) if s_[0] == "conv"), 0)
    if any(s_[0] == "edit" for s_ in c["steps"][first_conv:]) and c["steps"][-1][0] == "conv":
        ctx.hit("share-conversion-after-an-edit-of-an-earlier-result")
    return len(convs) >= 2, {"returned": mseen, "final": mfinal}, out, agree


# ---- column typing


def _orso_type(name):
    from orso.types import OrsoTypes

    return OrsoTypes[name]


def arrow_ty_enc(t):
    """pyarrow DataType -> the model's ArrowTy encoding."""
    import pyarrow.lib as lib

    names = {int(getattr(lib, k)): k[5:] for k in dir(lib) if k.startswith("Type_")}
    name = names.get(int(t.id), "?%d" % t.id)
    if name.startswith("DECIMAL"):
        return ["decimal", name, int(t.precision), int(t.scale)]
    if name in ("LIST", "LARGE_LIST", "FIXED_SIZE_LIST", "LIST_VIEW", "LARGE_LIST_VIEW"):
        return ["list", name, arrow_ty_enc(t.value_type)]
    return ["prim", name]


def col_enc(c):
    return [str(c.name), c.type.name if hasattr(c.type, "name") else str(c.type),
            None if c.element_type is None else c.element_type.name,
            c.precision, c.scale, bool(c.nullable)]


def _err_name(e):
    """ValueError (pyarrow.ArrowInvalid is one) is the error the model speaks about; anything else keeps its name."""
    return "ValueError" if isinstance(e, ValueError) else type(e).__name__


def run_type_impl(case):
    from orso.schema import FlatColumn, RelationSchema, convert_arrow_schema_to_orso_schema, \
        convert_orso_schema_to_arrow_schema

    kw = {}
    if case.get("p") is not None:
        kw["precision"] = case["p"]
    if case.get("s") is not None:
        kw["scale"] = case["s"]
    if case.get("elem") is not None:
        kw["element_type"] = _orso_type(case["elem"])
    # whatever orso does - also raising something other than the documented ValueError, in the constructor
    # or in either conversion - is an outcome to be judged, never a harness error
    try:
        col = FlatColumn(name=case["name"], type=_orso_type(case["type"]), nullable=case["nullable"], **kw)
        if case.get("via") == "schema":
            sch = RelationSchema(name="t", columns=[col])
            f = convert_orso_schema_to_arrow_schema(sch).field(0)
        else:
            f = col.arrow_field
        fenc = [f.name, arrow_ty_enc(f.type), bool(f.nullable)]
    except InfraError:
        raise
    except Exception as e:
        return [case["name"], ["invalid"], True], ["err", _err_name(e)]
    try:
        if case.get("via") == "schema":
            import pyarrow

            back = convert_arrow_schema_to_orso_schema(pyarrow.schema([f])).columns[0]
        else:
            back = FlatColumn.from_arrow(f)
        return fenc, col_enc(back)
    except InfraError:
        raise
    except Exception as e:
        return fenc, ["err", _err_name(e)]


def type_model_line(case):
    return "C11 forth " + wire.line(case["name"], case["type"], case.get("elem"), case.get("p"), case.get("s"), case["nullable"])


def type_in_quantifier(case):
    """Is this column one the typing clause speaks about?"""
    t, e, p, s = case["type"], case.get("elem"), case.get("p"), case.get("s")
    if t in CARRIED_AS_BINARY or t == "_MISSING_TYPE":
        return False
    if t == "DECIMAL":
        return p is not None and s is not None and 0 <= s <= p <= 38
    if p is not None or s is not None:
        return False  # precision/scale on a non-decimal column: outside the clause (correspondence only)
    if t == "ARRAY":
        # an unspecified element type defaults to VARCHAR (OrsoTypes.from_name does the same);
        # elements carried as binary are outside the clause like the types themselves
        return e is not None and e not in CARRIED_AS_BINARY and e != "_MISSING_TYPE"
    return True


def type_oracle(case, fenc, back):
    if not type_in_quantifier(case):
        return []
    t, e = case["type"], case.get("elem")
    if back[0] == "err":
        if t == "DECIMAL" and case["p"] == 0:
            return [("DECIMAL precision/scale not preserved by the Arrow type mapping", {"back": back})]
        return [("arrow_field/from_arrow raised", {"back": back})]
    fails = []
    if back[1] != t:
        fails.append(("Orso type not preserved by the Arrow type mapping", {"arrow": fenc[1], "back": back[1]}))
        return fails
    if t == "DECIMAL" and (back[3], back[4]) != (case["p"], case["s"]):
        fails.append(("DECIMAL precision/scale not preserved by the Arrow type mapping", {"arrow": fenc[1], "back": back[3:5]}))
    if t == "ARRAY" and back[2] != e:
        fails.append(("ARRAY element type not preserved by the Arrow type mapping", {"arrow": fenc[1], "back": back[2]}))
    return fails


def schema_col_case(col):
    """A column of a `schema` case as a `type` case (what the typing clause is evaluated on)."""
    return {"kind": "type", "type": col["type"], "elem": col.get("elem"), "p": col.get("p"), "s": col.get("s"),
            "name": col["name"], "nullable": col.get("nullable", True)}


def run_schema_impl(case):
    """Several columns in ONE schema, Orso -> Arrow -> Orso, through the schema-level converters
    (`via: schema`, optionally with `use_identities`) or through from_arrow on an empty table of the Arrow
    schema (`via: table`, the call site converters.from_arrow has of its own).
    -> (list of field encodings, list of column encodings) or ({"raised": …}, None)."""
    import orso.converters as oc
    from orso.schema import FlatColumn, RelationSchema, convert_arrow_schema_to_orso_schema, \
        convert_orso_schema_to_arrow_schema

    try:
        cols = []
        for c in case["cols"]:
            kw = {}
            if c.get("p") is not None:
                kw["precision"] = c["p"]
            if c.get("s") is not None:
                kw["scale"] = c["s"]
            if c.get("elem") is not None:
                kw["element_type"] = _orso_type(c["elem"])
            cols.append(FlatColumn(name=c["name"], type=_orso_type(c["type"]), nullable=c.get("nullable", True), **kw))
        sch = RelationSchema(name="t", columns=cols)
        asch = convert_orso_schema_to_arrow_schema(sch, use_identities=True) if case.get("identities") \
            else convert_orso_schema_to_arrow_schema(sch)
        fencs = [[f.name, arrow_ty_enc(f.type), bool(f.nullable)] for f in asch]
        if case.get("via") == "table":
            _, back_schema = oc.from_arrow(asch.empty_table())
        else:
            back_schema = convert_arrow_schema_to_orso_schema(asch)
        return fencs, [col_enc(c) for c in back_schema.columns]
    except InfraError:
        raise
    except Exception as e:
        return {"raised": "%s: %s" % (type(e).__name__, str(e)[:160])}, None


def schema_oracle(case, fencs, backs):
    if backs is None:
        return [("arrow_field/from_arrow raised", {"error": fencs["raised"]})]
    fails = []
    if len(backs) != len(case["cols"]):
        return [("Orso type not preserved by the Arrow type mapping", {"columns": len(backs), "expected": len(case["cols"])})]
    for j, (c, f, b) in enumerate(zip(case["cols"], fencs, backs)):
        for cl, d in type_oracle(schema_col_case(c), f, b):
            fails.append((cl, dict(d, col=j)))
        if not case.get("identities") and b[0] != c["name"]:
            fails.append(("Arrow field name not carried over to the column", {"col": j, "got": b[0]}))
    return fails


def schema_model_line(case):
    return "C11 forths " + wire.line([[c["name"], c["type"], c.get("elem"), c.get("p"), c.get("s"), c.get("nullable", True)]
                                      for c in case["cols"]])


def catalogue():
    """Arrow types for the `field` cases, as constructor descriptions."""
    prims = ["null", "bool_", "int8", "int16", "int32", "int64", "uint8", "uint16", "uint32", "uint64", "float16",
             "float32", "float64", "string", "large_string", "binary", "large_binary", "date32", "date64",
             "month_day_nano_interval", "string_view", "binary_view"]
    cat = [[p] for p in prims]
    cat += [["time32", "s"], ["time32", "ms"], ["time64", "us"], ["time64", "ns"], ["duration", "s"], ["duration", "ns"]]
    cat += [["timestamp", u] for u in ("s", "ms", "us", "ns")] + [["timestamp", "us", "UTC"], ["timestamp", "ns", "Europe/Paris"]]
    cat += [["decimal128", p, s] for p, s in ((1, 0), (1, 1), (10, 0), (10, 2), (28, 21), (38, 0), (38, 38), (5, 7))]
    cat += [["decimal256", p, s] for p, s in ((1, 0), (40, 3), (76, 76))]
    cat += [["decimal32", 5, 2], ["decimal64", 12, 3], ["binary", 4]]
    cat += [["struct"], ["map_"], ["dictionary"], ["run_end_encoded"]]
    return cat


def mk_arrow_type(d):
    pa = _pa()
    k = d[0]
    if k == "struct":
        return pa.struct([("a", pa.int64()), ("b", pa.string())])
    if k == "map_":
        return pa.map_(pa.string(), pa.int64())
    if k == "dictionary":
        return pa.dictionary(pa.int32(), pa.string())
    if k == "run_end_encoded":
        return pa.run_end_encoded(pa.int32(), pa.string())
    if k in ("list_", "large_list", "list_view", "large_list_view"):
        return getattr(pa, k)(mk_arrow_type(d[1]))
    if k == "fixed_list":
        return pa.list_(mk_arrow_type(d[1]), d[2])
    return getattr(pa, k)(*d[1:])


def run_field_impl(case):
    from orso.schema import FlatColumn

    pa = _pa()
    t = mk_arrow_type(case["arrow"])
    f = pa.field(case["name"], t, nullable=case["nullable"])
    try:
        c = FlatColumn.from_arrow(f, case.get("mappable", False)) if case.get("mappable") is not None \
            else FlatColumn.from_arrow(f)
        return col_enc(c), t
    except InfraError:
        raise
    except Exception as e:
        return ["err", _err_name(e)], t


def field_model_line(case, t):
    return "C11 back " + wire.line(case["name"], arrow_ty_enc(t), case["nullable"], bool(case.get("mappable", False)))


def field_oracle(case, out):
    if out[0] == "err":
        return []  # an Arrow type orso does not map: no column is built
    fails = []
    if out[0] != case["name"]:
        fails.append(("Arrow field name not carried over to the column", {"got": out[0]}))
    if out[5] != case["nullable"]:
        fails.append(("Arrow field nullability not carried over to the column", {"got": out[5]}))
    return fails


# --------------------------------------------------------------------------- evaluation


def _is_known(ctx, case, clause, detail):
    failure = {"clause": clause, "detail": detail}
    return any(k.get("status") == "open" and match_known(ctx.prop_id, k, case, failure) for k in ctx.known)


def valid_case(c):
    try:
        k = c.get("kind")
        if k == "iter":
            if not c["cols"] or any(not isinstance(x["name"], str) for x in c["cols"]):
                return False
            if not isinstance(c["tables"], list) or c.get("via") == "single" and len(c["tables"]) != 1:
                return False
            if c.get("via", "from_arrow") not in ("from_arrow", "DataFrame", "generator", "tuple", "single", "DataFrame.arrow",
                                                  "iterator") + tuple(OTHER_ITERABLES):
                return False
            if c.get("via") in OTHER_ITERABLES and not c["tables"]:
                return False
            if c.get("via") == "iterator" and (not c["tables"] or not isinstance(c.get("batch"), int) or c["batch"] < 1):
                return False
            if c.get("via") == "DataFrame.arrow" and not c["tables"]:
                return False
            if c.get("via") == "DataFrame" and c.get("size") is not None:
                return False
            if c.get("size") is not None and (not isinstance(c["size"], int) or c["size"] < 1):
                return False
            if c.get("size_kind") is not None and (c.get("size") is None or not size_kind_ok(c["size_kind"], c["size"])):
                return False
            if c.get("size_kind") in SIZE_KINDS_LOOSE and c.get("via", "from_arrow") not in ("from_arrow", "generator", "tuple", "single"):
                return False
            if c.get("batch_kind") is not None and (c.get("via") != "iterator" or c["batch_kind"] not in SIZE_KINDS_DEMANDED
                                                    or not size_kind_ok(c["batch_kind"], c["batch"])):
                return False
            ts = build_tables(c)
            # (a field declared non-nullable may hold nulls: Arrow does not check the data against Field.nullable,
            # `validate(full=True)` accepts such a table - the column built from the field still says nullable=False)
            for t in ts:
                t.validate(full=True)
            return True
        if k == "big":
            big_case_tables(c)
            return c.get("size") is None or c["size"] >= 1
        if k == "seq":
            cols = c["cols"]
            if not cols or any(not isinstance(x["name"], str) for x in cols) or c.get("source") not in SEQ_SOURCES:
                return False
            if c["source"] in SEQ_UNIQUE_NAMES and len({x["name"] for x in cols}) != len(cols):
                return False
            if c["source"] == "dicts" and not any(ch for t in c["tables"] for ch in t):
                return False  # the schema of such a frame is read off its first dictionary
            if cols[0]["type"] != "int64" or any(x["type"] not in SEQ_COLTYPES for x in cols):
                return False
            if not isinstance(c["tables"], list) or not c["tables"] or not isinstance(c["ops"], list) or len(c["ops"]) > 16:
                return False
            for op in c["ops"]:
                if not isinstance(op, list) or not op or op[0] not in SEQ_OPS:
                    return False
                if op[0] in ("arrow", "pandas", "fetchmany"):
                    if len(op) != 2 or not (op[1] is None or (isinstance(op[1], int) and not isinstance(op[1], bool))):
                        return False
                    if op[0] == "fetchmany" and op[1] is not None and op[1] < 0:
                        return False
                elif op[0] == "head":
                    if len(op) != 2 or not isinstance(op[1], int) or isinstance(op[1], bool) or op[1] < 0:
                        return False
                elif op[0] == "append":
                    # only frames whose schema is a list of names take a plain tuple (a frame built by
                    # from_arrow has a RelationSchema and validates the entry as a dictionary - C05's subject)
                    if c["source"] in SEQ_FROM_ARROW:
                        return False
                    if len(op) != 2 or not isinstance(op[1], list) or len(op[1]) != len(cols):
                        return False
                    for col, cell in zip(cols, op[1]):
                        _check_cells(col["type"], [cell])
                    if op[1][0] is None:
                        return False
                elif len(op) != 1:
                    return False
            ts = build_tables(c)
            if any(t.column(0).null_count for t in ts):
                return False  # the first column is the exact row id
            return seq_mirror(expected_rows_of(ts), c)[2]
        if k == "reuse":
            if c.get("container") not in REUSE_CONTAINERS or c.get("order", "sequential") not in REUSE_ORDERS:
                return False
            if "second" in c and not (isinstance(c["second"], dict) and set(c["second"]) == {"cols", "tables"}):
                return False
            for a_ in reuse_args(c):
                cols = a_["cols"]
                if not cols or len({x["name"] for x in cols}) != len(cols) or not isinstance(a_["tables"], list):
                    return False
                if cols[0]["type"] != "int64" or any(x["type"] not in REUSE_COLTYPES for x in cols[1:]):
                    return False
                if c["container"] == "single" and len(a_["tables"]) != 1:
                    return False
            if not isinstance(c["convs"], list) or not 1 <= len(c["convs"]) <= 10:
                return False
            for cv in c["convs"]:
                if not isinstance(cv, list) or len(cv) not in (3, 4) or cv[0] not in REUSE_VIAS:
                    return False
                for x in cv[1:3]:
                    if not (x is None or (isinstance(x, int) and not isinstance(x, bool))):
                        return False
                if cv[1] is not None and (cv[1] < 1 or cv[0] == "DataFrame"):
                    return False
                if cv[2] is not None and cv[2] < 0:
                    return False
                which = reuse_conv(cv)[3]
                if which not in (0, 1) or isinstance(which, bool) or which >= len(reuse_args(c)):
                    return False
                if cv[0] == "DataFrame" and not reuse_args(c)[which]["tables"]:
                    return False  # no table, no schema: DataFrame.from_arrow([]) refuses (outside the quantifier)
            for ts, a_ in zip(build_reuse_tables(c), reuse_args(c)):
                for t in ts:
                    if t.column(0).null_count:
                        return False  # the first column is the exact row id
                    for j, col in enumerate(a_["cols"]):
                        if not col.get("nullable", True) and t.column(j).null_count:
                            return False
            return True
        if k == "share":
            return share_valid(c)
        if k == "roundtrip":
            if not c["types"]:
                return False
            if c.get("size") is not None and (not isinstance(c["size"], int) or c["size"] < 0):
                return False
            if c.get("size_kind") is not None and (c.get("size") is None or c["size"] < 1 or c["size_kind"] not in SIZE_KINDS_DEMANDED
                                                   or not size_kind_ok(c["size_kind"], c["size"])):
                return False
            out, _ = run_roundtrip_impl(c)
            return True
        if k == "schema":
            names = [x["name"] for x in c["cols"]]
            if not c["cols"] or any(not isinstance(x, str) for x in names) or c.get("via", "schema") not in ("schema", "table"):
                return False
            if c.get("identities") and c.get("via") == "table":
                return False
            for x in c["cols"]:
                if not valid_case(schema_col_case(x)):
                    return False
                # (a precision the Arrow constructor rejects makes the whole schema raise: left to the `type` cases)
                if x.get("p") is not None and not 0 <= x["p"] <= 38 or x.get("s") is not None and x["s"] < 0:
                    return False
            return True
        if k == "type":
            return c["type"] in ORSO_TYPES and (c.get("elem") is None or c["elem"] in ORSO_TYPES) \
                and isinstance(c["name"], str) and isinstance(c["nullable"], bool)
        if k == "field":
            mk_arrow_type(c["arrow"])
            return isinstance(c["name"], str) and isinstance(c["nullable"], bool)
    except Exception:
        return False
    return False


def _impl_and_fails(case):
    """Run the implementation on a case -> (impl output for display, fails, model line, comparable output)."""
    k = case["kind"]
    if k in ("iter", "big"):
        tables = build_tables(case) if k == "iter" else big_case_tables(case)
        c2 = case if k == "iter" else dict(case, cols=[{"name": "a", "type": "int64"}, {"name": "b", "type": "string"}])
        out = run_iter_impl(c2, tables)
        fails = iter_oracle(c2, tables, out)
        sh = load_shadow()
        # (the exhaustive split family repeats the same tables for every size: the source run is made for
        # the sizes that change the batching most)
        if sh["fn"] is not None and not (k == "iter" and case["cols"] == SPLIT_COLS and case.get("size") not in (None, 1, 2)) \
                and not (k == "iter" and case.get("via") == "iterator" and case["cols"] == SPLIT_COLS and case["batch"] != 2) \
                and not case.get("binary_only"):
            out_s = run_iter_impl(c2, tables, process_table=sh["fn"])
            fails_s = iter_oracle(c2, tables, out_s)
            have = {cl for cl, _ in fails}
            fails = fails + [(cl, dict(d, process_table="as transcribed from compiled.pyx, not the binary"))
                             for cl, d in fails_s if cl not in have]
            a = {k: out.get(k) for k in ("rows", "raised", "names", "lazy_arrow_raised")}
            b = {k: out_s.get(k) for k in ("rows", "raised", "names", "lazy_arrow_raised")}
            if not wire_same_loose(a, b):
                out["shadow_differs"] = {"binary": a, "source": b}
        return out, fails, iter_model_line(case, tables), ("rows", out.get("rows"), mirror_rows(expected_rows_of(tables), case.get("size")))
    if k == "seq":
        tables = build_tables(case)
        outs = run_seq_impl(case, tables)
        return {"outputs": outs}, seq_oracle(case, tables, outs), seq_model_line(case, tables), ("seq", outs, tables)
    if k == "reuse":
        table_sets = build_reuse_tables(case)
        out = run_reuse_impl(case, table_sets)
        return out, reuse_oracle(case, table_sets, out), reuse_model_line(case, table_sets), ("reuse", out, table_sets)
    if k == "share":
        if case.get("dir") == "to":
            out = run_share_to_impl(case)
            return out, share_oracle(case, None, out), share_model_line(case, None), ("share", out, None)
        tables = build_share_tables(case)
        out = run_share_impl(case, tables)
        return out, share_oracle(case, tables, out), share_model_line(case, tables), ("share", out, tables)
    if k == "roundtrip":
        out, rows = run_roundtrip_impl(case)
        fails = roundtrip_oracle(case, out, rows)
        return out, fails, roundtrip_model_line(case, rows), ("roundtrip", out, rows)
    if k == "schema":
        fencs, backs = run_schema_impl(case)
        return {"fields": fencs, "back": backs}, schema_oracle(case, fencs, backs), schema_model_line(case), ("schema", fencs, backs)
    if k == "type":
        fenc, back = run_type_impl(case)
        return {"field": fenc, "back": back}, type_oracle(case, fenc, back), type_model_line(case), ("type", fenc, back)
    if k == "field":
        out, t = run_field_impl(case)
        return {"back": out}, field_oracle(case, out), field_model_line(case, t), ("field", out)
    raise InfraError("unknown case kind %r" % (k,))


def fails_standalone(case, sig):
    """Does `case` fail in the way `sig` (normalised clause) in a fresh interpreter, with nothing left over
    from earlier cases?  True / False / None (could not tell: treated as stand-alone)."""
    import json
    import subprocess
    import sys

    from ..core import VERIF, _jsonable

    code = ("import sys, json\n"
            "from harness import runner, core\n"
            "runner.setup_impl_path()\n"
            "from harness.props import c11\n"
            "case = core.unjson(json.load(sys.stdin))\n"
            "_, fails, _, _ = c11._impl_and_fails(case)\n"
            "known = [k for k in core.load_known() if k.get('property') == 'C11' and k.get('status') == 'open']\n"
            "fails = [(cl, d) for cl, d in fails\n"
            "         if not any(core.match_known('C11', k, case, {'clause': cl, 'detail': d}) for k in known)]\n"
            "print('\\n@@' + json.dumps([c11._norm(cl) for cl, _ in fails]))\n")
    try:
        p = subprocess.run([sys.executable, "-c", code], input=json.dumps(_jsonable(case)), cwd=VERIF,
                           capture_output=True, text=True, timeout=180)
        for line in p.stdout.split("\n"):
            if line.startswith("@@"):
                return sig in json.loads(line[2:])
    except Exception:
        pass
    return None


def flush_pending(ctx):
    """Report the failures for which no stand-alone case was found (with a note saying so)."""
    for sig, (c, cl, d, impl_view, model_view) in list(getattr(ctx, "_c11_pending", {}).items()):
        if sig in ctx._c11_reported:
            continue
        ctx._c11_reported.add(sig)
        ctx.fail(c, cl, impl=impl_view, model=model_view,
                 detail=dict(d, note="fails only after earlier cases in the same process (state left behind by them)"))
    if hasattr(ctx, "_c11_pending"):
        ctx._c11_pending.clear()


def _steps_first(case, steps):
    """the case with these steps, `steps` ahead of the tables (the structural shrinker works through a case in key order)"""
    out = {"kind": case["kind"], "dir": case.get("dir", "from"), "steps": steps}
    out.update({k_: v_ for k_, v_ in case.items() if k_ not in out})
    return out


def focus_candidates(case, detail):
    """Smaller cases around the failing cell: only its column (and only its table / its row)."""
    if case["kind"] == "seq" and (detail or {}).get("step") is not None:
        # the calls after the failing one do not matter; then try with only the calls that read or take rows
        cut = dict(case, ops=case["ops"][:detail["step"] + 1])
        yield dict(cut, cols=SEQ_COLS, tables=[[seq_rows(sum(len(ch) for t in case["tables"] for ch in t))]])
        yield cut
        return
    if case["kind"] == "reuse":
        i = (detail or {}).get("conversion")
        if case.get("second"):
            one = {k_: v_ for k_, v_ in case.items() if k_ != "second"}
            yield dict(one, convs=[cv[:3] for cv in case["convs"] if reuse_conv(cv)[3] == 0])
            if i is not None:
                yield dict(case, convs=case["convs"][:i + 1])
            return
        simple = dict(case, cols=SEQ_COLS, tables=[[seq_rows(sum(len(ch) for t in case["tables"] for ch in t))]])
        if i is not None:
            yield dict(simple, convs=case["convs"][:i + 1])
            yield dict(case, convs=case["convs"][:i + 1])
        yield simple
        return
    if case["kind"] == "share":
        # the steps after the failing conversion do not matter; of the conversions before it, one is enough (the one
        # whose result is shared with / was edited before the failing one): [that conversion, the edits made through its
        # result, the failing conversion]
        i = (detail or {}).get("conversion")
        if i is None:
            return
        cut, seen = case, -1
        for n_, st in enumerate(case["steps"]):
            seen += st[0] == "conv"
            if seen == i:
                cut = _steps_first(case, case["steps"][:n_ + 1])
                break
        if case.get("dir") == "to":
            # (edits go to schema objects, not to results: keep them all, drop the conversions in between)
            convs = [n_ for n_, st in enumerate(cut["steps"]) if st[0] == "conv"]
            for keep in ([convs[0], convs[-1]] if len(convs) > 2 else []), :
                if keep:
                    yield _steps_first(cut, [st for n_, st in enumerate(cut["steps"]) if st[0] != "conv" or n_ in keep])
            yield cut
            return
        first = [sw[0] for sw in (detail or {}).get("shared_with", [])]
        for r0 in first + [r for r in range(i - 1, -1, -1) if r not in first]:
            steps, k = [], -1
            for st in cut["steps"]:
                if st[0] == "conv":
                    k += 1
                    if k in (r0, i):
                        steps.append(st)
                elif st[1] == r0:
                    steps.append(["edit", 0] + list(st[2:]))
            yield _steps_first(cut, steps)
        yield cut
        return
    j = (detail or {}).get("col")
    if j is None:
        return
    if case["kind"] == "iter" and "cols_by_table" not in case:
        col = dict(case["cols"][j])
        tabs = [[[[r[j]] for r in ch] for ch in t] for t in case["tables"]]
        ti = detail.get("table", 0)
        one = dict(case, cols=[col], tables=[tabs[ti]])
        one.pop("stagger", None)
        if one.get("via") == "single" and len(one["tables"]) != 1:
            one.pop("via")
        yield dict(one, tables=[[[r for ch in tabs[ti] for r in ch]]])
        yield one
        yield dict(case, cols=[col], tables=tabs)
    elif case["kind"] == "roundtrip":
        yield dict(case, names=[case["names"][j]], types=[case["types"][j]], rows=[[r[j]] for r in case["rows"]])


def _decimal_cols(case):
    if case.get("kind") == "type":
        return [case] if case.get("type") == "DECIMAL" else []
    if case.get("kind") == "schema":
        return [x for x in case.get("cols", []) if x.get("type") == "DECIMAL"]
    return []


def _same_region(c0, c2):
    """Shrinking stays out of the known findings' territory: a failure seen on DECIMAL columns of precision >= 1
    is not minimised into precision 0 (open finding K06), where the replay would read like the known finding."""
    d0 = _decimal_cols(c0)
    if d0 and all((x.get("p") or 0) >= 1 for x in d0 if x.get("p") is not None):
        return all((x.get("p") or 0) >= 1 for x in _decimal_cols(c2) if x.get("p") is not None)
    return True


def _norm(clause):
    return "".join(ch for ch in clause if not ch.isdigit())


def _model_departs(ctx, case, msg):
    """The Lean model differs from the written-out specification on a case on which the implementation
    agrees with the specification.  On the unchanged tree that is a fault of the harness or the model (exit 2).
    But the model is assembled from expressions generated from the source: after a source change that breaks
    the property it follows the source away from the specification - also on inputs on which the changed
    implementation happens to be right.  So the verdict is postponed to the end of the run: if the property was
    seen to fail on the implementation the departure is recorded as a correspondence disagreement, if not it is
    a harness error."""
    if not hasattr(ctx, "_c11_departures"):
        ctx._c11_departures = []
    ctx._c11_departures.append((case, msg))
    ctx.hit("model-departs-from-the-specification-where-the-implementation-does-not")


def source_items_moved():
    """Extraction items (harness/extractors/c11*.py) whose value, read from the working tree on this run, differs from
    the pinned one (environment items excepted).  Empty on the unchanged tree."""
    import json
    import os

    from .. import extract

    try:
        with open(os.path.join(extract.GEN_DIR, "generated.json"), encoding="utf-8") as f:
            return list(json.load(f).get("arrow.differs_from_pinned", []))
    except Exception:
        return []


def settle_departures(ctx):
    deps = getattr(ctx, "_c11_departures", [])
    if not deps:
        return
    ctx._c11_departures = []
    if not ctx.violations:
        moved = source_items_moved()
        if not moved:
            raise InfraError(deps[0][1])
        # No failing input so far, but the definitions the model is assembled from were generated from a source that
        # differs from the pinned one in these items: the model follows the source.  That is a finding about the
        # source ("the code, as translated, no longer has the property on this input"), not a fault of the harness:
        # it is recorded as a correspondence disagreement, which makes the runner search on (`intensify`) and, if no
        # failing input turns up, report `no-failing-input-found` together with the theorems that stopped checking.
        ctx.note("model_follows_changed_source", {"extraction_items_differing_from_pinned": moved, "first_departure": deps[0][1][:300]})
    for case, msg in deps[:5]:
        ctx.disagree(case, None, None, what="the model generated from the (changed) source departs from the specification "
                                           "on an input on which the implementation does not: " + msg[:60])


def evaluate(ctx, cases):
    prepared = []
    for c in cases:
        try:
            prepared.append((c,) + _impl_and_fails(c))
        except InfraError:
            raise
        except Exception as e:
            raise InfraError("harness could not run case %r: %s: %s" % (c, type(e).__name__, e))
    mouts = ctx.model.batch([p[3] for p in prepared])
    for (c, out, fails, _line, cmp_), mo in zip(prepared, mouts):
        k = c["kind"]
        if not mo.startswith("ok "):
            raise InfraError("model rejected case %r: %r" % (c, mo))
        m = wire.dec_all(mo[3:])
        nontrivial, model_view, impl_view = True, None, None
        # ---- model vs mirror (implementation out of the picture), then model vs implementation
        if k in ("iter", "big"):
            _, got_rows, mirror = cmp_
            lazy_arrow = c.get("via") == "DataFrame.arrow"
            if lazy_arrow:  # the `seq` op answers [[["table", names, num_rows, rows]], rows held afterwards]
                mt = m[0][0] if m[0] and m[0][0][0] == "table" else ["table", [], -1, []]
                m = [mt[1], mt[2], mt[3]]
            mrows = m[2] if lazy_arrow else m[0]
            if not wire.same(mrows, mirror) or (lazy_arrow and m[1] != len(mirror)):
                # The model is assembled from expressions generated from the source, so it can follow a
                # changed source away from the specification.  Model wrong while the implementation is
                # right = a harness/model bug (exit 2); otherwise the source moved: report it.
                # (implementation right = it returns the mirror's rows cell for cell - also in the columns whose
                # cells the oracle only observes; otherwise nothing says the harness is the one at fault)
                impl_right = got_rows is not None and not fails and _rows_same(mirror, got_rows)
                if impl_right:
                    _model_departs(ctx, c, "Lean iterator model disagrees with the Python mirror on %r" % (c,))
                ctx.disagree(c, got_rows, mrows, what="the model generated from the source departs from the specification "
                                                     "(rows of all tables cut to size) on this input")
            nrows = len(mirror)
            nontrivial = nrows >= 1 and (k == "big" or len(c["tables"]) >= 1)
            model_view, impl_view = mrows, got_rows
            observed_only = lazy_arrow or "cols_by_table" in c or got_rows is None and not fails or "unavailable" in out \
                or (c.get("via") in OTHER_ITERABLES and got_rows is None)
            ext_cols = [j for j, col in enumerate(c.get("cols", [])) if col["type"] in EXT_TYPES] if k == "iter" else []
            agree = observed_only or (got_rows is not None and len(got_rows) == len(mrows) and all(
                len(a) == len(b) and all(j in ext_cols or cell_ok(x, y) for j, (x, y) in enumerate(zip(a, b)))
                for a, b in zip(mrows, got_rows)))
            if lazy_arrow and got_rows is not None:
                agree = len(got_rows) == len(mrows) and out.get("arrow_rows") == m[1] and out["names"] == m[0]
            for ob in out.get("obs", []):
                ctx.hit(ob)
            if out.get("shadow_differs") and not fails:
                ctx.disagree(c, out["shadow_differs"]["binary"], out["shadow_differs"]["source"],
                             what="the compiled process_table and its compiled.pyx source (transcribed) give different "
                                  "results: the binary is stale or the source changed")
            ctx.hit("kind:" + k)
            ctx.hit("via:" + c.get("via", "from_arrow"))
            total = sum(len(ch) for t in c["tables"] for ch in t) if k == "iter" else c["n"]
            ctx.hit("size:" + ("none" if c.get("size") is None else "below" if c["size"] < total else "at-or-above"))
            if k == "iter":
                nt = len(c["tables"])
                ctx.hit("tables:%d" % min(nt, 6))
                empties = [i for i, t in enumerate(c["tables"]) if sum(len(ch) for ch in t) == 0]
                if empties:
                    ctx.hit("empty-table:" + ("first" if 0 in empties else "later"))
                if not lazy_arrow and len(m) > 1 and m[0] != m[1]:
                    ctx.hit("pinned-iterator-would-lose-rows")
                if c.get("via") == "iterator":
                    longest = max([sum(len(ch) for ch in t) for t in c["tables"]] or [0])
                    ctx.hit("iterator-batch:" + ("below" if c["batch"] < longest else "at" if c["batch"] == longest else "above")
                            + "-longest-table")
                for col in c["cols"]:
                    ctx.hit("coltype:" + col["type"].split("(")[0].split("[")[0])
                for nc_ in name_class([col["name"] for col in c["cols"]]):
                    ctx.hit("iter-names:" + nc_)
                if c.get("stagger"):
                    ctx.hit("staggered-chunk-layout")
                if any(len(t) != 1 for t in c["tables"]):
                    ctx.hit("multi-chunk-table")
                if any(len(t) >= 10 for t in c["tables"]):
                    ctx.hit("many-small-batches")
        elif k == "seq":
            _, outs, tables = cmp_
            mirror, mirror_final, _ = seq_mirror(expected_rows_of(tables), c, True, None)
            for ob in (outs[0].get("obs", []) if outs else []):
                ctx.hit(ob)
            names = [col["name"] for col in c["cols"]]
            mouts, mfinal = m[0], m[1]
            mm = [e for e in mirror if e[0] != "names"]
            model_ok = len(mm) == len(mouts) and wire.same(mfinal, mirror_final)
            for e, mo_ in zip(mm, mouts):
                if not model_ok:
                    break
                if e[0] == "table":
                    model_ok = mo_[0] == "table" and mo_[1] == names and mo_[2] == len(e[1]) and wire.same(mo_[3], e[1])
                elif e[0] == "rows":
                    model_ok = mo_[0] == "rows" and wire.same(mo_[1], e[1])
                else:
                    model_ok = mo_[0] == "error"
            if not model_ok:
                # (the model is assembled from expressions generated from the source - `head`'s window
                # arithmetic among them - so it can follow a changed source away from the specification)
                if not fails and seq_impl_matches(c, outs, mirror):
                    _model_departs(ctx, c, "Lean frame model disagrees with the Python mirror on %r" % (c,))
                ctx.disagree(c, outs, mouts, what="the model generated from the source departs from the specification "
                                                  "(every conversion returns the frame's rows cut to size) on this input")
            nontrivial = len(expected_rows_of(tables)) >= 1 and len(c["ops"]) >= 1
            model_view, impl_view = {"outputs": mouts, "rows_after": mfinal}, {"outputs": outs}
            agree = len(outs) == len(c["ops"]) and seq_agrees(c, outs, mouts, mfinal)
            ctx.hit("kind:seq")
            ctx.hit("seq-source:" + c["source"])
            ctx.hit("seq-ops:%d" % min(len(c["ops"]), 8))
            nconv = sum(1 for op in c["ops"] if op[0] in ("arrow", "pandas"))
            ctx.hit("seq-conversions:%d" % min(nconv, 4))
            sizes = [op[1] for op in c["ops"] if op[0] in ("arrow", "pandas")]
            if len(sizes) >= 2 and len(set(map(str, sizes))) >= 2:
                ctx.hit("seq-conversions-with-different-sizes")
            lazy_now = c["source"] in SEQ_LAZY
            names_ = [x["name"] for x in c["cols"]]
            for nc_ in name_class(names_):
                ctx.hit("seq-names:" + nc_)
            kinds_ = [op[0] for op in c["ops"]]
            for i_ in range(len(kinds_)):
                if kinds_[i_] == "append" and any(k_ in ("arrow", "pandas") for k_ in kinds_[:i_]) \
                        and any(k_ in ("arrow", "pandas") for k_ in kinds_[i_ + 1:]):
                    ctx.hit("seq-conversion-append-conversion")
                    break
            for i_, op in enumerate(c["ops"]):
                ctx.hit("seq-op:" + op[0])
                if op[0] in ("fetchone", "fetchmany", "fetchall") and lazy_now:
                    ctx.hit("seq-fetch-on-still-lazy-frame(takes rows out of the frame)")
                if op[0] == "append" and lazy_now:
                    ctx.hit("seq-append-materialises-lazy-frame")
                if op[0] in ("arrow", "pandas", "head", "append") or op[0] in SEQ_OBSERVERS:
                    if lazy_now and op[0] in ("arrow", "pandas"):
                        ctx.hit("seq-conversion-materialises-lazy-frame" + ("-limited" if op[1] is not None and op[1] >= 0 else ""))
                    lazy_now = False
        elif k == "reuse":
            _, o, tables = cmp_
            mirror = reuse_expected(c, tables)
            if not wire.same(m[0], mirror):
                impl_right = not fails and len(o["convs"]) == len(mirror) and all(
                    "raised" not in x and _rows_same(mr, x["rows"]) for mr, x in zip(mirror, o["convs"]))
                if impl_right:
                    _model_departs(ctx, c, "Lean iterator model disagrees with the Python mirror on %r" % (c,))
                ctx.disagree(c, o, m[0], what="the model generated from the source departs from the specification "
                                              "(every conversion: rows of all tables cut to its size) on this input")
            nontrivial = len(expected_rows_of(tables[0])) >= 1 and len(c["convs"]) >= 2
            model_view, impl_view = m[0], o
            agree = len(o["convs"]) == len(m[0]) and "arg_mutated" not in o and all(
                "raised" not in x and _rows_same(mr, x["rows"]) for mr, x in zip(m[0], o["convs"]))
            for ob in o.get("obs", []):
                ctx.hit(ob)
            ctx.hit("kind:reuse")
            ctx.hit("reuse-container:" + c["container"])
            ctx.hit("reuse-order:" + c.get("order", "sequential"))
            ctx.hit("reuse-conversions:%d" % min(len(c["convs"]), 5))
            ctx.hit("reuse-tables:%d" % min(len(c["tables"]), 4))
            if any(cv[2] is not None for cv in c["convs"][:-1]):
                ctx.hit("reuse-conversion-abandoned-part-way")
            if len({str(cv[1]) for cv in c["convs"]}) >= 2:
                ctx.hit("reuse-conversions-with-different-sizes")
            if len({cv[0] for cv in c["convs"]}) >= 2:
                ctx.hit("reuse-from_arrow-and-DataFrame.from_arrow-on-one-argument")
            if c.get("second"):
                same_names = [x["name"] for x in c["cols"]] == [x["name"] for x in c["second"]["cols"]]
                ctx.hit("reuse-two-arguments" + ("-same-column-names-other-typing" if same_names else ""))
        elif k == "share":
            _, o, tables = cmp_
            nontrivial, model_view, impl_view, agree = share_evaluate(ctx, c, o, fails, m, tables)
        elif k == "roundtrip":
            _, o, rows = cmp_
            size = c.get("size")
            mirror = [[canon(x) for x in r] for r in (rows if size is None else rows[:size])]
            if not wire.same(m[2], mirror) or m[0] != list(c["names"]):
                impl_right = "raised" not in o and not fails and _rows_same(mirror, o["rows"])
                if impl_right:
                    _model_departs(ctx, c, "Lean to_arrow/from_arrow model disagrees with the Python mirror on %r" % (c,))
                ctx.disagree(c, o, {"names": m[0], "rows": m[2]},
                             what="the model generated from the source departs from the specification (rows[:size]) on this input")
            nontrivial = len(rows) >= 1
            model_view, impl_view = {"names": m[0], "arrow_rows": m[1], "rows": m[2]}, o
            agree = "raised" not in o and o["names"] == m[0] and o["arrow_names"] == m[0] and o["arrow_rows"] == m[1] \
                and len(o["rows"]) == len(m[2]) and all(
                    len(a) == len(b) and all(cell_ok(x, y) for x, y in zip(a, b)) for a, b in zip(m[2], o["rows"]))
            ctx.hit("kind:roundtrip")
            ctx.hit("rt-size:" + ("none" if size is None else "0" if size == 0 else "below" if size < len(rows) else "at-or-above"))
            ctx.hit("rt-lazy" if c.get("lazy") else "rt-eager")
            for nc_ in name_class(list(c["names"])):
                ctx.hit("rt-names:" + nc_)
            for t in c["types"]:
                ctx.hit("rt-coltype:" + t.split("(")[0].split("[")[0])
        elif k == "schema":
            _, fencs, backs = cmp_
            model_view, impl_view = m[0], {"fields": fencs, "back": backs}
            if backs is None:
                agree = False
            else:
                agree = len(m[0]) == len(backs)
                for (mf, mb), f, b in zip(m[0], fencs, backs):
                    if c.get("identities"):  # the field is named after the column's identity (a random token)
                        mf, f = mf[1:], f[1:]
                        mb, b = (mb[1:], b[1:]) if mb[0] != "err" and b[0] != "err" else (mb, b)
                    agree = agree and mf == f and mb == b
            ctx.hit("kind:schema")
            ctx.hit("schema-via:" + c.get("via", "schema") + ("+identities" if c.get("identities") else ""))
            ctx.hit("schema-columns:%d" % min(len(c["cols"]), 8))
            decs = {(x.get("p"), x.get("s")) for x in c["cols"] if x["type"] == "DECIMAL"}
            ctx.hit("schema-distinct-decimal-types:%d" % min(len(decs), 4))
        elif k == "type":
            _, fenc, back = cmp_
            model_view, impl_view = {"field": m[0], "back": m[1]}, {"field": fenc, "back": back}
            agree = (m[0] == fenc and m[1] == back)
            ctx.hit("kind:type")
            ctx.hit("type:" + c["type"])
            if c.get("via"):
                ctx.hit("type-via:" + c["via"])
            if back[0] == "err":
                ctx.hit("type-error")
        else:
            _, o = cmp_
            model_view, impl_view = m[0], o
            agree = (m[0] == o)
            ctx.hit("kind:field")
            ctx.hit("field:" + c["arrow"][0])
            for nc_ in name_class([c["name"]]):
                ctx.hit("field-name:" + nc_)
            if o[0] == "err":
                ctx.hit("field-unmapped")
        ctx.case(c, nontrivial)
        # ---- oracle
        unknown = [(cl, d) for cl, d in fails if not _is_known(ctx, c, cl, d)]
        for cl, d in fails:
            if (cl, d) not in unknown:
                ctx.fail(c, cl, impl=impl_view, model=model_view, detail=d)  # counted as known finding
        if not hasattr(ctx, "_c11_reported"):
            ctx._c11_reported = set()
            ctx._c11_pending = {}      # way of failing -> a failing case that does not fail in a fresh process
            ctx._c11_standalone_checks = {}
        seen_sigs = ctx._c11_reported
        unknown = [(cl, d) for cl, d in unknown if _norm(cl) not in seen_sigs]
        if unknown:
            cl, d = unknown[0]
            sig = _norm(cl)

            def still(c2):
                if not valid_case(c2) or not _same_region(c, c2):
                    return False
                try:
                    _, f2, _, _ = _impl_and_fails(c2)
                except Exception:
                    return False
                return any(_norm(x) == sig and not _is_known(ctx, c2, x, dd) for x, dd in f2)

            c_min = c
            if not ctx.replaying:
                # A replay has to fail on its own.  A failure that needs state left behind by earlier cases
                # (a memo keyed on too little, a cache shared between objects) is kept as a fallback while the
                # search goes on for a case that carries the whole sequence in itself.
                alone = fails_standalone(c, sig)
                if alone is False:
                    n_chk = ctx._c11_standalone_checks[sig] = ctx._c11_standalone_checks.get(sig, 0) + 1
                    ctx._c11_pending.setdefault(sig, (c, cl, d, impl_view, model_view))
                    ctx.hit("failure-needs-earlier-cases-in-the-process")
                    if n_chk < 5:
                        continue
                    c, cl, d, impl_view, model_view = ctx._c11_pending.pop(sig)  # give up: report the first one seen
                    d = dict(d, note="fails only after earlier cases in the same process (state left behind by them)")
                    seen_sigs.add(sig)
                    ctx.fail(c, cl, impl=impl_view, model=model_view, detail=d)
                    continue
                ctx._c11_pending.pop(sig, None)
            seen_sigs.add(sig)  # one minimised replay per way of failing; later ones are not shrunk again
            if not ctx.replaying and k != "big":
                for cand in focus_candidates(c, d):
                    if still(cand):
                        c_min = cand
                        break
                c_min = shrink(c_min, still, budget=250)
                if c_min is not c and fails_standalone(c_min, sig) is False:
                    # the in-process search walked into a case that only fails thanks to leftover state:
                    # shrink again, accepting a step only if it also fails in a fresh process (few steps)
                    tries = [0]

                    def still_alone(c2):
                        if not still(c2) or tries[0] >= 12:
                            return False
                        tries[0] += 1
                        return fails_standalone(c2, sig) is not False
                    c_min = shrink(c, still_alone, budget=120)
            try:
                out2, f2, _, _ = _impl_and_fails(c_min)
            except InfraError:
                raise
            except Exception:  # (the minimised case stopped being runnable: report the case that was seen to fail)
                c_min, out2, f2 = c, impl_view, []
            hit = [(x, dd) for x, dd in f2 if _norm(x) == sig and not _is_known(ctx, c_min, x, dd)]
            if not hit:
                c_min, out2, hit = c, impl_view, [(cl, d)]
            ctx.fail(c_min, hit[0][0], impl=out2, model=model_view if c_min is c else None, detail=hit[0][1])
        elif not fails and not agree:
            ctx.disagree(c, impl_view, model_view)


# --------------------------------------------------------------------------- generators

SPLIT_COLS = [{"name": "n", "type": "int64", "nullable": False}, {"name": "s", "type": "string"}]


def split_rows(n):
    return [[2**53 + 1 + i, None if i == 1 else "r%d" % i] for i in range(n)]


def compositions(n, k):
    """All ways of writing n as an ordered sum of k non-negative parts."""
    if k == 1:
        yield (n,)
        return
    for first in range(n + 1):
        for rest in compositions(n - first, k - 1):
            yield (first,) + rest


def exhaustive_split_cases(nmax, kmax):
    for n in range(nmax + 1):
        rows = split_rows(n)
        for k in range(1, kmax + 1):
            for parts in compositions(n, k):
                tables, pos = [], 0
                for p in parts:
                    tables.append([rows[pos:pos + p]])
                    pos += p
                for size in [None] + list(range(1, n + 2)):
                    yield {"kind": "iter", "cols": SPLIT_COLS, "tables": tables, "size": size}


def exhaustive_iterator_cases(nmax, kmax, batches=(1, 2, 3, 7)):
    """`_RowsIterator` itself with every batch size of `batches` (below, at and above the table lengths) x
    every limit 1..N+1 and none x every split of 0..nmax rows into 1..kmax tables; tables of three rows
    and more come in two chunks."""
    for n in range(nmax + 1):
        rows = split_rows(n)
        for k in range(1, kmax + 1):
            for parts in compositions(n, k):
                tables, pos = [], 0
                for p in parts:
                    part = rows[pos:pos + p]
                    tables.append([part] if p < 3 else [part[:1], part[1:]])
                    pos += p
                for b in batches:
                    for size in [None] + list(range(1, n + 2)):
                        yield {"kind": "iter", "cols": SPLIT_COLS, "tables": tables, "size": size, "via": "iterator", "batch": b}


def size_object_cases():
    """Every kind of size object x every limit 1..N+1 over 5 rows in two tables (and a zero-row table between them):
    `from_arrow(size=)` as a list / generator / tuple of tables, `DataFrame.from_arrow(...).arrow(size)`, `frame.arrow(size)`
    on an eager frame (round trip), `_RowsIterator` driven directly with the limit and the batch size as such objects."""
    rows = split_rows(5)
    tables = [[rows[:3]], [[]], [rows[3:]]]
    n = len(rows)
    for kind in SIZE_KIND_CLASS:
        if kind == "int":
            continue
        for size in range(1, n + 2):
            if not size_kind_ok(kind, size):
                continue
            for via in ("from_arrow", "generator", "tuple"):
                yield {"kind": "iter", "cols": SPLIT_COLS, "tables": tables, "size": size, "size_kind": kind, "via": via}
            if kind not in SIZE_KINDS_DEMANDED:
                continue
            yield {"kind": "iter", "cols": SPLIT_COLS, "tables": tables, "size": size, "size_kind": kind, "via": "DataFrame.arrow"}
            for b in (1, 2, 7):
                if size_kind_ok(kind, b):
                    yield {"kind": "iter", "cols": SPLIT_COLS, "tables": tables, "size": size, "size_kind": kind, "via": "iterator",
                           "batch": b, "batch_kind": kind}
            yield {"kind": "iter", "cols": SPLIT_COLS, "tables": tables, "size": size, "via": "iterator", "batch": 2 if kind != "bool" else 1,
                   "batch_kind": kind}
            for lazy in (False, True):
                c = {"kind": "roundtrip", "names": ["n", "s"], "types": ["int64", "string"], "rows": rows, "size": size, "size_kind": kind}
                if lazy:
                    c["lazy"] = True
                yield c


def exhaustive_type_cases(full_grid):
    for t in ORSO_TYPES:
        if t == "DECIMAL":
            continue
        for nullable in (True, False):
            yield {"kind": "type", "type": t, "elem": None, "p": None, "s": None, "name": "c_" + t.lower(), "nullable": nullable}
    for e in ORSO_TYPES:
        yield {"kind": "type", "type": "ARRAY", "elem": e, "p": None, "s": None, "name": "arr", "nullable": True}
        yield {"kind": "type", "type": "ARRAY", "elem": e, "p": None, "s": None, "name": "arr", "nullable": True, "via": "schema"}
    step = 1 if full_grid else 3
    for p in range(0, 39):
        for s in range(0, p + 1):
            if full_grid or s in (0, 1, p - 1, p) or (p + s) % step == 0:
                yield {"kind": "type", "type": "DECIMAL", "elem": None, "p": p, "s": s, "name": "d", "nullable": True}
    for p, s in ((None, None), (10, None), (None, 3), (39, 0), (40, 40), (5, 7), (0, 3)):
        yield {"kind": "type", "type": "DECIMAL", "elem": None, "p": p, "s": s, "name": "d", "nullable": False}
    for t in ("INTEGER", "VARCHAR", "DATE", "TIMESTAMP", "DECIMAL"):
        kw = {"p": 12, "s": 0} if t == "DECIMAL" else {"p": None, "s": None}
        yield dict({"kind": "type", "type": t, "elem": None, "name": "via schema é", "nullable": True, "via": "schema"}, **kw)
    # an odd precision on a non-decimal column still goes through the eagerly built table
    yield {"kind": "type", "type": "INTEGER", "elem": None, "p": 39, "s": 0, "name": "i", "nullable": True}
    yield {"kind": "type", "type": "INTEGER", "elem": None, "p": 0, "s": 0, "name": "i", "nullable": True}


def _scol(name, t, elem=None, p=None, s=None, nullable=True):
    return {"name": name, "type": t, "elem": elem, "p": p, "s": s, "nullable": nullable}


def schema_cases():
    """Several columns in one schema: several decimal types side by side (in both orders, repeated, next to
    lists of the same element kinds), every type at once; through the schema converters, with identities,
    and through from_arrow's own schema extraction."""
    groups = [
        # same precision with different scales, same scale with different precisions, a type repeated
        [_scol("a", "DECIMAL", p=10, s=2), _scol("b", "DECIMAL", p=10, s=0), _scol("c", "DECIMAL", p=12, s=2),
         _scol("d", "DECIMAL", p=10, s=2), _scol("e", "ARRAY", elem="INTEGER"), _scol("f", "ARRAY", elem="VARCHAR")],
        [_scol("a", "DECIMAL", p=10, s=2), _scol("b", "DECIMAL", p=38, s=0)],
        [_scol("a", "DECIMAL", p=38, s=0), _scol("b", "DECIMAL", p=10, s=2)],
        [_scol("a", "DECIMAL", p=5, s=5), _scol("i", "INTEGER"), _scol("b", "DECIMAL", p=1, s=0),
         _scol("l", "ARRAY", elem="INTEGER"), _scol("c", "DECIMAL", p=5, s=5), _scol("d", "DECIMAL", p=38, s=38)],
        [_scol("x", "ARRAY", elem="VARCHAR"), _scol("y", "ARRAY", elem="INTEGER"), _scol("z", "ARRAY", elem="DOUBLE"),
         _scol("w", "ARRAY", elem="BOOLEAN", nullable=False), _scol("v", "ARRAY", elem="TIMESTAMP")],
        [_scol("c_" + t.lower(), t) for t in ORSO_TYPES if t not in ("DECIMAL", "ARRAY", "_MISSING_TYPE")]
        + [_scol("c_decimal", "DECIMAL", p=12, s=3), _scol("c_array", "ARRAY", elem="VARCHAR")],
        [_scol("t1", "TIMESTAMP"), _scol("t2", "TIME"), _scol("t3", "TIMESTAMP", nullable=False), _scol("é 日本", "VARCHAR"),
         _scol("", "BLOB")],
    ]
    # names: repeated, empty, differing by case / composition only, not NFC, very long (two routes back)
    kinds = [("INTEGER", {}), ("VARCHAR", {}), ("DECIMAL", {"p": 10, "s": 2})]
    for names in NAME_LISTS:
        groups.append([_scol(n_, kinds[j % 3][0], nullable=j != 1, **kinds[j % 3][1]) for j, n_ in enumerate(names)])
    for cols in groups:
        yield {"kind": "schema", "cols": cols, "via": "schema"}
        yield {"kind": "schema", "cols": cols, "via": "table"}
        yield {"kind": "schema", "cols": cols, "via": "schema", "identities": True}


def random_schema_case(ctx):
    rng = ctx.rng
    cols = []
    for j in range(rng.choice([2, 2, 3, 4, 6])):
        t = rng.choice(["DECIMAL", "DECIMAL", "DECIMAL", "ARRAY"] + [x for x in ORSO_TYPES if x != "_MISSING_TYPE"])
        c = _scol(rng.choice(["a", "b", "col", "é", "x y"]) + str(j), t, nullable=rng.random() < 0.7)
        if t == "DECIMAL":
            r = rng.random()
            if r < 0.85:
                c["p"] = rng.choice([1, 2, 10, 28, 29, 37, 38, rng.randint(1, 38)])
                c["s"] = rng.choice([0, c["p"], max(0, c["p"] - 1), rng.randint(0, c["p"])])
            elif r < 0.9:
                c["p"], c["s"] = 0, 0
        elif t == "ARRAY":
            c["elem"] = rng.choice([x for x in ORSO_TYPES if x != "_MISSING_TYPE"] + [None])
        cols.append(c)
    case = {"kind": "schema", "cols": cols, "via": rng.choice(["schema", "schema", "table"])}
    if case["via"] == "schema" and rng.random() < 0.25:
        case["identities"] = True
    return case


def exhaustive_field_cases():
    cat = catalogue()
    names = ["x", "", "é 日本", "a b|c"]
    i = 0
    for d in cat:
        for nullable in (True, False):
            if d == ["null"] and not nullable:
                continue  # pyarrow refuses a non-nullable null field
            yield {"kind": "field", "arrow": d, "name": names[i % len(names)], "nullable": nullable}
            i += 1
    # the name is carried over exactly (code point by code point), whatever the type and the nullability
    for k_, n_ in enumerate(HARD_NAMES):
        yield {"kind": "field", "arrow": [["int64"], ["string"], ["list_", ["int64"]], ["decimal128", 10, 2]][k_ % 4], "name": n_,
               "nullable": k_ % 3 != 0}
    elems = [["int64"], ["string"], ["float64"], ["bool_"], ["binary"], ["date32"], ["date64"], ["timestamp", "us"],
             ["time32", "ms"], ["null"], ["decimal128", 10, 2], ["month_day_nano_interval"], ["struct"], ["dictionary"],
             ["list_", ["int64"]]]
    for e in elems:
        for ctor in ("list_", "large_list"):
            yield {"kind": "field", "arrow": [ctor, e], "name": "l", "nullable": i % 2 == 0}
            i += 1
        yield {"kind": "field", "arrow": ["fixed_list", e, 3], "name": "l", "nullable": True}
    yield {"kind": "field", "arrow": ["list_view", ["int64"]], "name": "l", "nullable": True}
    for d in (["struct"], ["map_"], ["int64"], ["binary"]):
        for mp in (True, False):
            yield {"kind": "field", "arrow": d, "name": "m", "nullable": True, "mappable": mp}


EXT_COLTYPES = list(EXT_TYPES)

COLTYPES = ["int64", "int64", "int32", "int16", "int8", "uint64", "uint32", "uint16", "uint8", "float64", "float32", "string", "large_string", "bool",
            "binary", "timestamp[us]", "timestamp[ns]", "timestamp[ms]", "timestamp[us,UTC]", "timestamp[us,Europe/Paris]",
            "date32", "date64", "decimal128(10,2)", "decimal128(38,0)", "decimal128(5,5)", "decimal128(10,0)", "list<int64>", "list<string>",
            "list<float64>"]

INT_RANGE = {"int8": (-2**7, 2**7 - 1), "int16": (-2**15, 2**15 - 1), "int32": (-2**31, 2**31 - 1),
             "int64": (-2**63, 2**63 - 1), "uint8": (0, 2**8 - 1), "uint16": (0, 2**16 - 1), "uint32": (0, 2**32 - 1),
             "uint64": (0, 2**64 - 1)}
TS_US_EDGES = [0, 1, -1, 1577934245678901, -31536000000000, 253370764800000000, -62135596800000000, 951782400000000]
TEXTS = ["", "a", "nan", "None", "é", "日本語", "\U0001f600", "line\nbreak", "x" * 40, " "]
FLOATS = [0.0, -0.0, 1.5, -2.25, 1e300, 5e-324, float("inf"), float("-inf"), float("nan"), 2.0**53, 0.1, 3.0]

# ---- column / field names.  An Arrow field name is any string and a table may carry the same name more than once
# (the two `id` columns of a join); a name is carried over code point by code point: no Unicode normalisation
# (NFC / NFD / NFKC), no case folding, no stripping, no de-duplication.  Written with escapes on purpose.
HARD_NAMES = [
    "cafe\u0301", "caf\u00e9",                          # e + combining acute / precomposed (the NFC of the former)
    "A\u030angstrom", "\u00c5ngstrom", "\u212bngstrom",  # A + ring / precomposed / ANGSTROM SIGN (a singleton)
    "\u1100\u1161", "\uac00",                           # conjoining Hangul jamo / the syllable they compose to
    "\u2126", "\u03a9",                                 # OHM SIGN / GREEK CAPITAL OMEGA
    "s\u0323\u0307", "s\u0307\u0323", "\u1e69",         # two orders of combining marks / precomposed
    "\u0301", "e\u0301\u0301",                          # a lone combining mark; two marks
    "\ufb01le", "file", "\uff46\uff55\uff4c\uff4c", "x\u00b2", "\u2460",  # compatibility characters (NFKC changes them)
    "\u0958", "\u0915\u093c",                           # composition exclusion: NFC *de*composes the former
    "ID", "id", "Id", "\u0130d", "stra\u00dfe", "STRASSE",  # case
    "", " ", "id ", " id", "\tid", "a\nb", "nul\x00name", "\x01\x7f",
    "\ufeffbom", "a\u200db", "\u202eright-to-left", "\U0001f600", "\U0001f468\u200d\U0001f469", "\ud7ff\ue000\uffff",
    "\U0010ffff", "x" * 300, "\u00e9" * 200 + "e\u0301" * 200, "n" * 5000,
]
NAME_LISTS = [
    ["id", "name", "id"], ["k", "k", "k"], ["", ""], ["", "a", ""], ["ID", "id", "Id"], [" ", "", "  "],
    ["cafe\u0301", "caf\u00e9"], ["caf\u00e9", "cafe\u0301", "caf\u00e9"], ["A\u030a", "\u00c5", "\u212b"],
    ["\u1100\u1161", "\uac00"], ["\u2126", "\u03a9"], ["s\u0323\u0307", "s\u0307\u0323", "\u1e69"], ["\ufb01", "fi"],
    ["\u0958", "\u0915\u093c"], ["x" * 300, "x" * 301, "x" * 300], ["n" * 5000, "n" * 5000], ["a\x00", "a", "a\x00b"],
    ["\U0010ffff", "\ud7ff", ""], ["stra\u00dfe", "STRASSE", "strasse"],
]
# names that collide with a naming scheme used inside the conversion: decimal positions (what a repeated name is replaced
# by before the by-name pandas step), pandas' index names, together with repeated names
INTERNAL_NAME_LISTS = [
    ["1", "v", "v"], ["v", "v", "0"], ["0", "0"], ["2", "1", "0"], ["0", "1", "2"], ["v", "1", "v"], ["2", "v", "v"], ["v", "0", "v"],
    ["1", "0", "0"], ["1", "1", "0"], ["3", "2", "1", "0"], ["1", "1", "1", "0"], ["2", "v", "v", "w"], ["01", "1", "1"], ["-0", "0", "0"],
    ["\u0660", "0", "0"], ["1 ", "1", "1"], ["__index_level_0__", "v", "v"], ["__index_level_0__", "a"], ["v", "__index_level_0__", "v"],
    ["__index_level_0__", "__index_level_0__"], ["index", "v", "v"], ["level_0", "index", "index"], ["", "0", ""], ["0", "", ""],
    ["v", "V", "v"], ["v", "v ", "v"], ["None", "nan", "None"],
]
INTERNAL_NAMES = ["0", "1", "2", "3", "v", "", "__index_level_0__", "index", "V", "v ", "00", "-1"]
_NAME_RANGES = [(0x20, 0x7e), (0xa0, 0x24f), (0x300, 0x36f), (0x370, 0x3ff), (0x900, 0x97f), (0x1100, 0x11ff), (0x1e00, 0x1eff),
                (0x2100, 0x214f), (0x2460, 0x24ff), (0x3040, 0x30ff), (0xac00, 0xd7a3), (0xe000, 0xe0ff), (0xf900, 0xfaff),
                (0xfb00, 0xfb06), (0xff00, 0xffef), (0x1d400, 0x1d7ff), (0x1f300, 0x1f64f), (0x2f800, 0x2fa1d), (0, 0x1f)]


def rand_name(rng):
    """Any string without surrogates: a hard name, random code points (combining marks, jamo, compatibility
    characters, astral planes among them), or a very long name."""
    r = rng.random()
    if r < 0.45:
        return rng.choice(HARD_NAMES)
    if r < 0.93:
        out = []
        for _ in range(rng.choice([1, 1, 2, 3, 5, 8])):
            lo, hi = rng.choice(_NAME_RANGES)
            cp = rng.randint(lo, hi)
            if 0xd800 <= cp <= 0xdfff:
                cp = 0xe000
            out.append(chr(cp))
        return "".join(out)
    return rng.choice(["x", "\u00e9", "e\u0301", "\uac00"]) * rng.choice([64, 255, 256, 1000, 4096])


def rand_names(rng, n, plain=("a", "b", "name", "id", "x y")):
    """Column names of an n-column table: mostly plain and distinct, otherwise hard names, with repeats."""
    r = rng.random()
    if r < 0.47:
        return [rng.choice(plain) + str(j) for j in range(n)]
    if r < 0.55:
        # names out of a small pool of positional tags / index names: repeats and collisions with a position come by themselves
        pool = INTERNAL_NAMES[:rng.choice([4, 5, 6, len(INTERNAL_NAMES)])]
        return [rng.choice(pool) for _ in range(n)]
    if r < 0.70:
        base = rng.choice(NAME_LISTS)
        return [base[j % len(base)] for j in range(n)]
    names = [rand_name(rng) for _ in range(n)]
    if n >= 2 and rng.random() < 0.4:
        names[rng.randrange(1, n)] = names[0]  # the same name twice
    return names


def name_class(names):
    import unicodedata

    out = []
    if len(set(names)) != len(names):
        out.append("repeated")
    if any(unicodedata.normalize("NFC", x) != x for x in names):
        out.append("not-NFC")
    if any(unicodedata.normalize("NFKC", x) != x for x in names):
        out.append("not-NFKC")
    if len({unicodedata.normalize("NFKC", x).casefold().strip() for x in names}) != len(set(names)):
        out.append("distinct-only-by-composition/case/blanks")
    if any(x == "" for x in names):
        out.append("empty")
    if any(x.isdigit() and x.isascii() and int(x) < len(names) and names[int(x)] != x for x in names):
        out.append("decimal-position-of-another-column")
    if any(x.startswith("__index_level_") or x in ("index", "level_0") for x in names):
        out.append("pandas-index-name")
    if any(len(x) >= 256 for x in names):
        out.append("long(>=256)")
    if any(ord(ch) > 0xffff for x in names for ch in x):
        out.append("astral")
    return out or ["plain"]


def gen_cell(rng, ctype, null_p, allow_nan=True, nested_null=True):
    if rng.random() < null_p:
        return None
    if ctype in INT_TYPES:
        lo, hi = INT_RANGE[ctype]
        r = rng.random()
        if r < 0.3:
            v = rng.choice([0, 1, -1, 2**53, 2**53 + 1, -(2**53) - 1, 2**60 + 1, 2**63 - 1, -(2**63), 2**64 - 1, 255, 127])
            return min(max(v, lo), hi)
        if r < 0.6:
            return min(max(rng.randint(-50, 50), lo), hi)
        return rng.randint(lo, hi)
    if ctype in FLOAT_TYPES:
        if ctype == "float32":
            import struct

            v = rng.choice([0.0, -0.0, 1.5, -2.25, float("inf"), float("nan"), 0.1, 3.0, 16777217.0, rng.uniform(-100, 100)])
            v = struct.unpack("f", struct.pack("f", v))[0]
        else:
            v = rng.choice(FLOATS) if rng.random() < 0.5 else rng.uniform(-1e6, 1e6)
        if not allow_nan and v != v:
            v = 1.0
        return v
    if ctype in ("string", "large_string"):
        return rng.choice(TEXTS) if rng.random() < 0.6 else "".join(rng.choice("abcXYZ01 é日") for _ in range(rng.randint(0, 9)))
    if ctype == "bool":
        return rng.random() < 0.5
    if ctype in ("binary", "large_binary"):
        return bytes(rng.getrandbits(8) for _ in range(rng.randint(0, 6)))
    if ctype in ("dict<string>", "string_view"):
        return rng.choice(["a", "b", "", "é", "long string " * 3])
    if ctype == "duration[us]":
        return rng.choice([0, 1, -5, 10**12, -86400000000, rng.randint(-2**50, 2**50)])
    if ctype == "time32[ms]":
        return rng.choice([0, 1000, 86399999, rng.randint(0, 86399999)])
    if ctype == "time64[us]":
        return rng.choice([0, 1, 86399999999, rng.randint(0, 86399999999)])
    if ctype == "large_list<int64>":
        return [gen_cell(rng, "int64", 0.15 if nested_null else 0.0) for _ in range(rng.choice([0, 1, 2, 3]))]
    if ctype == "fixed_list<int64,2>":
        return [gen_cell(rng, "int64", 0.15 if nested_null else 0.0) for _ in range(2)]
    if ctype == "list<large_string>":
        return [gen_cell(rng, "string", 0.15) for _ in range(rng.choice([0, 1, 2]))]
    if ctype == "struct":
        return {"a": gen_cell(rng, "int64", 0.2), "b": gen_cell(rng, "string", 0.2)}
    if ctype == "map":
        keys = rng.sample(["k", "a", "b", "é", ""], rng.choice([0, 1, 2, 3]))
        return [[k, gen_cell(rng, "int64", 0.2)] for k in keys]
    if ctype.startswith("timestamp["):
        unit = ctype[len("timestamp["):-1].split(",")[0]
        if unit == "us":
            return rng.choice(TS_US_EDGES) if rng.random() < 0.4 else rng.randint(-2**50, 2**52)
        if unit == "ms":
            return rng.randint(-2**40, 2**42)
        return rng.randint(-2**62, 2**62)
    if ctype in ("date32", "date64"):
        return rng.choice([0, 1, -1, 18263, -719162, 2932896, 11016]) if rng.random() < 0.4 else rng.randint(-100000, 100000)
    if ctype.startswith("decimal128("):
        p, s = [int(x) for x in ctype[len("decimal128("):-1].split(",")]
        digits = rng.randint(0, 10 ** min(p, 30) - 1) if rng.random() < 0.7 else rng.choice([0, 1, 10 ** p - 1])
        sign = "-" if rng.random() < 0.4 and digits else ""
        txt = str(digits).rjust(s + 1, "0")
        return sign + (txt[:-s] + "." + txt[-s:] if s else txt)
    if ctype.startswith("list<"):
        inner = ctype[5:-1]
        n = rng.choice([0, 0, 1, 2, 3, 5])
        return [gen_cell(rng, inner, 0.15 if nested_null else 0.0, allow_nan=allow_nan) for _ in range(n)]
    raise InfraError("generator: " + ctype)


def split_random(rng, rows, max_tables):
    """Cut rows into tables and tables into chunks, with empty tables and empty chunks anywhere."""
    nt = rng.randint(1, max_tables)
    cuts = sorted(rng.randint(0, len(rows)) for _ in range(nt - 1))
    bounds = [0] + cuts + [len(rows)]
    tables = []
    for a, b in zip(bounds, bounds[1:]):
        part = rows[a:b]
        r = rng.random()
        if r < 0.55:
            chunks = [part]
        elif r < 0.65:
            chunks = [] if not part else [part[:1], [], part[1:]]
        elif r < 0.75 and len(part) >= 4:
            # many small batches: chunks of 0..3 rows
            chunks, pos = [], 0
            while pos < len(part):
                k = rng.choice([0, 1, 1, 2, 3])
                chunks.append(part[pos:pos + k])
                pos += k
        else:
            nc = rng.randint(1, 3)
            cc = sorted(rng.randint(0, len(part)) for _ in range(nc - 1))
            bb = [0] + cc + [len(part)]
            chunks = [part[x:y] for x, y in zip(bb, bb[1:])]
        tables.append(chunks)
    return tables


def random_iter_case(ctx, quiet_known=False, ext=False):
    rng = ctx.rng
    ncols = rng.choice([1, 1, 2, 2, 3, 4])
    types = [rng.choice(COLTYPES) for _ in range(ncols)]
    if ext:
        # an exact row id first (order and count are demanded), then kinds outside the property's list
        types = ["int64"] + [rng.choice(EXT_COLTYPES) for _ in range(rng.choice([1, 1, 2]))]
        ncols = len(types)
    n = rng.choice([0, 1, 2, 3, 4, 5, 6, 8, 12, 20]) if rng.random() < 0.85 else rng.randint(21, 120)
    cols, columns = [], []
    names = rand_names(rng, ncols, ("a", "b", "c", "col", "\u00e9", "a b", ""))
    for j, t in enumerate(types):
        null_p = rng.choice([0.0, 0.0, 0.2, 0.5, 1.0])
        if (quiet_known and t in INT_TYPES) or (ext and j == 0):
            null_p = 0.0
        cells = [gen_cell(rng, t, null_p, nested_null=not quiet_known) for _ in range(n)]
        if ext and j == 0:
            cells = [2**53 + 1 + i for i in range(n)]
        has_null = any(c is None for c in cells)
        col = {"name": names[j], "type": t}
        if rng.random() < (0.25 if has_null else 0.4):
            col["nullable"] = False  # what the FIELD says; whether the cells hold a null is another matter
        cols.append(col)
        columns.append(cells)
    rows = [[columns[j][i] for j in range(ncols)] for i in range(n)]
    tables = split_random(rng, rows, rng.choice([1, 2, 3, 4, 6]))
    size = rng.choice([None, None, 1, 2, n, n + 1, max(1, n - 1)] + ([rng.randint(1, n)] if n else []))
    case = {"kind": "iter", "cols": cols, "tables": tables, "size": size}
    r = rng.random()
    if r < 0.12 and tables:
        case["via"] = "DataFrame.arrow"
    elif size is None and r < 0.3:
        case["via"] = "DataFrame"
    elif r < 0.45:
        case["via"] = "generator"
    elif r < 0.55:
        case["via"] = "tuple"
    elif r < 0.65 and len(tables) == 1:
        case["via"] = "single"
    if rng.random() < 0.25:
        case["stagger"] = True
    if "via" not in case and tables and rng.random() < 0.3:
        case["via"] = "iterator"
        case["batch"] = rng.choice([1, 2, 3, 5, max(1, n - 1), max(1, n), n + 1, 10000])
    # the limit (and the batch size) as another kind of integer object
    if size is not None and case.get("via") != "DataFrame" and rng.random() < 0.2:
        loose_ok = case.get("via", "from_arrow") in ("from_arrow", "generator", "tuple", "single")
        kinds = [k_ for k_ in SIZE_KIND_CLASS if k_ != "int" and size_kind_ok(k_, size) and (loose_ok or k_ in SIZE_KINDS_DEMANDED)]
        if kinds:
            case["size_kind"] = rng.choice(kinds)
    if case.get("via") == "iterator" and rng.random() < 0.2:
        kinds = [k_ for k_ in SIZE_KINDS_DEMANDED if k_ != "int" and size_kind_ok(k_, case["batch"])]
        if kinds:
            case["batch_kind"] = rng.choice(kinds)
    return case


RT_TYPES = ["int64", "int64", "float64", "string", "bool", "binary", "timestamp[us]", "timestamp[us,UTC]", "date32",
            "decimal128(10,2)", "decimal128(38,0)", "list<int64>", "list<string>", "list<float64>"]


def random_roundtrip_case(ctx, quiet_known=False):
    rng = ctx.rng
    ncols = rng.choice([1, 2, 2, 3, 4])
    types = [rng.choice(RT_TYPES) for _ in range(ncols)]
    n = rng.choice([0, 1, 2, 3, 4, 5, 6, 9, 15]) if rng.random() < 0.9 else rng.randint(16, 80)
    columns = []
    for t in types:
        null_p = rng.choice([0.0, 0.0, 0.25, 0.6, 1.0])
        if quiet_known and t in INT_TYPES:
            null_p = 0.0
        cells = []
        for _ in range(n):
            c = gen_cell(rng, t, null_p, nested_null=not quiet_known)
            if t == "int64" and c is not None:
                c = min(max(c, -2**63), 2**63 - 1)
            cells.append(c)
        columns.append(cells)
    rows = [[columns[j][i] for j in range(ncols)] for i in range(n)]
    names = rand_names(rng, ncols, ("a", "b", "name", "\u00e9", "x y"))
    size = rng.choice([None, None, 0, 1, 2, n, n + 1, max(0, n - 1)])
    case = {"kind": "roundtrip", "names": names, "types": types, "rows": rows, "size": size}
    if rng.random() < 0.3:
        case["lazy"] = True
    if size and rng.random() < 0.2:
        kinds = [k_ for k_ in SIZE_KINDS_DEMANDED if k_ != "int" and size_kind_ok(k_, size)]
        if kinds:
            case["size_kind"] = rng.choice(kinds)
    return case


SEQ_COLTYPES = ("int64", "string", "bool", "float64", "binary")
SEQ_COLS = [{"name": "id", "type": "int64", "nullable": False}, {"name": "s", "type": "string"}]


def seq_rows(n):
    return [[2**53 + 1 + i, None if i == 1 else "r%d" % i] for i in range(n)]


def exhaustive_seq_cases():
    """Every pair of calls from a small alphabet on one 3-row frame (two tables and an empty one), for
    every kind of frame, followed by an unlimited conversion: the second call and the final conversion are
    judged against the frame's full row list whatever the first call was."""
    rows = seq_rows(3)
    tables = [[rows[:2]], [[]], [rows[2:]]]
    alphabet = [["arrow", None], ["arrow", 0], ["arrow", 1], ["arrow", 2], ["arrow", 4], ["len"], ["iter"],
                ["head", 1], ["fetchone"], ["pandas", 2]]
    for source in SEQ_SOURCES[:5]:  # (the derived kinds: `exhaustive_session_cases`)
        for a in alphabet:
            for b in alphabet:
                yield {"kind": "seq", "source": source, "cols": SEQ_COLS, "tables": tables, "ops": [a, b, ["arrow", None]]}


def exhaustive_session_cases():
    """Conversions repeated on ONE frame with edits in between: every triple of calls from
    {arrow(), arrow(1), append, nbytes(), materialize(), fetchone()} on a frame of every construction kind, followed
    by an unlimited conversion and len(); every conversion is judged against the rows the frame holds at that moment."""
    rows = seq_rows(3)
    tables = [[rows[:2]], [[]], [rows[2:]]]
    alphabet = [["arrow", None], ["arrow", 1], ["append", [2**60, "new"]], ["nbytes"], ["materialize"], ["fetchone"]]
    for source in SEQ_SOURCES:
        al = [a for a in alphabet if a[0] != "append" or source not in SEQ_FROM_ARROW]
        for a in al:
            for b in al:
                for c in al:
                    yield {"kind": "seq", "source": source, "cols": SEQ_COLS, "tables": tables,
                           "ops": [a, b, c, ["arrow", None], ["len"]]}


def seq_corpus():
    rows = seq_rows(6)
    one = [[rows]]
    # the same frame converted with every limit in turn, then without one, then observed
    ladder = [["arrow", k] for k in range(1, 8)] + [["arrow", None], ["iter"], ["len"]]
    # C11-F04: pandas() of a frame with a repeated name where bytes / booleans share their name with a text column
    for t, cell in (("binary", b"\xaa\xff"), ("bool", True), ("float64", 2.5)):
        dup = [{"name": "", "type": "int64", "nullable": False}, {"name": "k", "type": t}, {"name": "k", "type": "string"}]
        for source in ("list", "generator", "from_arrow"):
            yield {"kind": "seq", "source": source, "cols": dup, "tables": [[[[0, cell, ""], [1, None, "x"]]]],
                   "ops": [["pandas", 3], ["pandas", None], ["arrow", None]]}
    for source in SEQ_SOURCES:
        yield {"kind": "seq", "source": source, "cols": SEQ_COLS, "tables": one, "ops": ladder}
        yield {"kind": "seq", "source": source, "cols": SEQ_COLS, "tables": [[rows[:1], rows[1:4]], [[]], [rows[4:]]],
               "ops": [["pandas", 2], ["arrow", 5], ["shape"], ["arrow", -1], ["rowcount"], ["pandas", None]]}
        yield {"kind": "seq", "source": source, "cols": SEQ_COLS, "tables": one,
               "ops": [["fetchmany", 2], ["arrow", 1], ["fetchone"], ["arrow", None], ["fetchall"], ["len"]]}
    # use -> mutate -> use again (eager frames only: a lazy frame cannot be appended to)
    yield {"kind": "seq", "source": "list", "cols": SEQ_COLS, "tables": one,
           "ops": [["arrow", 2], ["append", [7, "new"]], ["arrow", None], ["arrow", 7], ["append", [8, None]], ["len"], ["arrow", 8]]}
    yield {"kind": "seq", "source": "generator", "cols": SEQ_COLS, "tables": one,
           "ops": [["arrow", 2], ["append", [7, "new"]], ["arrow", None], ["fetchone"], ["iter"]]}
    yield {"kind": "seq", "source": "from_arrow", "cols": SEQ_COLS, "tables": [[[]], [[]]], "ops": [["arrow", 1], ["arrow", None], ["len"]]}
    # convert, append, convert again - several times over, sized or not in between, on every kind of frame that takes a row
    for source in SEQ_SOURCES:
        if source in SEQ_FROM_ARROW:
            continue
        yield {"kind": "seq", "source": source, "cols": SEQ_COLS, "tables": [[rows[:2]]],
               "ops": [["arrow", None], ["append", [7, "c"]], ["arrow", None], ["arrow", 2], ["append", [2**60 + 1, None]], ["arrow", None],
                       ["nbytes"], ["append", [9, "e"]], ["arrow", None], ["pandas", None], ["len"]]}


def random_seq_case(ctx):
    rng = ctx.rng
    ncols = rng.choice([1, 2, 2, 3])
    types = ["int64"] + [rng.choice(SEQ_COLTYPES[1:]) for _ in range(ncols - 1)]
    n = rng.choice([0, 1, 2, 3, 4, 5, 6, 8]) if rng.random() < 0.9 else rng.randint(9, 40)
    cols = [{"name": n_, "type": t} for n_, t in zip(rand_names(rng, ncols, ("id", "a", "\u00e9", "x y", "")), types)]
    cols[0]["nullable"] = False
    columns = [[2**53 + 1 + i for i in range(n)]]
    for t in types[1:]:
        null_p = rng.choice([0.0, 0.3, 1.0])
        columns.append([gen_cell(rng, t, null_p, allow_nan=False) for _ in range(n)])
    rows = [[columns[j][i] for j in range(ncols)] for i in range(n)]
    tables = split_random(rng, rows, rng.choice([1, 1, 2, 3]))
    source = rng.choice(SEQ_SOURCES)
    if source in SEQ_UNIQUE_NAMES and len({x["name"] for x in cols}) != len(cols) or source == "dicts" and n == 0:
        source = "list"
    lazy = source in SEQ_LAZY
    total = n
    ops = []
    for _ in range(rng.choice([1, 2, 2, 3, 3, 4, 5, 7])):
        r = rng.random()
        sizes = [None, None, 0, 1, 2, total, total + 1, max(0, total - 1), -1] + ([rng.randint(1, total)] if total else [])
        if r < 0.45:
            ops.append(["arrow", rng.choice(sizes)])
            lazy = False
        elif r < 0.52:
            ops.append(["pandas", rng.choice(sizes)])
            lazy = False
        elif r < 0.66:
            ops.append([rng.choice(SEQ_OBSERVERS)])
            lazy = False
        elif r < 0.72:
            ops.append(["head", rng.choice([0, 1, 2, total, total + 1])])
            lazy = False
        elif r < 0.76:
            ops.append(["names"])
        elif r < 0.92:
            k = rng.choice(["fetchone", "fetchone", "fetchmany", "fetchall"])
            ops.append([k, rng.choice([None, 0, 1, 2, total + 1])] if k == "fetchmany" else [k])
        elif source not in SEQ_FROM_ARROW:
            lazy = False
            cell = [2**60 + len(ops)] + [gen_cell(rng, t, 0.3, allow_nan=False) for t in types[1:]]
            ops.append(["append", cell])
            total += 1
        else:
            ops.append(["arrow", rng.choice(sizes)])
            lazy = False
    ops.append(["arrow", rng.choice([None, None, total, 1])])
    return {"kind": "seq", "source": source, "cols": cols, "tables": tables, "ops": ops}


def exhaustive_reuse_cases():
    """Every pair of conversions from a small alphabet on ONE argument object - a list, a tuple of three
    tables (one of them empty) or a single table - followed by an unlimited conversion, each pair read one
    after the other and interleaved.  Every conversion is judged against all the Arrow rows cut to its size."""
    rows = seq_rows(3)
    three = [[rows[:2]], [[]], [rows[2:]]]
    one = [[rows[:1], rows[1:]]]
    alphabet = [["from_arrow", None, None], ["from_arrow", 1, None], ["from_arrow", 2, None], ["from_arrow", 4, None],
                ["from_arrow", None, 1], ["from_arrow", None, 0], ["DataFrame", None, None]]
    last = ["from_arrow", None, None]
    for container, tables in (("list", three), ("tuple", three), ("list", one), ("single", one)):
        for a in alphabet:
            for b in alphabet:
                for order in REUSE_ORDERS:
                    if container != "list" and order == "interleaved" and (a[2] is None and b[2] is None):
                        continue  # (tuples and single tables cannot be modified: the sequential pairs cover them)
                    yield {"kind": "reuse", "cols": SEQ_COLS, "tables": tables, "container": container,
                           "convs": [a, b, last], "order": order}


def reuse_corpus():
    rows = seq_rows(6)
    # the same list converted with every limit in turn, then without one, then as a frame
    ladder = [["from_arrow", k, None] for k in range(1, 8)] + [["from_arrow", None, None], ["DataFrame", None, None]]
    for container in ("list", "tuple"):
        yield {"kind": "reuse", "cols": SEQ_COLS, "tables": [[rows[:1], rows[1:4]], [[]], [rows[4:]]],
               "container": container, "convs": ladder, "order": "sequential"}
        yield {"kind": "reuse", "cols": SEQ_COLS, "tables": [[rows[:1], rows[1:4]], [[]], [rows[4:]]],
               "container": container, "convs": ladder[-4:], "order": "interleaved"}
    # a retry after a conversion that was abandoned inside the second table
    yield {"kind": "reuse", "cols": SEQ_COLS, "tables": [[rows[:2]], [rows[2:4]], [rows[4:]]], "container": "list",
           "convs": [["from_arrow", None, 3], ["from_arrow", None, None], ["DataFrame", None, None]], "order": "sequential"}
    # no table at all, only empty tables
    yield {"kind": "reuse", "cols": SEQ_COLS, "tables": [], "container": "list",
           "convs": [["from_arrow", None, None], ["from_arrow", 2, None], ["from_arrow", None, 1]], "order": "sequential"}
    yield {"kind": "reuse", "cols": SEQ_COLS, "tables": [[[]], [[]]], "container": "list",
           "convs": [["from_arrow", 1, None], ["DataFrame", None, None], ["from_arrow", None, None]], "order": "interleaved"}


def reuse_two_argument_cases():
    """Two argument objects with the SAME column names and another typing / nullability / width of decimal,
    converted alternately: what a conversion says about its columns (and returns as rows) depends on the tables it
    was given, not on what was converted before under the same names."""
    rows_a = [[2**53 + 1 + i, "r%d" % i] for i in range(3)]
    rows_b = [[7 + i, None if i == 1 else "%d.50" % i] for i in range(4)]
    rows_c = [[20 + i, None if i == 0 else str(i)] for i in range(2)]
    a = {"cols": [{"name": "id", "type": "int64", "nullable": False}, {"name": "v", "type": "string", "nullable": False}],
         "tables": [[rows_a[:2]], [rows_a[2:]]]}
    b = {"cols": [{"name": "id", "type": "int64"}, {"name": "v", "type": "decimal128(10,2)"}], "tables": [[rows_b]]}
    c = {"cols": [{"name": "id", "type": "int64", "nullable": False}, {"name": "v", "type": "decimal128(38,0)"}],
         "tables": [[rows_c[:1]], [[]], [rows_c[1:]]]}
    b0 = {"cols": [{"name": "id", "type": "int64"}, {"name": "v", "type": "decimal128(10,0)"}],
          "tables": [[[[1, "5"], [2, None]]]]}
    for first, second in ((a, b), (b, a), (b, c), (c, b0), (b0, b)):
        for container in ("list", "tuple"):
            for order in REUSE_ORDERS:
                yield {"kind": "reuse", "cols": first["cols"], "tables": first["tables"], "second": second,
                       "container": container, "order": order,
                       "convs": [["from_arrow", None, None, 0], ["from_arrow", None, None, 1], ["DataFrame", None, None, 0],
                                 ["from_arrow", 2, None, 1], ["from_arrow", None, None, 0]]}


def random_reuse_case(ctx):
    rng = ctx.rng
    ncols = rng.choice([1, 2, 2, 3])
    types = ["int64"] + [rng.choice(REUSE_COLTYPES) for _ in range(ncols - 1)]
    n = rng.choice([0, 1, 2, 3, 4, 5, 6, 8]) if rng.random() < 0.9 else rng.randint(9, 40)
    cols = [{"name": rng.choice(["id", "a", "é", "x y", ""]) + str(j), "type": t} for j, t in enumerate(types)]
    cols[0]["nullable"] = False
    columns = [[2**53 + 1 + i for i in range(n)]]
    for t in types[1:]:
        columns.append([gen_cell(rng, t, rng.choice([0.0, 0.3, 1.0])) for _ in range(n)])
    rows = [[columns[j][i] for j in range(ncols)] for i in range(n)]
    tables = split_random(rng, rows, rng.choice([1, 2, 3, 4]))
    container = rng.choice(["list", "list", "list", "tuple"] + (["single"] if len(tables) == 1 else []))
    convs = []
    for _ in range(rng.choice([2, 2, 3, 3, 4, 5])):
        if rng.random() < 0.25:
            cv = ["DataFrame", None, None]
        else:
            cv = ["from_arrow", rng.choice([None, None, 1, 2, n + 1, max(1, n), max(1, n - 1)]), None]
        if rng.random() < 0.3:
            cv[2] = rng.choice([0, 1, 2, max(0, n - 1), n])
        convs.append(cv)
    convs.append(["from_arrow", rng.choice([None, None, max(1, n)]), None])
    case = {"kind": "reuse", "cols": cols, "tables": tables, "container": container, "convs": convs,
            "order": rng.choice(REUSE_ORDERS)}
    if container != "single" and rng.random() < 0.3:
        # a second argument under the same column names: other kinds, other nullability, other rows
        n2 = rng.choice([0, 1, 2, 3, 5])
        types2 = ["int64"] + [rng.choice(REUSE_COLTYPES) for _ in range(ncols - 1)]
        cols2 = [{"name": c["name"], "type": t} for c, t in zip(cols, types2)]
        columns2 = [[100 + i for i in range(n2)]]
        for j, t in enumerate(types2[1:], 1):
            cells = [gen_cell(rng, t, rng.choice([0.0, 0.3])) for _ in range(n2)]
            if not any(x is None for x in cells) and rng.random() < 0.5:
                cols2[j]["nullable"] = False
            columns2.append(cells)
        rows2 = [[columns2[j][i] for j in range(ncols)] for i in range(n2)]
        tables2 = split_random(rng, rows2, rng.choice([1, 2, 3]))
        case["second"] = {"cols": cols2, "tables": tables2}
        for cv in convs:
            cv.append(rng.choice([0, 1]))
    return case


SHARE_COLS = [{"name": "id", "type": "int64", "nullable": False}, {"name": "name", "type": "string"}]
SHARE_ALT_COLS = [{"name": "id", "type": "int64"}, {"name": "name", "type": "decimal128(10,2)", "nullable": False}]
SHARE_TABLES = [{"rows": [[1, "a"], [2, None]]}, {"rows": [[3, None], [4, "d"], [5, "e"]]},
                {"rows": [[6, "f"]], "own": True}, {"rows": [[7, "1.50"]], "cols": SHARE_ALT_COLS},
                {"rows": []}, {"rows": [], "own": True}]
SHARE_EDIT_ALPHABET = [None, ["rename", 0, "identifier"], ["nullable", 1, False], ["nullable", 0, True], ["pop", 1, None], ["pop", 0, None],
                       ["type", 0, "VARCHAR"], ["append", 0, "extra"]]


def exhaustive_share_cases():
    """convert a table; edit the result (or not); convert - through every entry point - the same table, another
    table on the very same Schema object, one on an equal Schema of its own, one with the same names under another
    typing.  Every conversion is judged from scratch; no mutable object may be common to two results."""
    for via1 in SHARE_VIAS:
        for e in SHARE_EDIT_ALPHABET:
            for via2 in SHARE_VIAS:
                # (first a table with rows, then any table; first a table without rows - a shape of its own in
                # from_arrow and to_arrow -, then a table without rows or one with)
                for t1, t2 in [(0, t) for t in range(5)] + [(4, 4), (4, 5), (4, 1)]:
                    steps = [["conv", via1, t1]] + ([["edit", 0] + e] if e else []) + [["conv", via2, t2]]
                    yield {"kind": "share", "dir": "from", "cols": SHARE_COLS, "tables": SHARE_TABLES, "steps": steps}


def share_corpus():
    # the session of seeded change C11-w6s2
    yield {"kind": "share", "dir": "from", "cols": SHARE_COLS, "tables": SHARE_TABLES[:2],
           "steps": [["conv", "DataFrame", 0], ["edit", 0, "rename", 0, "identifier"], ["edit", 0, "nullable", 1, False],
                     ["conv", "DataFrame", 1]]}
    # a longer session: every entry point in turn, every result edited, the first table converted again at the end
    yield {"kind": "share", "dir": "from", "cols": SHARE_COLS, "tables": SHARE_TABLES[:4],
           "steps": [["conv", "helper", 0], ["edit", 0, "pop", 0, None], ["conv", "from_arrow", 1], ["edit", 1, "rename", 1, "x"],
                     ["conv", "fields", 2], ["edit", 2, "nullable", 0, True], ["conv", "DataFrame", 3], ["edit", 3, "append", 0, "z"],
                     ["edit", 0, "append", 0, "again"], ["conv", "DataFrame", 0], ["conv", "helper", 2], ["conv", "fields", 1]]}
    # the result edited is the *later* one; the earlier result must not move
    yield {"kind": "share", "dir": "from", "cols": SHARE_COLS, "tables": SHARE_TABLES[:2],
           "steps": [["conv", "from_arrow", 0], ["conv", "DataFrame", 1], ["edit", 1, "rename", 0, "identifier"],
                     ["edit", 1, "pop", 1, None]]}
    # decimal columns of two widths under the same names
    dec = [{"name": "id", "type": "int64", "nullable": False}, {"name": "v", "type": "decimal128(10,2)"}]
    dec0 = [{"name": "id", "type": "int64", "nullable": False}, {"name": "v", "type": "decimal128(10,0)"}]
    yield {"kind": "share", "dir": "from", "cols": dec,
           "tables": [{"rows": [[1, "1.50"]]}, {"rows": [[2, "7"]], "cols": dec0}, {"rows": [[3, None]], "own": True}],
           "steps": [["conv", "DataFrame", 0], ["edit", 0, "type", 1, "VARCHAR"], ["conv", "from_arrow", 1], ["conv", "helper", 2],
                     ["edit", 1, "rename", 1, "w"], ["conv", "DataFrame", 2], ["conv", "fields", 1]]}


SHARE_TO_SCHEMA = [_scol("id", "INTEGER", nullable=False), _scol("name", "VARCHAR"), _scol("d", "DECIMAL", p=10, s=2),
                   _scol("l", "ARRAY", elem="INTEGER")]
SHARE_TO_EDIT_ALPHABET = [["rename", 0, "identifier"], ["nullable", 1, False], ["type", 1, "INTEGER"], ["precision", 2, 12],
                          ["scale", 2, 0], ["elem", 3, "VARCHAR"], ["pop", 1, None], ["append", 0, "extra"]]


def exhaustive_share_to_cases():
    """the other direction: an Orso schema object converted to Arrow, edited, converted again (the same object, or an
    equal one that was not edited) - each conversion must describe the columns as they are when it is made"""
    for via1 in SHARE_TO_VIAS:
        for e in SHARE_TO_EDIT_ALPHABET:
            for via2 in SHARE_TO_VIAS:
                for k2 in (0, 1):
                    yield {"kind": "share", "dir": "to", "schemas": [SHARE_TO_SCHEMA, SHARE_TO_SCHEMA],
                           "steps": [["conv", via1, 0], ["edit", 0] + e, ["conv", via2, k2]]}


def random_share_case(ctx):
    rng = ctx.rng
    if rng.random() < 0.3:
        return random_share_to_case(ctx)
    ncols = rng.choice([1, 2, 2, 3])
    names = rng.sample(["id", "name", "é", "x y", "", "v", "n"], ncols)
    cols = [{"name": nm, "type": rng.choice(SHARE_COLTYPES), "nullable": rng.random() < 0.7} for nm in names]

    def rows_for(cs):
        n = rng.choice([0, 1, 2, 3])
        return [[gen_cell(rng, c["type"], 0.0 if (c["type"] == "int64" or not c.get("nullable", True)) else 0.3) for c in cs]
                for _ in range(n)]
    tables = []
    for t in range(rng.choice([1, 2, 2, 3])):
        spec = {}
        cs = cols
        if t and rng.random() < 0.25:   # the same names under another typing / nullability
            cs = [{"name": c["name"], "type": rng.choice(SHARE_COLTYPES), "nullable": rng.random() < 0.7} for c in cols]
            spec["cols"] = cs
        elif t and rng.random() < 0.4:
            spec["own"] = True
        spec["rows"] = rows_for(cs)
        tables.append(spec)
    steps, widths = [], []
    for _ in range(rng.choice([2, 3, 3, 4, 5])):
        steps.append(["conv", rng.choice(SHARE_VIAS), rng.randrange(len(tables))])
        widths.append(ncols)
        for _ in range(rng.choice([0, 1, 1, 2])):
            r = rng.randrange(len(widths))
            what = rng.choice(SHARE_EDITS)
            if what == "append":
                steps.append(["edit", r, "append", 0, rng.choice(["extra", "id", "z"])])
                widths[r] += 1
                continue
            if widths[r] == 0:
                continue
            j = rng.randrange(widths[r])
            if what == "pop":
                steps.append(["edit", r, "pop", j, None])
                widths[r] -= 1
            else:
                value = {"rename": rng.choice(["identifier", "id", "", "é"]), "nullable": rng.random() < 0.5,
                         "type": rng.choice(SHARE_EDIT_TYPES)}[what]
                steps.append(["edit", r, what, j, value])
    if steps[-1][0] != "conv" or rng.random() < 0.5:
        steps.append(["conv", rng.choice(SHARE_VIAS), rng.randrange(len(tables))])
    return {"kind": "share", "dir": "from", "cols": cols, "tables": tables, "steps": steps[:16]}


def random_share_to_case(ctx):
    rng = ctx.rng

    def col(j):
        t = rng.choice(SHARE_TO_TYPES + ("DECIMAL", "ARRAY"))
        c = _scol(rng.choice(["a", "b", "é", "x y"]) + str(j), t, nullable=rng.random() < 0.7)
        if t == "DECIMAL":
            c["p"] = rng.choice([1, 10, 28, 38])
            c["s"] = rng.choice([0, c["p"], rng.randint(0, c["p"])])
        elif t == "ARRAY":
            c["elem"] = rng.choice(SHARE_TO_ELEMS)
        return c
    cols = [col(j) for j in range(rng.choice([1, 2, 3, 4]))]
    schemas = [cols] + ([cols] if rng.random() < 0.5 else [])
    state = [[dict(c) for c in cs] for cs in schemas]
    steps = []
    for _ in range(rng.choice([2, 3, 4, 5])):
        steps.append(["conv", rng.choice(SHARE_TO_VIAS), rng.randrange(len(schemas))])
        for _ in range(rng.choice([0, 1, 1, 2])):
            k = rng.randrange(len(schemas))
            j = rng.randrange(len(state[k]))
            c = state[k][j]
            what = rng.choice(SHARE_TO_EDITS)
            value = {"rename": "r%d" % len(steps), "nullable": rng.random() < 0.5, "type": rng.choice(SHARE_TO_TYPES),
                     "precision": rng.choice([1, 12, 38]), "scale": rng.choice([0, 1, c.get("p") or 0]),
                     "elem": rng.choice(SHARE_TO_ELEMS), "pop": None, "append": "n%d" % len(steps)}[what]
            new = _share_to_edit(state[k], what, j, value)
            if new:
                state[k] = new
                steps.append(["edit", k, what, j, value])
    steps.append(["conv", rng.choice(SHARE_TO_VIAS), rng.randrange(len(schemas))])
    return {"kind": "share", "dir": "to", "schemas": schemas, "steps": steps[:16]}


def big_cases(ctx):
    rng = ctx.rng
    out = [
        {"kind": "big", "n": 10001, "nulls": [0, 10000], "size": None},
        {"kind": "big", "n": 25000, "nulls": [9999, 10000, 20000], "size": 20001, "start": 2**53},
        {"kind": "big", "n": 12000, "nulls": [], "size": None, "parts": [3, 0, 10001, 1996], "via": "DataFrame"},
    ]
    # exactly at / one below / one past the batch constant extracted from the working tree, as table length
    # and as limit, in one table and with the limit falling into a second table
    B = batch_constant()
    if 2 <= B <= 200000:
        for n, size, parts in ((B + 1, B + 1, None), (B + 1, B, None), (B + 2, B + 1, None), (B, B + 1, None),
                               (B + 5, B + 2, [B + 2, 3]), (B + 5, B + 3, [B + 2, 3]), (2 * B + 3, 2 * B + 1, None),
                               (B + 3, B - 1, [1, B + 2]), (B + 1, None, [B + 1])):
            out.append({"kind": "big", "n": n, "nulls": [0, n - 1], "size": size, "parts": parts, "start": 2**53})
            if len(out) % 3:
                out[-1]["binary_only"] = True  # (the run on the transcribed .pyx source is made for every third of them)
    if ctx.tier == "thorough":
        for _ in range(6):
            n = rng.randint(10001, 40000)
            a = rng.randint(0, n)
            out.append({"kind": "big", "n": n, "nulls": sorted(rng.sample(range(n), 5)),
                        "size": rng.choice([None, n, n + 1, rng.randint(1, n), 10000, 10001]),
                        "parts": [a, 0, n - a], "start": rng.choice([0, 2**53, -2**62])})
    return out


CORPUS = [
    # the two repaired defects
    {"kind": "iter", "cols": [{"name": "a", "type": "int64"}], "tables": [[[[1], [2]]], [[]], [[[3]]]], "size": None},
    {"kind": "iter", "cols": [{"name": "a", "type": "int64"}], "tables": [[[]], [[[1], [2]]], [[[3]]]], "size": None},
    {"kind": "iter", "cols": [{"name": "a", "type": "int64"}], "tables": [[], [[[1]]], [[]], [[]], [[[2]]]], "size": 2, "via": "generator"},
    {"kind": "type", "type": "DECIMAL", "elem": None, "p": 10, "s": 0, "name": "x", "nullable": True},
    # no tables at all
    {"kind": "iter", "cols": [{"name": "a", "type": "int64"}], "tables": [], "size": None},
    {"kind": "iter", "cols": [{"name": "a", "type": "int64"}], "tables": [], "size": 3, "via": "generator"},
    # zero-row frames keep their column names
    {"kind": "roundtrip", "names": ["x", "y"], "types": ["int64", "string"], "rows": [], "size": None},
    {"kind": "roundtrip", "names": ["x", "y"], "types": ["int64", "string"], "rows": [[1, "a"], [2, None]], "size": 0},
    {"kind": "roundtrip", "names": ["x", "y"], "types": ["int64", "string"], "rows": [[2**53 + 1, "a"], [-2**63, None], [3, ""]], "size": 2, "lazy": True},
]


SCHEMA_DIFFERS = [
    # what from_arrow does with tables whose schema differs from the first table's (observed, not demanded)
    {"kind": "iter", "cols": [{"name": "a", "type": "int64"}], "size": None,
     "cols_by_table": {"1": [{"name": "b", "type": "string"}, {"name": "c", "type": "float64"}]},
     "tables": [[[[1], [2]]], [[["x", 1.5]]]]},
    {"kind": "iter", "cols": [{"name": "a", "type": "int64"}], "size": 2,
     "cols_by_table": {"1": [{"name": "a", "type": "float64"}]},
     "tables": [[[[1]]], [[[2.5], [3.5]]]]},
    {"kind": "iter", "cols": [{"name": "a", "type": "int64"}, {"name": "b", "type": "string"}], "size": None, "via": "DataFrame",
     "cols_by_table": {"1": [{"name": "b", "type": "string"}, {"name": "a", "type": "int64"}]},
     "tables": [[[[1, "x"]]], [[["y", 2]]]]},
]


def other_iterable_cases():
    rows = split_rows(4)
    for via in OTHER_ITERABLES:
        for size in (None, 3):
            yield {"kind": "iter", "cols": SPLIT_COLS, "tables": [[rows[:2]], [[]], [rows[2:]]], "size": size, "via": via}


def ext_type_cases():
    """One deterministic table per column kind outside the property's list."""
    import random

    rng = random.Random(12)
    for t in EXT_TYPES:
        for null_p in (0.0, 0.4):
            cells = [gen_cell(rng, t, null_p, nested_null=False) for _ in range(5)]
            rows = [[2**53 + 1 + i, c] for i, c in enumerate(cells)]
            cols = [{"name": "id", "type": "int64", "nullable": False}, {"name": "c", "type": t}]
            yield {"kind": "iter", "cols": cols, "tables": [[rows[:2], []], [[]], [rows[2:3], rows[3:]]],
                   "size": None if null_p == 0.0 else 4}


def many_batches_cases():
    """Chunked tables with many small batches (and batch sizes 1, 2, 7 through the size limit)."""
    n = 30
    rows = [[i, None if i % 5 == 0 else "r%d" % i] for i in range(n)]
    cols = [{"name": "n", "type": "int64", "nullable": False}, {"name": "s", "type": "string"}]
    one = [rows[i:i + 1] for i in range(n)]
    mixed = []
    for i in range(0, n, 3):
        mixed += [rows[i:i + 2], [], rows[i + 2:i + 3]]
    for chunks in (one, mixed):
        for size in (None, 1, 2, 7, n - 1, n, n + 1):
            for via in ("from_arrow", "DataFrame.arrow"):
                if via == "DataFrame.arrow" and size not in (None, 7):
                    continue
                yield {"kind": "iter", "cols": cols, "tables": [chunks[:20], [], chunks[20:]], "size": size, "via": via,
                       "stagger": size == 7}


def per_type_cases():
    """One small deterministic table per column type of the quantifier: no nulls, nulls, two tables, a limit."""
    import random

    rng = random.Random(11)
    for t in sorted(set(COLTYPES)):
        for null_p in (0.0, 0.4):
            cells = [gen_cell(rng, t, null_p, nested_null=False) for _ in range(5)]
            rows = [[c] for c in cells]
            yield {"kind": "iter", "cols": [{"name": "c", "type": t}], "tables": [[rows[:2]], [[]], [rows[2:]]],
                   "size": None if null_p == 0.0 else 4}


def name_cases():
    """Column names that are repeated, empty, differ only by case / composition / blanks, are not NFC, are very long:
    every conversion direction (Arrow -> frame, frame -> Arrow -> frame, a frame built from Arrow converted back, a
    frame used twice), with and without a limit, with and without rows."""
    kinds = ["int64", "string", "float64"]
    for names in NAME_LISTS + [[n_] for n_ in HARD_NAMES[::3]]:
        w = len(names)
        types = [kinds[j % 3] for j in range(w)]
        rows = [[[2**53 + 1 + i, "r%d" % i, 0.5 + i][j % 3] if (i + j) % 4 else ([2**53 + 1 + i, None, None][j % 3]) for j in range(w)]
                for i in range(3)]
        cols = [{"name": n_, "type": t} for n_, t in zip(names, types)]
        for rws in (rows, []):
            for size in (None, 1):
                for via in ("from_arrow", "DataFrame", "DataFrame.arrow", "generator"):
                    if via == "DataFrame" and size is not None:
                        continue
                    yield {"kind": "iter", "cols": cols, "tables": [[rws[:2]], [[]], [rws[2:]]], "size": size, "via": via}
            for size in (None, 0, 2, 4):
                yield {"kind": "roundtrip", "names": names, "types": types, "rows": rws, "size": size}
            yield {"kind": "roundtrip", "names": names, "types": types, "rows": rws, "size": None, "lazy": True}
        scols = [dict(c_, type="int64", nullable=False) if j == 0 else c_ for j, c_ in enumerate(cols)]
        srows = [[r[0] if j == 0 else r[j] for j in range(w)] for r in rows]
        if types[0] == "int64":
            for source in SEQ_SOURCES:
                if source in SEQ_UNIQUE_NAMES and len(set(names)) != len(names):
                    continue
                yield {"kind": "seq", "source": source, "cols": scols, "tables": [[srows[:1]], [srows[1:]]],
                       "ops": [["arrow", 1], ["names"], ["arrow", None], ["pandas", None]]}


def internal_name_cases():
    """Column names that look like what the conversion uses inside (decimal positions, pandas' index names), with repeated
    names, the columns of DIFFERENT kinds in every rotation (a cell converted as if it belonged to another column shows):
    Arrow -> rows (list / generator / single table / DataFrame / the row iterator driven directly), a frame built from
    Arrow converted back, frame -> Arrow -> frame, a frame used twice."""
    kinds = ["int64", "string", "bool", "float64"]
    vals = [lambda i: 2**53 + 1 + i, lambda i: "r%d" % i, lambda i: i % 2 == 0, lambda i: 0.5 + i]
    for names in INTERNAL_NAME_LISTS:
        w = len(names)
        for rot in range(len(kinds) if names in INTERNAL_NAME_LISTS[:12] else 2):
            ks = [(j + rot) % len(kinds) for j in range(w)]
            types = [kinds[k_] for k_ in ks]
            rows = [[None if (i + j) % 4 == 3 and types[j] != "int64" else vals[k_](i) for j, k_ in enumerate(ks)] for i in range(3)]
            cols = [{"name": n_, "type": t} for n_, t in zip(names, types)]
            for tables, size, via in (([[rows[:2]], [[]], [rows[2:]]], None, "from_arrow"), ([[rows[:2]], [[]], [rows[2:]]], 2, "generator"),
                                      ([[rows]], None, "single"), ([[rows[:1], rows[1:]]], None, "DataFrame"),
                                      ([[rows[:2]], [rows[2:]]], None, "DataFrame.arrow"), ([[]], None, "from_arrow")):
                yield {"kind": "iter", "cols": cols, "tables": tables, "size": size, "via": via}
            yield {"kind": "iter", "cols": cols, "tables": [[rows[:2]], [rows[2:]]], "size": None, "via": "iterator", "batch": 1}
            yield {"kind": "roundtrip", "names": names, "types": types, "rows": rows, "size": None}
            yield {"kind": "roundtrip", "names": names, "types": types, "rows": rows, "size": 2, "lazy": True}
            if types[0] == "int64":
                scols = [dict(c_, nullable=False) if j == 0 else c_ for j, c_ in enumerate(cols)]
                for source in ("from_arrow", "list"):
                    yield {"kind": "seq", "source": source, "cols": scols, "tables": [[rows[:1]], [rows[1:]]],
                           "ops": [["arrow", 1], ["names"], ["arrow", None]]}


NULLABILITY_TYPES = ["int64", "int8", "uint64", "float64", "float32", "string", "large_string", "bool", "binary", "timestamp[us]",
                     "timestamp[us,UTC]", "date32", "decimal128(10,2)", "decimal128(38,0)", "list<int64>", "list<string>"]


def nullability_cases(ctx=None):
    """What a column says about nulls comes from the FIELD, not from the data: every field kind x the field's flag x where the
    nulls are (the first table / only a later table / nowhere / every cell / no rows at all / the first table has no rows),
    through every entry point.  A field declared nullable=False that holds a null is a legal Arrow table."""
    import random

    rng = random.Random(11)
    k_ = 0
    for t in NULLABILITY_TYPES:
        def cell(null, _t=t):
            return None if null else gen_cell(rng, _t, 0.0, allow_nan=False, nested_null=False)
        for flag in (False, True):
            cols = [{"name": "id", "type": "int64", "nullable": False}, {"name": "x", "type": t, "nullable": flag}]
            for place, layout in (("first", [[True, False], [False]]), ("later", [[False, False], [True]]), ("none", [[False], [False, False]]),
                                  ("all", [[True], [True, True]]), ("no-rows", [[], []]), ("first-table-empty", [[], [True, False]]),
                                  ("single-null", [[True]])):
                i = 0
                tables = []
                for tb in layout:
                    rows = []
                    for null in tb:
                        rows.append([i, cell(null)])
                        i += 1
                    tables.append([rows])
                k_ += 1
                vias = ["from_arrow", ("generator", "DataFrame", "DataFrame.arrow", "tuple")[k_ % 4]] + (["single"] if len(tables) == 1 else [])
                for via in vias:
                    yield {"kind": "iter", "cols": cols, "tables": tables, "size": None, "via": via}
                if place in ("first", "later"):
                    yield {"kind": "iter", "cols": cols, "tables": tables, "size": 1, "via": "from_arrow"}
            # the flag of a column is its own: neighbours with the other flag, nulls in the other one
            both = [{"name": "a", "type": t, "nullable": flag}, {"name": "b", "type": t, "nullable": not flag}]
            yield {"kind": "iter", "cols": both, "tables": [[[[cell(True), cell(False)], [cell(False), cell(False)]]]], "size": None}
            yield {"kind": "iter", "cols": both, "tables": [[[[cell(False), cell(True)], [cell(False), cell(False)]]]], "size": None}


def _batched(ctx, cases, n=400):
    batch = []
    count = 0
    for c in cases:
        batch.append(c)
        if len(batch) >= n:
            evaluate(ctx, batch)
            count += len(batch)
            batch = []
    evaluate(ctx, batch)
    return count + len(batch)


def run(ctx):
    ctx.note("rule", "cases: real pyarrow tables / DataFrames / column definitions run on orso and on the Lean model "
             "(iterator machine, to_arrow transposition, generated type tables); non-trivial = at least one row "
             "(iter, roundtrip) or any column/field definition; distinct by canonical JSON of the case")
    ctx.note("assumptions", ["pyarrow/pandas cell conversion (Table.to_batches, RecordBatch.to_pandas, itertuples, "
                             "pyarrow type inference in Table.from_arrays) is external glue: compared cell by cell with "
                             "table.to_pylist() after the canonicalisation documented in harness/props/c11.py, not modelled",
                             "numeric pyarrow.lib.Type_* ids and the decimal128 precision range are read from the installed pyarrow"])
    sh = load_shadow()
    ctx.note("process_table_source_shadow", sh["status"])
    ctx.note("process_table_binary_vs_source", "source lines embedded in compiled.c are identical to compiled.pyx"
             if sh["stale"] == [] else ("no compiled.c to compare with" if sh["stale"] is None else sh["stale"][:10]))
    import time as _t

    marks, t_last = {}, [_t.time()]

    def mark(name):
        marks[name] = round(marks.get(name, 0) + _t.time() - t_last[0], 2)
        t_last[0] = _t.time()

    marks["before_run"] = round(ctx.budget_s - ctx.time_left(), 2)
    if ctx.tier == "quick":
        ctx.budget_s = max(ctx.budget_s, 76)  # the exhaustive families take ~48 s; leaves ~28 s for the random ones
    _batched(ctx, CORPUS)
    # several columns in one schema first: a failure that needs two different decimal types (or two uses of
    # anything cached) is then met in a case that carries both, and its replay fails on its own
    _batched(ctx, schema_cases())
    _batched(ctx, per_type_cases())
    _batched(ctx, ext_type_cases())
    _batched(ctx, many_batches_cases())
    _batched(ctx, SCHEMA_DIFFERS)
    _batched(ctx, other_iterable_cases())
    n_sizeobj = _batched(ctx, size_object_cases())
    ctx.note("size_object_cases", n_sizeobj)
    mark("corpus+per-type+ext+many-batches+size-objects")
    n_names = _batched(ctx, name_cases())
    mark("names")
    n_inames = _batched(ctx, internal_name_cases())
    n_nullab = _batched(ctx, nullability_cases())
    ctx.note("internal_name_cases", n_inames)
    ctx.note("nullability_cases", n_nullab)
    mark("internal-names+nullability")
    _batched(ctx, seq_corpus())
    n_seq = _batched(ctx, exhaustive_seq_cases())
    mark("seq-exhaustive")
    n_sess = _batched(ctx, exhaustive_session_cases())
    mark("seq-sessions-exhaustive")
    _batched(ctx, reuse_corpus())
    _batched(ctx, reuse_two_argument_cases())
    n_reuse = _batched(ctx, exhaustive_reuse_cases())
    mark("reuse-exhaustive")
    nmax, kmax = ctx.scale((6, 4), (6, 4))
    _batched(ctx, share_corpus())
    n_share = _batched(ctx, exhaustive_share_cases()) + _batched(ctx, exhaustive_share_to_cases())
    mark("share-exhaustive")
    n_split = _batched(ctx, exhaustive_split_cases(nmax, kmax))
    mark("split-exhaustive")
    n_itb = _batched(ctx, exhaustive_iterator_cases(*ctx.scale((4, 3), (5, 4))))
    mark("iterator-exhaustive")
    n_type = _batched(ctx, exhaustive_type_cases(True))
    n_field = _batched(ctx, exhaustive_field_cases())
    evaluate(ctx, [random_schema_case(ctx) for _ in range(ctx.scale(150, 3000))])
    mark("type+field+schema")
    ctx.exhaustive = False
    ctx.note("exhaustive_scope", "every split of 0..%d rows into 1..%d tables (empty tables anywhere) x every size 1..N+1 and none "
             "(%d cases); every Orso type, every ARRAY element type, every DECIMAL (p,s) with 0<=s<=p<=38 (%d cases); "
             "a catalogue of %d Arrow fields; _RowsIterator driven directly with batch sizes 1, 2, 3, 7 x every limit over every "
             "split of 0..4(5) rows into 1..3(4) tables (%d cases); every pair of calls from a 10-call alphabet on one frame "
             "x 5 kinds of frame, each followed by an unlimited conversion (%d cases); every pair of conversions from a "
             "7-conversion alphabet on ONE list / tuple / single table, sequential and interleaved, followed by an unlimited "
             "conversion, the argument compared afterwards (%d cases); convert / edit the result / convert again through "
             "every pair of entry points x 8 edits x 8 pairs of tables (same table, same Schema object, equal Schema, other typing, "
             "without rows), and the same towards Arrow (%d cases); every triple of calls from {arrow(), arrow(1), append, nbytes(), "
             "materialize(), fetchone()} on one frame x 9 ways a frame comes to be (Arrow tables, generator, list, dictionaries, "
             "derived eagerly / lazily), each followed by an unlimited conversion (%d cases); %d cases over column names that are "
             "repeated / empty / not NFC / differ by case or composition only / very long, in every conversion direction; then random"
             % (nmax, kmax, n_split, n_type, n_field, n_itb, n_seq, n_reuse, n_share, n_sess, n_names))
    _batched(ctx, big_cases(ctx), n=2)
    mark("big")
    n_iter, n_rt = ctx.scale((1500, 700), (30000, 12000))
    # every random family gets its share of what is left of the budget (the first one must not use it up)
    rem = max(ctx.time_left(), 1.0)
    done = 0
    while done < n_iter and ctx.time_left() > max(10, 0.50 * rem):
        k = min(300, n_iter - done)
        evaluate(ctx, [random_iter_case(ctx, quiet_known=(i % 2 == 0), ext=(i % 5 == 4)) for i in range(k)])
        done += k
    mark("random-iter")
    n_seq_r = ctx.scale(400, 8000)
    done = 0
    while done < n_seq_r and ctx.time_left() > max(6, 0.30 * rem):
        k = min(200, n_seq_r - done)
        evaluate(ctx, [random_seq_case(ctx) for _ in range(k)])
        done += k
    mark("random-seq")
    n_reuse_r = ctx.scale(300, 6000)
    done = 0
    while done < n_reuse_r and ctx.time_left() > max(5, 0.20 * rem):
        k = min(150, n_reuse_r - done)
        evaluate(ctx, [random_reuse_case(ctx) for _ in range(k)])
        done += k
    mark("random-reuse")
    n_share_r = ctx.scale(300, 6000)
    done = 0
    while done < n_share_r and ctx.time_left() > max(4, 0.14 * rem):
        k = min(150, n_share_r - done)
        evaluate(ctx, [random_share_case(ctx) for _ in range(k)])
        done += k
    mark("random-share")
    done = 0
    while done < n_rt and ctx.time_left() > 3:
        k = min(300, n_rt - done)
        evaluate(ctx, [random_roundtrip_case(ctx, quiet_known=(i % 2 == 0)) for i in range(k)])
        done += k
    mark("random-roundtrip")
    flush_pending(ctx)
    settle_departures(ctx)
    ctx.note("seconds_per_section", marks)


def intensify(ctx):
    for _ in range(10):
        if ctx.time_left() < 5:
            break
        evaluate(ctx, [random_iter_case(ctx, quiet_known=True) for _ in range(300)])
        evaluate(ctx, [random_roundtrip_case(ctx, quiet_known=True) for _ in range(200)])
        evaluate(ctx, [random_seq_case(ctx) for _ in range(150)])
        evaluate(ctx, [random_reuse_case(ctx) for _ in range(100)])
        evaluate(ctx, [random_share_case(ctx) for _ in range(100)])
    _batched(ctx, exhaustive_type_cases(True))
    _batched(ctx, exhaustive_field_cases())
    _batched(ctx, schema_cases())
    evaluate(ctx, [random_schema_case(ctx) for _ in range(300)])
    flush_pending(ctx)
    settle_departures(ctx)


def replay(ctx, case):
    if not valid_case(case):
        raise InfraError("stored case is not a valid C11 case: %r" % (case,))
    evaluate(ctx, [case])
    settle_departures(ctx)


# --------------------------------------------------------------------------- known findings


def _col_type(case, j):
    if case.get("kind") == "iter":
        return case["cols"][j]["type"]
    if case.get("kind") == "big":
        return ["int64", "string"][j]
    if case.get("kind") == "roundtrip":
        return case["types"][j]
    return None


def _known_int_null(case, failure):
    d = failure.get("detail") or {}
    if failure.get("clause") != "integer cells of a column containing a null come back as floats":
        return False
    t = _col_type(case, d.get("col"))
    if t not in INT_TYPES:
        return False
    # the column of that table really holds a null
    if case["kind"] == "iter":
        j = d["col"]
        return any(r[j] is None for ch in case["tables"][d["table"]] for r in ch)
    if case["kind"] == "roundtrip":
        return any(r[d["col"]] is None for r in case["rows"])
    return False


def _known_list_null(case, failure):
    d = failure.get("detail") or {}
    if failure.get("clause") != "numeric list cells of a column with a null element come back as floats with NaN":
        return False
    j = d.get("col")
    t = _col_type(case, j)
    if not (t and t.startswith("list<") and t[5:-1] in INT_TYPES + FLOAT_TYPES):
        return False
    # some cell of that column (of that table) really holds a null element
    if case["kind"] == "iter":
        cells = [r[j] for ch in case["tables"][d["table"]] for r in ch]
    elif case["kind"] == "roundtrip":
        cells = [r[j] for r in case["rows"]]
    else:
        return False
    return any(c is not None and any(x is None for x in c) for c in cells)


def _known_zoned_ts(case, failure):
    d = failure.get("detail") or {}
    if failure.get("clause") != "zone-aware timestamp before 1677-09-21 comes back as a different instant":
        return False
    t = _col_type(case, d.get("col"))
    e = d.get("expected")
    return bool(t) and t.startswith("timestamp[") and "," in t and t[:-1].split(",")[1] not in ("UTC", "utc") \
        and isinstance(e, list) and e[:1] == ["tsz"] and e[1] < PANDAS_NS_MIN_US


def _typed_col(case, failure):
    """The column definition a typing failure is about: the `type` case itself, or the column of a `schema`
    case the failure names (`detail.col`)."""
    if case.get("kind") == "type":
        return case
    if case.get("kind") == "schema":
        j = (failure.get("detail") or {}).get("col")
        if isinstance(j, int) and 0 <= j < len(case.get("cols", [])):
            return case["cols"][j]
    return {}


def _known_date(case, failure):
    return _typed_col(case, failure).get("type") == "DATE" \
        and failure.get("clause") == "Orso type not preserved by the Arrow type mapping" \
        and (failure.get("detail") or {}).get("back") == "TIMESTAMP"


def _known_array_date(case, failure):
    c = _typed_col(case, failure)
    return c.get("type") == "ARRAY" and c.get("elem") == "DATE" \
        and failure.get("clause") == "ARRAY element type not preserved by the Arrow type mapping" \
        and (failure.get("detail") or {}).get("back") == "TIMESTAMP"


def _known_array_decimal(case, failure):
    c = _typed_col(case, failure)
    return c.get("type") == "ARRAY" and c.get("elem") == "DECIMAL" \
        and failure.get("clause") == "ARRAY element type not preserved by the Arrow type mapping" \
        and (failure.get("detail") or {}).get("back") is None


def _known_decimal_p0(case, failure):
    c = _typed_col(case, failure)
    back = (failure.get("detail") or {}).get("back")
    # precision 0 is replaced by DECIMAL_PRECISION (the scale is kept), or the constructor refuses it
    replaced = isinstance(back, list) and len(back) == 2 and back[0] not in (None, 0) and back[1] == c.get("s")
    refused = isinstance(back, list) and back[:1] == ["err"]
    return c.get("type") == "DECIMAL" and c.get("p") == 0 \
        and failure.get("clause") == "DECIMAL precision/scale not preserved by the Arrow type mapping" \
        and (replaced or refused)


KNOWN_PREDICATES = {
    "int_column_with_null_becomes_float": _known_int_null,
    "numeric_list_with_null_element": _known_list_null,
    "zoned_timestamp_below_pandas_ns_range": _known_zoned_ts,
    "date_maps_to_timestamp": _known_date,
    "array_of_date_maps_to_timestamp": _known_array_date,
    "array_of_decimal_loses_element_type": _known_array_decimal,
    "decimal_precision_zero": _known_decimal_p0,
}
