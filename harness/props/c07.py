"""C07 — Casting to a column type is exact on canonical renderings.

oracle: the statement on OrsoTypes.<T>.parse's own outputs (null -> null, identity on typed values,
canonical text/bytes rendering -> value, longest prefix, arrays element-wise with nulls kept, decimals
exact when they fit, result class);  correspondence: every in-domain (type, value) pair vs
Model/Cast.lean;  parameter: float(repr(f)) == f, sampled >= 10^5 doubles per run.
"""
import datetime
import decimal
import struct

from .. import wire
from ..core import InfraError, shrink
from .c08 import rand_dt, text_in_domain

D = decimal.Decimal


def _k_array_bigint(case, failure):
    """ARRAY<INTEGER> from JSON text holding an integer outside orjson's 64-bit range, wrong element value."""
    import re

    if case.get("ty") != ["ARRAY", ["INTEGER"]] or not str(failure.get("clause", "")).startswith("JSON array element-wise"):
        return False
    v = py_val(case["val"])
    if isinstance(v, bytes):
        v = v.decode("utf-8")
    if not isinstance(v, str):
        return False
    return any(not (-(2**63) <= int(m) <= 2**64 - 1) for m in re.findall(r"-?\d+", v))


KNOWN_PREDICATES = {"array_int_beyond_64bit": _k_array_bigint}

# --------------------------------------------------------------------------- case <-> python


def py_val(j):
    """Tagged JSON value -> Python value."""
    if j is None:
        return None
    t, v = j["t"], j.get("v")
    if t in ("bool", "int", "float", "str", "bytes"):
        return v
    if t == "dec":
        return D(v)
    if t == "date":
        return datetime.date(*v)
    if t == "datetime":
        return datetime.datetime(*v)
    if t == "list":
        return [py_val(x) for x in v]
    if t == "tuple":
        return tuple(py_val(x) for x in v)
    if t == "obj":
        return {"object": object(), "complex": 1j, "dict": {"a": 1}, "set": {1, 2}, "timedelta": datetime.timedelta(1), "time": datetime.time(1, 2)}[v]
    raise InfraError("bad value tag %r" % (j,))


def tag(v):
    if v is None:
        return None
    t = type(v)
    if t in (bool, int, float, str, bytes):
        return {"t": t.__name__, "v": v}
    if t is D:
        return {"t": "dec", "v": str(v)}
    if t is datetime.datetime:
        return {"t": "datetime", "v": [v.year, v.month, v.day, v.hour, v.minute, v.second, v.microsecond]}
    if t is datetime.date:
        return {"t": "date", "v": [v.year, v.month, v.day]}
    if t is list:
        return {"t": "list", "v": [tag(x) for x in v]}
    if t is tuple:
        return {"t": "tuple", "v": [tag(x) for x in v]}
    raise InfraError("cannot tag %r" % (v,))


def wire_val(v):
    """Python value -> model `Val` in wire form (None = null); raises KeyError outside the model's universe."""
    if v is None:
        return None
    t = type(v)
    if t is bool:
        return ["bool", v]
    if t is int:
        return ["int", v]
    if t is float:
        return ["float", v]
    if t is str:
        v.encode("utf-8")
        return ["str", v]
    if t is bytes:
        return ["bytes", v]
    if t is D:
        s, digits, e = v.as_tuple()
        if e == "F":
            return ["decinf", bool(s)]
        if e in ("n", "N"):
            if e == "N" or digits:
                raise KeyError("sNaN / payload")
            return ["decnan"]
        return ["dec", bool(s), int("".join(map(str, digits)) or "0"), e]
    if t is datetime.datetime:
        if v.tzinfo is not None:
            raise KeyError("aware")
        return ["datetime", [v.year, v.month, v.day, v.hour, v.minute, v.second, v.microsecond]]
    if t is datetime.date:
        return ["date", v.year, v.month, v.day]
    raise KeyError(t.__name__)


def unwire_val(w):
    if w is None:
        return None
    k = w[0]
    if k in ("bool", "int", "float", "str", "bytes"):
        return w[1]
    if k == "dec":
        return D((1 if w[1] else 0, tuple(int(c) for c in str(w[2])), w[3]))
    if k == "decinf":
        return D("-Infinity" if w[1] else "Infinity")
    if k == "decnan":
        return D("NaN")
    if k == "date":
        return datetime.date(*w[1:])
    if k == "datetime":
        return datetime.datetime(*w[1])
    raise InfraError("bad model value %r" % (w,))


def same(a, b):
    """Equal value *and* representation (floats by bits, decimals by sign/digits/exponent)."""
    if type(a) is not type(b):
        return False
    if isinstance(a, float):
        return struct.pack(">d", a) == struct.pack(">d", b)
    if isinstance(a, D):
        return a.as_tuple() == b.as_tuple()
    if isinstance(a, list):
        return len(a) == len(b) and all(same(x, y) for x, y in zip(a, b))
    return a == b


def equal_value(a, b):
    """The statement's 'equal value': Python equality, NaN equal to NaN."""
    if isinstance(a, float) and isinstance(b, float) and a != a and b != b:
        return True
    if isinstance(a, D) and isinstance(b, D) and a.is_nan() and b.is_nan():
        return True
    if isinstance(a, list) and isinstance(b, list):
        return len(a) == len(b) and all(equal_value(x, y) for x, y in zip(a, b))
    if type(a) is bool or type(b) is bool:
        return type(a) is type(b) and a == b
    return a == b


def orso_type(name):
    from orso.types import OrsoTypes

    return OrsoTypes[name]


def kwargs_of(ty):
    n = ty[0]
    kw = {}
    if n == "DECIMAL":
        if ty[1] is not None:
            kw["precision"] = ty[1]
        if ty[2] is not None:
            kw["scale"] = ty[2]
    elif n in ("VARCHAR", "BLOB") and ty[1] is not None:
        kw["length"] = ty[1]
    return kw


def class_ok(name, r):
    from orso.types import ORSO_TO_PYTHON_MAP

    cls = ORSO_TO_PYTHON_MAP[orso_type(name)]
    if not isinstance(r, cls):
        return False
    if cls is int and type(r) is bool:
        return False
    if cls is datetime.date and isinstance(r, datetime.datetime):
        return False
    return True


def run_impl(c):
    T = orso_type(c["ty"][0])
    v = py_val(c["val"])
    kw = kwargs_of(c["ty"])
    if c["ty"][0] == "ARRAY":
        kw = {}
        if c["ty"][1] is not None:
            kw["element_type"] = orso_type(c["ty"][1][0])
    try:
        r = T.parse(v, **kw)
    except Exception as e:  # the statement allows a cast to raise
        return ("err", type(e).__name__)
    return ("ok", r)


# --------------------------------------------------------------------------- oracle


def fits(d, p, s):
    if not d.is_finite() or p < 1:
        return False
    sign, digits, e = d.as_tuple()
    c = int("".join(map(str, digits)) or "0")
    sh = e + s
    if sh >= 0:
        n = c * 10**sh
    else:
        if c % 10**(-sh):
            return False
        n = c // 10**(-sh)
    return len(str(n)) <= p


def oracle(c, out):
    name = c["ty"][0]
    exp = c.get("expect")  # tagged expected value demanded by the statement, or absent
    if out[0] == "ok":
        r = out[1]
        if r is not None:
            if name == "ARRAY":
                if type(r) is not list:
                    return "ARRAY cast returned a %s, not a list" % type(r).__name__
                if c["ty"][1] is not None:
                    for x in r:
                        if x is not None and not class_ok(c["ty"][1][0], x):
                            return "ARRAY element of class %s for element type %s" % (type(x).__name__, c["ty"][1][0])
            elif name in ("BOOLEAN", "INTEGER", "DOUBLE", "DECIMAL", "VARCHAR", "BLOB", "DATE", "TIMESTAMP") and not class_ok(name, r):
                return "%s cast returned a value of class %s" % (name, type(r).__name__)
    if c["val"] is None:
        if out != ("ok", None):
            return "casting null does not give null"
        return None
    if exp is not None:
        want = py_val(exp["v"]) if exp.get("wrapped") else py_val(exp)
        if out[0] != "ok":
            return "%s: cast of %s raised %s" % (c["clause"], c["val"]["t"], out[1])
        if not equal_value(out[1], want) or (type(out[1]) is not type(want)):
            return "%s: got another value" % c["clause"]
    return None


def _norm(cl):
    return None if cl is None else cl.split(":")[0]


# --------------------------------------------------------------------------- model domain


def in_domain(c):
    """Is this (type, value) pair inside what Model/Cast.lean describes exactly?"""
    name = c["ty"][0]
    if name not in SCALARS:
        return False  # ARRAY is handled separately; other types only by the null clause
    v = py_val(c["val"])
    if v is None:
        return True
    t = type(v)
    if t is D:
        return name == "DECIMAL" and abs(v.adjusted() if v.is_finite() else 0) < 5000
    if t in (datetime.date, datetime.datetime):
        return name in ("DATE", "TIMESTAMP")
    if t is float:
        if name in ("VARCHAR", "BLOB", "DECIMAL"):
            return False  # go through repr (parameter)
        return True
    if t is str or t is bytes:
        if name == "DOUBLE":
            return False  # float(text) is a parameter
        s = v
        if t is bytes:
            try:
                s = v.decode("utf-8")
            except UnicodeDecodeError:
                return name in ("VARCHAR", "BLOB", "DECIMAL", "DATE", "TIMESTAMP") or all(b < 128 for b in v)
        if name in ("VARCHAR", "BLOB"):
            return True
        if name in ("DATE", "TIMESTAMP"):
            return text_in_domain(s)
        if name == "DECIMAL" and "snan" in s.lower():
            return False  # signalling NaNs are not distinguished by the model
        if name == "DECIMAL" and ("e" in s.lower()) and len(s) > 0:
            # keep exponents small: Emax/Emin are not modelled
            import re
            m = re.search(r"[eE]([+-]?\d+)\s*$", s)
            if m and abs(int(m.group(1))) > 3000:
                return False
        return s.isascii()
    if t is int and name == "DOUBLE":
        return abs(v) <= 2**64
    if t in (bool, int):
        return True
    return name not in ("VARCHAR", "BLOB", "BOOLEAN")


def model_ty(ty):
    return [ty[0]] + [x for x in ty[1:]]


def evaluate(ctx, cases):
    lines, slots = [], []
    for i, c in enumerate(cases):
        name = c["ty"][0]
        try:
            if name == "ARRAY":
                v = py_val(c["val"])
                if v is None or c.get("no_model"):
                    continue
                if isinstance(v, (str, bytes)):
                    import orjson
                    try:
                        elems = orjson.loads(v)
                    except Exception:
                        continue
                    if not isinstance(elems, list):
                        continue
                else:
                    elems = list(v)
                et = c["ty"][1]
                ok = all(in_domain({"ty": et, "val": tag(e)}) for e in elems) if et is not None else True
                if not ok:
                    continue
                lines.append("C07 array " + wire.line(None if et is None else ty_of(et[0]), [wire_val(e) for e in elems]))
                slots.append(i)
            elif in_domain(c):
                v = py_val(c["val"])
                w = wire_val(v) if type(v) in (bool, int, float, str, bytes, D, datetime.date, datetime.datetime, type(None)) else ["other"]
                lines.append("C07 cast " + wire.line(model_ty(c["ty"]), w))
                slots.append(i)
        except (KeyError, UnicodeEncodeError, InfraError):
            continue
    # mirror: the model's str(Decimal) and its own reader, with orso out of the picture
    rd_lines, rd_vals = [], []
    for c in cases:
        if c["val"] is not None and c["val"].get("t") == "dec":
            d = py_val(c["val"])
            try:
                w = wire_val(d)
            except KeyError:
                continue
            if d.is_finite() and abs(d.adjusted()) > 5000:
                continue
            rd_lines.append("C07 renderdec " + wire.line(w))
            rd_vals.append(d)
    for d, o in zip(rd_vals, ctx.model.batch(rd_lines)):
        if not o.startswith("ok "):
            raise InfraError("model rejected renderdec of %r: %r" % (d, o))
        txt, back = wire.dec_all(o[3:])
        if txt != str(d):
            raise InfraError("model renders Decimal %r as %r, Python as %r" % (d, txt, str(d)))
        if back is None or not same(unwire_val(back), d):
            raise InfraError("model does not read back its rendering of %r" % (d,))
        ctx.hit("decimal-rendering-mirror")
    mres = {}
    for i, o in zip(slots, ctx.model.batch(lines)):
        if not o.startswith("ok "):
            raise InfraError("model rejected case %r: %r" % (cases[i], o))
        mres[i] = wire.dec_all(o[3:])[0]
    for i, c in enumerate(cases):
        out = run_impl(c)
        ctx.case(c, True)
        ctx.hit("type:" + c["ty"][0])
        ctx.hit("clause:" + c.get("clause", "totality/class"))
        ctx.hit("outcome:" + out[0])
        clause = oracle(c, out)
        if clause is not None:
            c_min = c
            if not ctx.replaying:
                def still(c2):
                    try:
                        if c2.get("ty") != c["ty"] or ("expect" in c) != ("expect" in c2) or c2.get("expect") != c.get("expect"):
                            return False
                        return _norm(oracle(c2, run_impl(c2))) == _norm(clause)
                    except Exception:
                        return False
                if "expect" not in c:
                    c_min = shrink(c, still, budget=150)
            o2 = run_impl(c_min)
            ctx.fail(c_min, oracle(c_min, o2) or clause, impl=[o2[0], repr(o2[1])[:200]], model=mres.get(i) if c_min is c else None)
            continue
        if i in mres:
            m = mres[i]
            ctx.hit("compared-with-model")
            if m[0] == "err":
                if out[0] != "err" or (out[1] != m[1] and not (c["ty"][0] == "ARRAY" and out[0] == "err")):
                    ctx.disagree(c, [out[0], repr(out[1])[:200]], m, "cast vs Cast.parse")
            else:
                if out[0] != "ok":
                    ctx.disagree(c, [out[0], repr(out[1])[:200]], m, "cast vs Cast.parse")
                    continue
                want = [unwire_val(x) for x in m[1]] if c["ty"][0] == "ARRAY" else unwire_val(m[1])
                if not same(out[1], want):
                    ctx.disagree(c, [out[0], repr(out[1])[:200]], m, "cast vs Cast.parse")
                elif c["ty"][0] != "ARRAY" and out[1] is not None and m[2] != m[3]:
                    raise InfraError("model result class %r differs from the target's %r for %r" % (m[2], m[3], c))


# --------------------------------------------------------------------------- generators

SCALARS = ["BOOLEAN", "INTEGER", "DOUBLE", "DECIMAL", "VARCHAR", "BLOB", "DATE", "TIMESTAMP"]


def ty_of(name, rng=None, **kw):
    if name == "DECIMAL":
        return ["DECIMAL", kw.get("p"), kw.get("s")]
    if name in ("VARCHAR", "BLOB"):
        return [name, kw.get("n")]
    return [name]


def case(ty, v, clause=None, expect=None, wrap=False):
    c = {"ty": ty, "val": tag(v)}
    if clause:
        c["clause"] = clause
        c["expect"] = tag(expect)
    return c


def gen_int(rng):
    r = rng.random()
    if r < 0.3:
        return rng.choice([0, 1, -1, 10, -10, 2**31, 2**63 - 1, 2**63, 2**64, -(2**63), 10**18, 10**19, 10**100, -(10**100), 10**4299 - 1, -(10**4298)])
    if r < 0.6:
        return rng.randint(-1000, 1000)
    if r < 0.9:
        return rng.choice([-1, 1]) * rng.getrandbits(rng.choice([8, 31, 53, 64, 65, 100, 200, 1000]))
    return rng.choice([-1, 1]) * (10 ** rng.randint(100, 4200) + rng.getrandbits(64))


def gen_float(rng):
    r = rng.random()
    if r < 0.25:
        return rng.choice([0.0, -0.0, 1.0, -1.0, 0.1, 1e22, 1e23, 5e-324, 2.2250738585072014e-308, 1.7976931348623157e308, float("inf"), float("-inf"),
                           float("nan"), 1e16, 123456789.123456789, 1 / 3, 2.0**53, 9007199254740993.0, 1e-5, 1e-4, 0.3])
    if r < 0.7:
        return struct.unpack(">d", struct.pack(">Q", rng.getrandbits(64)))[0]
    if r < 0.8:
        return struct.unpack(">d", struct.pack(">Q", rng.getrandbits(52)))[0]  # subnormal
    return rng.uniform(-1e6, 1e6)


TEXT_ALPHA = "abcXYZ019 _-éß日\U0001f600\n'\"{}[],:.+"


def gen_text(rng, maxlen=12):
    n = rng.randint(0, maxlen)
    return "".join(rng.choice(TEXT_ALPHA) for _ in range(n))


def pad(rng, s):
    return rng.choice(["", " ", "\t", "  ", "\n"]) + s + rng.choice(["", " ", "\n", "\t "])


def null_cases(ctx):
    from orso.types import OrsoTypes

    for t in OrsoTypes:
        if t.name == "ARRAY":
            yield {"ty": ["ARRAY", None], "val": None, "clause": "null"}
            yield {"ty": ["ARRAY", ["INTEGER"]], "val": None, "clause": "null"}
        elif t.name in ("DECIMAL", "VARCHAR", "BLOB"):
            yield {"ty": ty_of(t.name), "val": None, "clause": "null"}
            yield {"ty": ty_of(t.name, p=5, s=2, n=3), "val": None, "clause": "null"}
        else:
            yield {"ty": [t.name], "val": None, "clause": "null"}


def bool_cases(ctx):
    from orso.types import BOOLEAN_STRINGS

    for b in (True, False):
        yield case(["BOOLEAN"], b, "identity on a typed value", b)
        for txt in (str(b), str(b).upper(), str(b).lower()):
            yield case(["BOOLEAN"], txt, "boolean rendering", b)
            yield case(["BOOLEAN"], txt.encode(), "boolean rendering", b)
    for w in ["TRUE", "ON", "YES", "1", "1.0", "T", "Y"]:  # the documented words, pinned
        yield case(["BOOLEAN"], w.lower(), "documented truthy word", True)
        yield case(["BOOLEAN"], w.encode(), "documented truthy word", True)
    for w in BOOLEAN_STRINGS:
        for f in (lambda x: x, lambda x: x.lower(), lambda x: x.title(), lambda x: x.swapcase()):
            yield case(["BOOLEAN"], f(w), "documented truthy word", True)
    for w in ["", "no", "off", "0", "false", "f", "n", " true", "true ", "yess", "2", "1.00", "01", "tr ue", "TRUE\n", "ｔｒｕｅ", "ı", "yeſ"]:
        yield case(["BOOLEAN"], w)
        yield case(["BOOLEAN"], w.encode("utf-8"))
    for v in [0, 1, 2, -1, 1.0, 0.0, 2.0, float("nan"), 10**30]:
        yield case(["BOOLEAN"], v)


def int_cases(ctx, n):
    rng = ctx.rng
    for _ in range(n):
        k = gen_int(rng)
        yield case(["INTEGER"], k, "identity on a typed value", k)
        s = str(k)
        r = rng.random()
        if r < 0.35:
            yield case(["INTEGER"], s, "integer rendering", k)
        elif r < 0.6:
            yield case(["INTEGER"], s.encode(), "integer rendering", k)
        elif r < 0.85:
            yield case(["INTEGER"], pad(rng, s), "integer rendering (padded)", k)
        else:
            yield case(["INTEGER"], pad(rng, s).encode(), "integer rendering (padded)", k)
    for t in ["", " ", "+5", "-0", "1_000", "1__0", "_1", "1_", "0x10", "1.5", "1e3", "٣", "１２", "- 1", "--1", "1 2", "\x1c1", "1\x0b", "9" * 4300, "9" * 4301, "-" + "9" * 4300, "0" * 5000]:
        yield case(["INTEGER"], t)
        try:
            yield case(["INTEGER"], t.encode("utf-8"))
        except UnicodeEncodeError:
            pass
    for v in [True, False, 1.9, -1.9, float("nan"), float("inf"), 1e300, -0.0]:
        yield case(["INTEGER"], v)
    for o in ("object", "complex", "dict", "set", "timedelta"):
        for t in SCALARS:
            yield {"ty": ty_of(t), "val": {"t": "obj", "v": o}}


def double_cases(ctx, n):
    rng = ctx.rng
    for i in range(n):
        f = gen_float(rng)
        yield case(["DOUBLE"], f, "identity on a typed value", f)
        r = rng.random()
        s = repr(f)
        if r < 0.4:
            yield case(["DOUBLE"], s, "float rendering (repr)", f)
        elif r < 0.7:
            yield case(["DOUBLE"], s.encode(), "float rendering (repr)", f)
        else:
            yield case(["DOUBLE"], pad(rng, s), "float rendering (padded repr)", f)
    for v in [0, 1, -1, 2**53 + 1, 2**64, 10**400, True, False, "1e400", "abc", "", "1_0.5", "0x1p3", "infinity", "-Inf", "nan", "NAN", b"\xff"]:
        yield case(["DOUBLE"], v)


def float_repr_sample(ctx, n):
    """The parameter float(repr(f)) == f, sampled directly on the interpreter (not through orso)."""
    rng = ctx.rng
    bad = 0
    for _ in range(n):
        bits = rng.getrandbits(64) if rng.random() < 0.8 else rng.getrandbits(52)
        f = struct.unpack(">d", struct.pack(">Q", bits))[0]
        g = float(repr(f))
        if not (struct.pack(">d", g) == struct.pack(">d", f) or (f != f and g != g)):
            bad += 1
    if bad:
        raise InfraError("parameter violated: float(repr(f)) != f on %d sampled doubles" % bad)
    ctx.hit("float-repr-parameter-samples", n)


def text_cases(ctx, n):
    rng = ctx.rng
    for _ in range(n):
        s = gen_text(rng, rng.choice([0, 3, 12, 40]))
        b = s.encode("utf-8") if rng.random() < 0.7 else bytes(rng.getrandbits(8) for _ in range(rng.randint(0, 12)))
        k = rng.choice([None, None, 0, 1, 2, 3, 5, 8, 13, 40])
        lim = (lambda x: x) if not k else (lambda x: x[:k])
        yield case(["VARCHAR", k], s, "text: longest prefix within the length", lim(s))
        yield case(["VARCHAR", k], s.encode("utf-8"), "text: longest prefix within the length", lim(s))
        yield case(["BLOB", k], b, "binary: longest prefix within the length", lim(b))
        yield case(["BLOB", k], s, "binary: longest prefix within the length", lim(s.encode("utf-8")))
        if rng.random() < 0.2:
            yield case(["VARCHAR", k], b)
    for v in [0, -5, 10**30, True, False]:
        yield case(["VARCHAR", None], v)
        yield case(["VARCHAR", 2], v)
        yield case(["BLOB", None], v)
        yield case(["BLOB", 1], v)


def temporal_cases(ctx, n):
    rng = ctx.rng
    for _ in range(n):
        y, m, d, H, M, S, us = rand_dt(rng)
        dd = datetime.date(y, m, d)
        dt = datetime.datetime(y, m, d, H, M, S, us)
        dt0 = dt.replace(microsecond=0)
        yield case(["DATE"], dd, "identity on a typed value", dd)
        yield case(["TIMESTAMP"], dt, "identity on a typed value (whole seconds)", dt0)
        iso = dd.isoformat()
        yield case(["DATE"], iso if rng.random() < 0.5 else iso.encode(), "date rendering", dd)
        sep = rng.choice("T ")
        t = dt.isoformat(sep=sep, timespec=rng.choice(["seconds", "milliseconds", "microseconds"]))
        yield case(["TIMESTAMP"], t if rng.random() < 0.5 else t.encode(), "timestamp rendering", dt0)
        yield case(["DATE"], dt)
        yield case(["TIMESTAMP"], dd)
        yield case(["DATE"], t)
    for v in ["", "x", "2023-02-29", 0, -1, 10**30, 1.5, float("nan"), True, b"\xff" * 10, "2023-04-18T12:34-05:00"]:
        yield case(["DATE"], v)
        yield case(["TIMESTAMP"], v)


def gen_decimal_fitting(rng, p, s):
    """A decimal with at most p digits once scaled by 10**s (and possibly trailing zeros / exponent form)."""
    nd = rng.randint(1, p)
    n = rng.choice([0, 10**nd - 1, 10 ** (nd - 1), rng.randrange(10**nd)])
    d = D((rng.randint(0, 1), tuple(int(ch) for ch in str(n)), -s))
    r = rng.random()
    if r < 0.3:
        d = d.normalize(decimal.Context(prec=60))
    elif r < 0.4 and n % 10 == 0:
        sign, digits, e = d.as_tuple()
        d = D((sign, digits + (0, 0), e - 2))
    return d


def decimal_cases(ctx, grid, per):
    rng = ctx.rng
    for (p, s) in grid:
        ty = ["DECIMAL", p, s]
        for _ in range(per):
            if p >= 1:
                d = gen_decimal_fitting(rng, p, s)
                if fits(d, p, s) and s <= 28:
                    yield case(ty, d, "decimal: identity on a typed value", d)
                    r = rng.random()
                    txt = str(d)
                    if r < 0.4:
                        yield case(ty, txt, "decimal: exact when it fits", d)
                    elif r < 0.6:
                        yield case(ty, txt.encode(), "decimal: exact when it fits", d)
                    elif r < 0.8:
                        yield case(ty, pad(rng, txt), "decimal: exact when it fits (padded)", d)
                    else:
                        yield case(ty, format(d, "f"), "decimal: exact when it fits", d)
                    if d == d.to_integral_value() and abs(d) < 10**30:
                        yield case(ty, int(d), "decimal: exact when it fits", d)
                else:
                    yield case(ty, d)
                    yield case(ty, str(d))
            # not fitting / malformed: totality + class only
            x = D(rng.randrange(10**rng.randint(1, 45))).scaleb(-rng.randint(0, 45), decimal.Context(prec=99))
            yield case(ty, x)
            yield case(ty, str(x))
    for ty in (["DECIMAL", None, None], ["DECIMAL", 5, 2], ["DECIMAL", 38, 38], ["DECIMAL", 1, 0], ["DECIMAL", 0, 0]):
        for v in ["NaN", "Infinity", "-Infinity", "sNaN", "inf", "abc", "", "1_0", "1e", "e5", ".", "5.", ".5", "+.5e-3", "1E+2", "1e-30", "--1", "0", "-0", "00.10",
                  "999.995", "0.005", "0.015", "0.025", "123456", "１２", "1 2", True, False, 0, 15, -15, 10**40, b"1.5", b"\xff", 1.5, 0.1, float("nan"), float("inf"), 1e22]:
            yield case(ty, v)
        for v in [D("NaN"), D("Infinity"), D("-Infinity"), D("sNaN"), D("-0"), D("0E+5"), D("1.5"), D("1E+30"), D("123456789012345678901234567890123456789012")]:
            yield case(ty, v)


def array_cases(ctx, n):
    import orjson

    rng = ctx.rng

    def elems(et):
        k = rng.choice([0, 1, 2, 3, 5, 9])
        out = []
        for _ in range(k):
            if rng.random() < 0.25:
                out.append((None, None))
                continue
            if et == "INTEGER":
                v = rng.choice([0, -1, 2**63 - 1, -(2**63), 2**64 - 1, rng.randint(-10**6, 10**6), rng.getrandbits(64)])
                out.append((v, v))
            elif et == "DOUBLE":
                f = gen_float(rng)
                if f != f or f in (float("inf"), float("-inf")):
                    f = 0.5
                out.append((f, f))
            elif et == "BOOLEAN":
                b = rng.random() < 0.5
                out.append((b, b))
            elif et == "VARCHAR":
                s = gen_text(rng)
                out.append((s, s))
            elif et == "BLOB":
                s = gen_text(rng)
                out.append((s, s.encode("utf-8")))
            elif et == "DATE":
                y, m, d = rand_dt(rng)[:3]
                out.append((datetime.date(y, m, d).isoformat(), datetime.date(y, m, d)))
            elif et == "TIMESTAMP":
                f = rand_dt(rng)
                dt = datetime.datetime(*f)
                out.append((dt.isoformat(), dt.replace(microsecond=0)))
        return out

    for _ in range(n):
        et = rng.choice(["INTEGER", "DOUBLE", "BOOLEAN", "VARCHAR", "BLOB", "DATE", "TIMESTAMP"])
        es = elems(et)
        js = orjson.dumps([e[0] for e in es])
        want = [e[1] for e in es]
        r = rng.random()
        src = js if r < 0.4 else js.decode("utf-8")
        yield {"ty": ["ARRAY", [et]], "val": tag(src), "clause": "JSON array element-wise, nulls kept", "expect": tag(want)}
        if r < 0.3:
            yield {"ty": ["ARRAY", [et]], "val": tag([e[1] for e in es]), "clause": "array of typed values: identity", "expect": tag(want)}
            yield {"ty": ["ARRAY", [et]], "val": tag(tuple(e[0] for e in es)), "clause": "array element-wise, nulls kept", "expect": tag(want)}
        if r > 0.9:
            yield {"ty": ["ARRAY", None], "val": tag(tuple(e[0] for e in es))}
    for src in ["5", "null", '{"a":1}', '"abc"', "x", "", "[", "[[1],[2]]", "[1,2", "true", "[1.5]", '["x"]', b"\xff"]:
        for et in (None, ["INTEGER"], ["VARCHAR"], ["DOUBLE"]):
            yield {"ty": ["ARRAY", et], "val": tag(src), "no_model": True}
    # integers beyond orjson's 64-bit range (json.dumps renders them; orjson.loads reads them as doubles)
    for big in [2**64, 2**64 + 1, -(2**63) - 1, 10**30 + 7]:
        yield {"ty": ["ARRAY", ["INTEGER"]], "val": tag("[%d]" % big), "clause": "JSON array element-wise, nulls kept", "expect": tag([big]), "no_model": True}


def default_cases(ctx):
    """FlatColumn(default=...) goes through the same cast (truthy defaults only)."""
    from orso.schema import FlatColumn

    for tyname, v, ty in [("INTEGER", "12", ["INTEGER"]), ("DOUBLE", "1.5", ["DOUBLE"]), ("BOOLEAN", "yes", ["BOOLEAN"]), ("VARCHAR", "abc", ["VARCHAR", None]),
                          ("BLOB", "abc", ["BLOB", None]), ("DATE", "2023-01-02", ["DATE"]), ("TIMESTAMP", "2023-01-02T03:04:05", ["TIMESTAMP"]),
                          ("DECIMAL", D("1.5"), ["DECIMAL", None, None]), ("DECIMAL", "1.5", ["DECIMAL", None, None])]:
        try:
            col = FlatColumn(name="c", type=tyname, default=v)
            got = ("ok", col.default)
        except Exception as e:
            got = ("err", type(e).__name__)
        want = run_impl({"ty": ty, "val": tag(v)})
        ctx.evaluations += 1
        ctx.hit("column-default")
        if got[0] != want[0] or (got[0] == "ok" and not same(got[1], want[1])):
            ctx.fail({"ty": ty, "val": tag(v), "default": True}, "column default is not the cast of the given default", impl=[got[0], repr(got[1])], model=None)


def batches(ctx, it, size=3000):
    buf = []
    for c in it:
        buf.append(c)
        if len(buf) >= size:
            evaluate(ctx, buf)
            buf = []
            if ctx.time_left() < 5:
                ctx.note("stopped_early", "time budget")
                return
    evaluate(ctx, buf)


def grid(ctx):
    rng = ctx.rng
    full = [(p, s) for p in range(0, 39) for s in range(0, p + 1)]
    if ctx.tier == "thorough":
        return full
    edge = [(0, 0), (1, 0), (1, 1), (2, 2), (5, 2), (28, 28), (29, 28), (29, 29), (30, 29), (38, 0), (38, 21), (38, 28), (38, 29), (38, 38), (10, 3), (4, 3)]
    return edge + rng.sample(full, 60)


def run(ctx):
    ctx.note("rule", "one case = one (type, parameters, input value) triple given to OrsoTypes.<T>.parse; distinct by canonical JSON; "
             "all counted cases are non-trivial (null cases are 30 of them)")
    ctx.note("assumptions", [
        "PARAMETER float(repr(f)) == f (CPython shortest repr / correctly rounded float()): not proved; sampled on >= 10^5 random bit patterns per run "
        "incl. subnormals, and exercised through DOUBLE.parse(repr(f)) on every generated float",
        "orjson.loads / orjson.dumps, str.upper / str.isdigit / str.strip outside ASCII, and the decimal context's Emax/Emin are parameters of the model; "
        "inputs outside the modelled domain are checked by the oracle only",
        "integers are rendered with str(): CPython limits int<->str to 4300 digits, which bounds 'integers of any size' in the harness (the theorem has the same bound)",
    ])
    ctx.exhaustive = False
    float_repr_sample(ctx, ctx.scale(100000, 1000000))
    default_cases(ctx)
    batches(ctx, null_cases(ctx))
    batches(ctx, bool_cases(ctx))
    batches(ctx, int_cases(ctx, ctx.scale(1500, 20000)))
    batches(ctx, double_cases(ctx, ctx.scale(3000, 40000)))
    batches(ctx, text_cases(ctx, ctx.scale(800, 10000)))
    batches(ctx, temporal_cases(ctx, ctx.scale(400, 5000)))
    batches(ctx, decimal_cases(ctx, grid(ctx), ctx.scale(6, 12)))
    batches(ctx, array_cases(ctx, ctx.scale(800, 10000)))
    ctx.note("exhaustive_scope", "decimal (precision, scale) grid: %s" % ("all 780 pairs 0<=s<=p<=38" if ctx.tier == "thorough" else "16 boundary pairs + 60 sampled"))


def intensify(ctx):
    batches(ctx, decimal_cases(ctx, [(p, s) for p in range(0, 39) for s in range(0, p + 1)], 4))
    batches(ctx, int_cases(ctx, 5000))
    batches(ctx, text_cases(ctx, 3000))
    batches(ctx, array_cases(ctx, 3000))


def replay(ctx, case):
    if case.get("default"):
        default_cases(ctx)
        return
    evaluate(ctx, [case])
