"""C07 — Casting to a column type is exact on canonical renderings.

oracle: the statement on OrsoTypes.<T>.parse's own outputs (null -> null, identity on typed values,
canonical text/bytes rendering -> value, longest prefix, arrays element-wise with nulls kept, decimals
exact when they fit, result class);  correspondence: every in-domain (type, value) pair vs
Model/Cast.lean;  parameter: float(repr(f)) == f, sampled >= 10^5 doubles per run.

Round 2: every case is cast twice in one process (mutable results edited in place in between, order shuffled) and
explicit sequences of casts are run (`sequence_cases`); a failure that depends on earlier casts is reduced, in fresh
interpreters (harness/c07_worker.py), to the shortest reproducing sequence found: replay case {"seq": [step, ...]}.
"""
import datetime
import decimal
import json
import os
import random
import struct
import subprocess
import sys
import time

from .. import wire
from ..core import InfraError, shrink
from .c08 import rand_dt, text_in_domain

D = decimal.Decimal


def _k_array_bigint(case, failure):
    """ARRAY<INTEGER> from JSON text holding an integer outside orjson's 64-bit range, wrong element value."""
    import re

    cl = str(failure.get("clause", ""))
    if case.get("ty") != ["ARRAY", ["INTEGER"]] or not (cl.startswith("JSON array element-wise") or cl.startswith("ARRAY cast differs from the element type's cast")):
        return False
    v = py_val(case["val"])
    if isinstance(v, bytes):
        v = v.decode("utf-8")
    if not isinstance(v, str):
        return False
    return any(not (-(2**63) <= int(m) <= 2**64 - 1) for m in re.findall(r"-?\d+", v))


KNOWN_PREDICATES = {"array_int_beyond_64bit": _k_array_bigint}

# --------------------------------------------------------------------------- case <-> python


def py_val(j):
    """Tagged JSON value -> Python value."""
    if j is None:
        return None
    t, v = j["t"], j.get("v")
    if t in ("bool", "int", "float", "str", "bytes"):
        return v
    if t == "dec":
        return D(v)
    if t == "date":
        return datetime.date(*v)
    if t == "datetime":
        if j.get("tz") is not None:
            # an aware date-time (UTC offset in minutes): a TIMESTAMP value like any other; outside the model (oracle only)
            return datetime.datetime(*v, tzinfo=datetime.timezone(datetime.timedelta(minutes=j["tz"])))
        return datetime.datetime(*v)
    if t == "list":
        return [py_val(x) for x in v]
    if t == "tuple":
        return tuple(py_val(x) for x in v)
    if t == "ext":
        return ext_val(j["k"], v)
    if t == "obj":
        return {"object": object(), "complex": 1j, "dict": {"a": 1}, "set": {1, 2}, "timedelta": datetime.timedelta(1), "time": datetime.time(1, 2)}[v]
    raise InfraError("bad value tag %r" % (j,))


def ext_val(kind, v):
    """objects of classes next to the canonical ones: other binary classes, numpy scalars (class clause only)"""
    import numpy

    if kind == "bytearray":
        return bytearray(v)
    if kind == "memoryview":
        return memoryview(bytes(v))
    if kind == "np.int64":
        return numpy.int64(v)
    if kind == "np.uint64":
        return numpy.uint64(v)
    if kind == "np.float64":
        return numpy.float64(v)
    if kind == "np.float32":
        return numpy.float32(v)
    if kind == "np.bool_":
        return numpy.bool_(v)
    if kind == "np.str_":
        return numpy.str_(v)
    if kind == "np.bytes_":
        return numpy.bytes_(v)
    if kind == "np.datetime64":
        return numpy.datetime64(v)
    raise InfraError("bad ext kind %r" % (kind,))


def tag(v):
    if v is None:
        return None
    t = type(v)
    if t in (bool, int, float, str, bytes):
        return {"t": t.__name__, "v": v}
    if t is D:
        return {"t": "dec", "v": str(v)}
    if t is datetime.datetime:
        j = {"t": "datetime", "v": [v.year, v.month, v.day, v.hour, v.minute, v.second, v.microsecond]}
        if v.tzinfo is not None:
            j["tz"] = int(v.utcoffset().total_seconds() // 60)
        return j
    if t is datetime.date:
        return {"t": "date", "v": [v.year, v.month, v.day]}
    if t is list:
        return {"t": "list", "v": [tag(x) for x in v]}
    if t is tuple:
        return {"t": "tuple", "v": [tag(x) for x in v]}
    raise InfraError("cannot tag %r" % (v,))


def wire_val(v):
    """Python value -> model `Val` in wire form (None = null); raises KeyError outside the model's universe."""
    if v is None:
        return None
    t = type(v)
    if t is bool:
        return ["bool", v]
    if t is int:
        return ["int", v]
    if t is float:
        return ["float", v]
    if t is str:
        v.encode("utf-8")
        return ["str", v]
    if t is bytes:
        return ["bytes", v]
    if t is D:
        s, digits, e = v.as_tuple()
        if e == "F":
            return ["decinf", bool(s)]
        if e in ("n", "N"):
            if e == "N" or digits:
                raise KeyError("sNaN / payload")
            return ["decnan"]
        return ["dec", bool(s), int("".join(map(str, digits)) or "0"), e]
    if t is datetime.datetime:
        if v.tzinfo is not None:
            raise KeyError("aware")
        return ["datetime", [v.year, v.month, v.day, v.hour, v.minute, v.second, v.microsecond]]
    if t is datetime.date:
        return ["date", v.year, v.month, v.day]
    raise KeyError(t.__name__)


def unwire_val(w):
    if w is None:
        return None
    k = w[0]
    if k in ("bool", "int", "float", "str", "bytes"):
        return w[1]
    if k == "dec":
        return D((1 if w[1] else 0, tuple(int(c) for c in str(w[2])), w[3]))
    if k == "decinf":
        return D("-Infinity" if w[1] else "Infinity")
    if k == "decnan":
        return D("NaN")
    if k == "date":
        return datetime.date(*w[1:])
    if k == "datetime":
        return datetime.datetime(*w[1])
    raise InfraError("bad model value %r" % (w,))


def same(a, b):
    """Equal value *and* representation (floats by bits, decimals by sign/digits/exponent)."""
    if type(a) is not type(b):
        return False
    if isinstance(a, float):
        return struct.pack(">d", a) == struct.pack(">d", b)
    if isinstance(a, D):
        return a.as_tuple() == b.as_tuple()
    if isinstance(a, list):
        return len(a) == len(b) and all(same(x, y) for x, y in zip(a, b))
    return a == b


def equal_value(a, b):
    """The statement's 'equal value': Python equality, NaN equal to NaN."""
    if isinstance(a, float) and isinstance(b, float) and a != a and b != b:
        return True
    if isinstance(a, D) and isinstance(b, D) and a.is_nan() and b.is_nan():
        return True
    if isinstance(a, list) and isinstance(b, list):
        return len(a) == len(b) and all(equal_value(x, y) for x, y in zip(a, b))
    if type(a) is bool or type(b) is bool:
        return type(a) is type(b) and a == b
    return a == b


def orso_type(name):
    from orso.types import OrsoTypes

    return OrsoTypes[name]


def kwargs_of(ty):
    n = ty[0]
    kw = {}
    if n == "DECIMAL":
        if ty[1] is not None:
            kw["precision"] = ty[1]
        if ty[2] is not None:
            kw["scale"] = ty[2]
    elif n in ("VARCHAR", "BLOB") and ty[1] is not None:
        kw["length"] = ty[1]
    return kw


class _IntSub(int):
    """an int subclass (what enum.IntEnum members and many library 'size' objects are)"""


class _Index:
    """not a number class at all, but usable wherever an integer index is (`__index__`): what a slice accepts"""

    def __init__(self, k):
        self.k = k

    def __index__(self):
        return self.k

    def __int__(self):
        return self.k

    def __bool__(self):
        return self.k != 0  # like every number: zero is false


# kinds of number a numeric PARAMETER of a cast (length / precision / scale) may be given as.
# INDEX_KINDS: whole numbers in the sense of a slice (`__index__`): the unchanged tree honours them as the maximum length.
# The other kinds are whole numbers only through int(): the unchanged tree's length slice raises TypeError on them
# (allowed: "or raises"), its DECIMAL cast reads precision and scale through int() and honours every kind.
INDEX_KINDS = ("np.int64", "np.int32", "np.int8", "np.int16", "np.uint8", "np.uint16", "np.uint32", "np.uint64", "np.intp", "bool", "intsub", "index")
INT_ONLY_KINDS = ("float", "np.float64", "np.float32", "dec", "fraction", "np.bool_")
# a 0-d integer array has `__index__` and `__int__` too, but it is a container (unhashable): honoured by the unchanged tree, yet a cast that
# raises on it is within the statement ("or raises") — judged as "the value the whole number demands, or raises", not compared with the model
LOOSE_KINDS = ("np.array0d",)
NUM_KEYS = ("length", "precision", "scale")


def num_as(kind, k):
    """The whole number `k` as an object of another kind of number."""
    import numpy

    if kind == "int":
        return int(k)
    if kind in ("bool", "np.bool_"):
        if k not in (0, 1):
            raise InfraError("%r is not a bool" % (k,))
        return bool(k) if kind == "bool" else numpy.bool_(k)
    if kind == "intsub":
        return _IntSub(k)
    if kind == "index":
        return _Index(k)
    if kind == "np.array0d":
        return numpy.array(k)
    if kind.startswith("np."):
        r = getattr(numpy, kind[3:])(k)
        if int(r) != k:
            raise InfraError("%r does not fit %s" % (k, kind))
        return r
    if kind == "float":
        r = float(k)
        if int(r) != k:
            raise InfraError("%r is not a float" % (k,))
        return r
    if kind == "dec":
        return D(k)
    if kind == "fraction":
        import fractions

        return fractions.Fraction(k)
    raise InfraError("bad number kind %r" % (kind,))


def num_kind_fits(kind, k):
    try:
        num_as(kind, k)
        return True
    except (InfraError, OverflowError, ValueError, TypeError):
        return False


def numkind_modelled(c):
    """Does the unchanged tree read every re-typed parameter of this case as the whole number it is?
    (then the case means exactly what the same case with Python ints means: same expected value, same model answer)"""
    nk = c.get("numkind") or {}
    for key, kind in nk.items():
        if kind in LOOSE_KINDS or (key == "length" and kind not in INDEX_KINDS and kind != "int"):
            return False
    return True


def class_ok(name, r):
    from orso.types import ORSO_TO_PYTHON_MAP

    cls = ORSO_TO_PYTHON_MAP[orso_type(name)]
    if not isinstance(r, cls):
        return False
    if cls is int and type(r) is bool:
        return False
    if cls is datetime.date and isinstance(r, datetime.datetime):
        return False
    return True


AMBIENT_KEYS = ("prec", "rounding", "Emin", "Emax", "capitals", "clamp", "traps")


def ambient_context(a):
    """The calling thread's decimal context described by the case field `ambient`
    ({"prec": 6, "rounding": "ROUND_DOWN", "Emin": -5, "traps": ["Inexact"], ...}; fields left out keep the stock value)."""
    k = decimal.Context(prec=28, rounding=decimal.ROUND_HALF_EVEN, Emin=-999999, Emax=999999, capitals=1, clamp=0, flags=[],
                        traps=[decimal.InvalidOperation, decimal.DivisionByZero, decimal.Overflow])
    for key in ("prec", "Emin", "Emax", "capitals", "clamp"):
        if key in a:
            setattr(k, key, int(a[key]))
    if "rounding" in a:
        k.rounding = getattr(decimal, a["rounding"])
    if "traps" in a:
        for name in a["traps"]:
            k.traps[getattr(decimal, name)] = True
    return k


def run_impl(c):
    """The cast of case `c`; with a field `ambient`, made while the calling thread's decimal context is that one
    (the statement gives the value of a cast from its input and options: the caller's context is neither)."""
    if c.get("ambient"):
        with decimal.localcontext(ambient_context(c["ambient"])):
            return run_impl_plain(c)
    return run_impl_plain(c)


def run_impl_plain(c):
    if "column" in c:
        return run_column(c)
    T = orso_type(c["ty"][0])
    v = py_val(c["val"])
    kw = kwargs_of(c["ty"])
    for key, kind in (c.get("numkind") or {}).items():
        # the same whole number, given as another kind of number (numpy integer scalar, bool, int subclass, ...)
        if key not in NUM_KEYS:
            raise InfraError("bad numkind key %r" % (key,))
        if kw.get(key) is not None:
            kw[key] = num_as(kind, kw[key])
    if c["ty"][0] == "ARRAY":
        kw = {}
        if c["ty"][1] is not None:
            kw["element_type"] = orso_type(c["ty"][1][0])
    try:
        r = T.parse(v, **kw)
    except Exception as e:  # the statement allows a cast to raise
        return ("err", type(e).__name__)
    return ("ok", r)


def run_column(c):
    """Second call site: FlatColumn(default=...) casts the default through OrsoTypes.parse (schema.py:203-210)."""
    from orso.schema import FlatColumn

    try:
        col = FlatColumn(name="c", type=c["column"], default=py_val(c["val"]))
    except Exception as e:
        return ("err", type(e).__name__)
    return ("ok", col.default)


run_step = run_impl


def mutate_result(r):
    """What a caller that owns the result may do with it: edit it in place (only mutable results change)."""
    if isinstance(r, list):
        # drop the nulls, reverse, repeat an element: elements keep their classes, the list always changes
        keep = [x for x in r if x is not None]
        r[:] = (keep[::-1] + [keep[0]]) if keep else (r + [None])
        return True
    if isinstance(r, dict):
        r.clear()
        r["<edited by the caller>"] = 1
        return True
    if isinstance(r, bytearray):
        r.reverse()
        r.extend(b"<edited>")
        return True
    return False


def after_step(step, out):
    """`"then": "edit"`: the caller edits the result it received before the next cast of the sequence."""
    if step.get("then") == "edit" and out[0] == "ok":
        return mutate_result(out[1])
    return False


# --------------------------------------------------------------------------- oracle


def fits(d, p, s):
    if not d.is_finite() or p < 1:
        return False
    sign, digits, e = d.as_tuple()
    c = int("".join(map(str, digits)) or "0")
    sh = e + s
    if sh >= 0:
        n = c * 10**sh
    else:
        if c % 10**(-sh):
            return False
        n = c // 10**(-sh)
    return len(str(n)) <= p


def oracle(c, out):
    name = c["ty"][0]
    exp = c.get("expect")  # tagged expected value demanded by the statement, or absent
    if out[0] == "ok":
        r = out[1]
        if r is not None:
            if name == "ARRAY":
                if type(r) is not list:
                    return "ARRAY cast returned a %s, not a list" % type(r).__name__
                if c["ty"][1] is not None:
                    for x in r:
                        if x is not None and not class_ok(c["ty"][1][0], x):
                            return "ARRAY element of class %s for element type %s" % (type(x).__name__, c["ty"][1][0])
            elif name in ("BOOLEAN", "INTEGER", "DOUBLE", "DECIMAL", "VARCHAR", "BLOB", "DATE", "TIMESTAMP") and not class_ok(name, r):
                return "%s cast returned a value of class %s" % (name, type(r).__name__)
    if c["val"] is None:
        if out != ("ok", None):
            return "casting null does not give null"
        return None
    if exp is not None:
        want = py_val(exp["v"]) if exp.get("wrapped") else py_val(exp)
        if out[0] != "ok":
            if c.get("may_raise"):
                return None  # "... or raises": a parameter the unchanged tree does not take as a whole number
            return "%s: cast of %s raised %s" % (c["clause"], c["val"]["t"], out[1])
        if not equal_value(out[1], want) or (type(out[1]) is not type(want)):
            return "%s: got another value" % c["clause"]
    if name == "ARRAY" and c["ty"][1] is not None and "column" not in c:
        return elementwise(c, out)
    return None


def elementwise(c, out):
    """`element-wise to the element type`, on the implementation's own outputs: the array cast is the list of the
    element type's casts of the (JSON-decoded) elements, and raises when one of them raises."""
    v = py_val(c["val"])
    agreed = True
    if isinstance(v, (str, bytes)):
        # the JSON values the text denotes, read exactly (Python's json: integers of any size; NaN / Infinity literals are
        # not JSON).  No opinion on text that is not JSON.  `agreed`: orjson reads the same elements (it reads integers
        # beyond 64 bits as doubles and rejects numbers that overflow a double) — only then is a raising cast judged.
        import orjson

        def reject(name):
            raise ValueError(name)

        try:
            elems = json.loads(v.decode("utf-8") if isinstance(v, bytes) else v, parse_constant=reject)
        except Exception:
            return None
        if not isinstance(elems, list):
            return None
        try:
            agreed = strict_same(orjson.loads(v), elems)
        except Exception:
            agreed = False
    elif isinstance(v, (list, tuple)):
        elems = list(v)
    else:
        return None
    per = []
    for e in elems:
        try:
            per.append(run_impl({"ty": ty_of(c["ty"][1][0]), "val": tag(e)}))
        except InfraError:
            return None
    if any(p_[0] == "err" for p_ in per):
        return None if out[0] == "err" else "ARRAY cast returns although the cast of an element raises"
    if out[0] != "ok":
        return ("ARRAY cast raises %s although every element casts" % out[1]) if agreed else None
    if not same(out[1], [p_[1] for p_ in per]):
        return "ARRAY cast differs from the element type's cast of each element"
    return None


def _norm(cl):
    return None if cl is None else cl.split(":")[0]


# --------------------------------------------------------------------------- model domain


def in_domain(c):
    """Is this (type, value) pair inside what Model/Cast.lean describes exactly?"""
    name = c["ty"][0]
    if name not in SCALARS:
        return False  # ARRAY is handled separately; other types only by the null clause
    if c["val"] is not None and c["val"].get("t") == "ext":
        return False  # classes next to the canonical ones: oracle (class / equality clauses) only
    if c.get("numkind") and not numkind_modelled(c):
        return False  # a length the slice does not accept (float, Decimal): oracle only ("the prefix, or raises")
    v = py_val(c["val"])
    if v is None:
        return True
    t = type(v)
    if t is D:
        return name == "DECIMAL" and abs(v.adjusted() if v.is_finite() else 0) < 5000
    if t in (datetime.date, datetime.datetime):
        return name in ("DATE", "TIMESTAMP")
    if t is float:
        if name in ("VARCHAR", "BLOB", "DECIMAL"):
            return False  # go through repr (parameter)
        return True
    if t is str or t is bytes:
        if name == "DOUBLE":
            return False  # float(text) is a parameter
        s = v
        if t is bytes:
            try:
                s = v.decode("utf-8")
            except UnicodeDecodeError:
                return name in ("VARCHAR", "BLOB", "DECIMAL", "DATE", "TIMESTAMP") or all(b < 128 for b in v)
        if name in ("VARCHAR", "BLOB"):
            return True
        if name in ("DATE", "TIMESTAMP"):
            return text_in_domain(s)
        if name == "DECIMAL" and "snan" in s.lower():
            return False  # signalling NaNs are not distinguished by the model
        if name == "DECIMAL" and ("e" in s.lower()) and len(s) > 0:
            # keep exponents small: Emax/Emin are not modelled
            import re
            m = re.search(r"[eE]([+-]?\d+)\s*$", s)
            if m and abs(int(m.group(1))) > 3000:
                return False
        return s.isascii()
    if t is int and name == "DOUBLE":
        return abs(v) <= 2**64
    if t in (bool, int):
        return True
    return name not in ("VARCHAR", "BLOB", "BOOLEAN")


def model_ty(ty):
    return [ty[0]] + [x for x in ty[1:]]


def model_results(ctx, cases):
    """Model verdict for every case inside the model's domain ({index: decoded driver answer}); also the
    decimal rendering mirror (model vs Python, orso out of the picture)."""
    lines, slots = [], []
    for i, c in enumerate(cases):
        name = c["ty"][0]
        try:
            if name == "ARRAY":
                v = py_val(c["val"])
                if v is None or c.get("no_model"):
                    continue
                et = c["ty"][1]
                if isinstance(v, (str, bytes)):
                    # the model reads the JSON text itself (Model/CastJson.lean); orjson only decides here whether the
                    # *elements* are inside the domain of the element type's model
                    import orjson
                    try:
                        elems = orjson.loads(v)
                    except Exception:
                        elems = None  # malformed: the model must reject it too
                    if isinstance(elems, str):
                        elems = list(elems)
                    if isinstance(elems, list) and et is not None and not all(in_domain({"ty": et, "val": tag(e)}) for e in elems):
                        continue
                    if isinstance(elems, list) and et is None and any(isinstance(e, (list, dict)) for e in elems):
                        continue
                    lines.append("C07 arraytext " + wire.line(None if et is None else ty_of(et[0]), wire_val(v), float_table(v)))
                    slots.append(i)
                    continue
                elems = list(v)
                ok = all(in_domain({"ty": et, "val": tag(e)}) for e in elems) if et is not None else True
                if not ok:
                    continue
                lines.append("C07 array " + wire.line(None if et is None else ty_of(et[0]), [wire_val(e) for e in elems]))
                slots.append(i)
            elif in_domain(c):
                v = py_val(c["val"])
                w = wire_val(v) if type(v) in (bool, int, float, str, bytes, D, datetime.date, datetime.datetime, type(None)) else ["other"]
                lines.append("C07 cast " + wire.line(model_ty(c["ty"]), w))
                slots.append(i)
        except (KeyError, UnicodeEncodeError, InfraError):
            continue
    # mirror: the model's str(Decimal) and its own reader, with orso out of the picture
    rd_lines, rd_vals = [], []
    for c in cases:
        if c["val"] is not None and c["val"].get("t") == "dec":
            d = py_val(c["val"])
            try:
                w = wire_val(d)
            except KeyError:
                continue
            if d.is_finite() and abs(d.adjusted()) > 5000:
                continue
            rd_lines.append("C07 renderdec " + wire.line(w))
            rd_vals.append(d)
    for d, o in zip(rd_vals, ctx.model.batch(rd_lines)):
        if not o.startswith("ok "):
            raise InfraError("model rejected renderdec of %r: %r" % (d, o))
        txt, back = wire.dec_all(o[3:])
        if txt != str(d):
            raise InfraError("model renders Decimal %r as %r, Python as %r" % (d, txt, str(d)))
        if back is None or not same(unwire_val(back), d):
            raise InfraError("model does not read back its rendering of %r" % (d,))
        ctx.hit("decimal-rendering-mirror")
    mres = {}
    for i, o in zip(slots, ctx.model.batch(lines)):
        if not o.startswith("ok "):
            raise InfraError("model rejected case %r: %r" % (cases[i], o))
        r = wire.dec_all(o[3:])[0]
        if r[0] == "unsupported":
            ctx.hit("json-text-outside-the-modelled-subset")
            continue
        mres[i] = r
    return mres


NUM_RUN = None


def float_table(v, limit=400):
    """The parameter `fot` for one JSON text: float(token) for every run of number characters in it."""
    import re

    global NUM_RUN
    if NUM_RUN is None:
        NUM_RUN = re.compile(r"[-+0-9.eE]+")
    if isinstance(v, bytes):
        try:
            v = v.decode("utf-8")
        except UnicodeDecodeError:
            return []
    out, seen = [], set()
    for tok in NUM_RUN.findall(v):
        if tok in seen or len(out) >= limit:
            continue
        seen.add(tok)
        try:
            out.append([tok, float(tok)])
        except (ValueError, OverflowError):
            pass
    return out


def judge(c, out, m):
    """One outcome of one cast against the statement (oracle) and, when given, the model's answer `m`.
    -> None | ("fail", clause) | ("disagree", what)."""
    clause = oracle(c, out)
    if clause is not None:
        return ("fail", clause)
    if m is None:
        return None
    if m[0] == "err":
        if out[0] != "err" or (out[1] != m[1] and not (c["ty"][0] == "ARRAY" and out[0] == "err")):
            return ("disagree", "cast vs Cast.parse")
        return None
    if out[0] != "ok":
        return ("disagree", "cast vs Cast.parse")
    want = [unwire_val(x) for x in m[1]] if c["ty"][0] == "ARRAY" else unwire_val(m[1])
    if not same(out[1], want):
        return ("disagree", "cast vs Cast.parse")
    return None


def report_single(ctx, c, out, clause, m):
    c_min = c
    if not ctx.replaying:
        def still(c2):
            try:
                if c2.get("ty") != c["ty"] or ("expect" in c) != ("expect" in c2) or c2.get("expect") != c.get("expect"):
                    return False
                return _norm(oracle(c2, run_impl(c2))) == _norm(clause)
            except Exception:
                return False
        if "expect" not in c:
            c_min = shrink(c, still, budget=150)
        elif c["ty"][0] == "ARRAY":
            c_min = shrink_array(c, clause)
        elif c["ty"][0] == "INTEGER":
            c_min = shrink_int(c, clause)
        elif c["ty"][0] in ("VARCHAR", "BLOB"):
            c_min = shrink_prefix(c, clause)
    if c_min.get("ambient") and not ctx.replaying:
        c_min = shrink_ambient(c_min, clause)
    if c_min.get("numkind") and not ctx.replaying:
        c_min = shrink_numkind(c_min, clause)
    o2 = run_impl(c_min)
    ctx.fail(c_min, oracle(c_min, o2) or clause, impl=[o2[0], repr(o2[1])[:200]], model=m if c_min is c else None)


def shrink_ambient(c, clause):
    """Drop every field of the ambient context that the failure does not need (the same clause must still fail);
    an input that fails without any ambient context loses the field altogether."""
    def fails(c2):
        try:
            return _norm(oracle(c2, run_impl(c2))) == _norm(clause)
        except Exception:
            return False
    cur = dict(c)
    amb = dict(cur["ambient"])
    for key in list(amb):
        trial = {k_: v_ for k_, v_ in amb.items() if k_ != key}
        c2 = dict(cur)
        if trial:
            c2["ambient"] = trial
        else:
            c2.pop("ambient")
        if fails(c2):
            amb = trial
            cur = c2
    return cur


def shrink_numkind(c, clause):
    """Give every re-typed parameter back as a Python int when the same clause still fails (an input that fails with
    plain ints loses the field altogether)."""
    def fails(c2):
        try:
            return _norm(oracle(c2, run_impl(c2))) == _norm(clause)
        except Exception:
            return False
    cur = dict(c)
    nk = dict(cur["numkind"])
    for key in list(nk):
        trial = {k_: v_ for k_, v_ in nk.items() if k_ != key}
        c2 = dict(cur)
        if trial:
            c2["numkind"] = trial
        else:
            c2.pop("numkind")
            c2.pop("may_raise", None)
        if fails(c2):
            nk, cur = trial, c2
    return cur


def shrink_array(c, clause):
    """Drop the same position from the array input (list / tuple / JSON text) and from the expected list while the same clause fails."""
    import orjson

    def parts(c_):
        v, e = c_["val"], c_.get("expect")
        if not (isinstance(e, dict) and e.get("t") == "list"):
            return None
        if v["t"] in ("list", "tuple"):
            xs = v["v"]
        else:
            try:
                xs = orjson.loads(v["v"])
            except Exception:
                return None
        if not isinstance(xs, list) or len(xs) != len(e["v"]):
            return None
        return xs

    def without(c_, i):
        xs = parts(c_)
        v = c_["val"]
        ys = xs[:i] + xs[i + 1:]
        if v["t"] in ("list", "tuple"):
            nv = {"t": v["t"], "v": ys}
        elif v["t"] == "str":
            nv = {"t": "str", "v": orjson.dumps(ys).decode("utf-8")}
        else:
            nv = {"t": "bytes", "v": orjson.dumps(ys)}
        return dict(c_, val=nv, expect={"t": "list", "v": c_["expect"]["v"][:i] + c_["expect"]["v"][i + 1:]})

    cur, tries = c, 0
    progress = True
    while progress and tries < 120:
        progress = False
        xs = parts(cur)
        if not xs or len(xs) <= 1:
            break
        for i in range(len(xs)):
            tries += 1
            try:
                c2 = without(cur, i)
                if _norm(oracle(c2, run_impl(c2))) == _norm(clause):
                    cur, progress = c2, True
                    break
            except Exception:
                continue
    return cur


def shrink_prefix(c, clause):
    """A text / binary cast with a maximum length that fails: drop characters (bytes) of the input one at a time while the
    same clause fails; the expected value is recomputed from the statement (longest prefix within the length)."""
    try:
        name, k = c["ty"][0], c["ty"][1]
        v = py_val(c["val"])
        if not isinstance(v, (str, bytes)):
            return c

        def want(x):
            if name == "VARCHAR":
                t = x.decode("utf-8") if isinstance(x, bytes) else x
            else:
                t = x.encode("utf-8") if isinstance(x, str) else x
            return t[:k] if k else t

        def mk(x):
            return dict(c, ty=[name, k], val=tag(x), expect=tag(want(x)))

        def fails(x):
            try:
                c2 = mk(x)
            except UnicodeDecodeError:
                return False
            return _norm(oracle(c2, run_impl(c2))) == _norm(clause)

        if not fails(v):
            return c
        cur, tries = v, 0
        for _round in range(3):
            progress = True
            while progress and tries < 400:  # drop one character (byte) at a time
                progress = False
                for i in range(len(cur)):
                    tries += 1
                    x = cur[:i] + cur[i + 1:]
                    if fails(x):
                        cur, progress = x, True
                        break
            if not k:
                break
            k_keep, found = k, False
            for k2 in range(1, k_keep):  # a smaller maximum length that still shows it
                k = k2
                if fails(cur):
                    found = True
                    break
            if not found:
                k = k_keep
                break
        return mk(cur)
    except Exception:
        return c


def shrink_int(c, clause):
    """An integer rendering that is cast wrongly: the same rendering (sign, padding, text or bytes) of the smallest
    magnitude found that still fails the same clause."""
    try:
        k = py_val(c["expect"])
        v = py_val(c["val"])
        if type(k) is not int or not isinstance(v, (str, bytes)):
            return c
        txt = v.decode("utf-8") if isinstance(v, bytes) else v
        if txt.count(str(k)) != 1:
            return c
        pre, post = txt.split(str(k))

        def with_int(j):
            t = pre + str(j) + post
            return dict(c, val=tag(t.encode("utf-8") if isinstance(v, bytes) else t), expect=tag(j))

        def fails(j):
            c2 = with_int(j)
            return _norm(oracle(c2, run_impl(c2))) == _norm(clause)

        sgn = -1 if k < 0 else 1
        bits = sorted(set(list(range(0, min(abs(k).bit_length(), 130))) + [2 ** e for e in range(7, 15) if 2 ** e <= abs(k).bit_length()]))
        for b in bits:
            for j in (2 ** b - 1, 2 ** b, 2 ** b + 1):
                if 0 <= j < abs(k) and fails(sgn * j):
                    return with_int(sgn * j)
    except Exception:
        pass
    return c


# ----- what was cast before, in this process (for failures that depend on it)


def hist(ctx):
    if not hasattr(ctx, "_c07_hist"):
        ctx._c07_hist = []
    return ctx._c07_hist


def plain_of(step):
    return {k_: v_ for k_, v_ in step.items() if k_ not in ("then", "kind")}


def is_known(ctx, c, clause):
    from ..core import match_known

    return any(k.get("status") == "open" and match_known(ctx.prop_id, k, c, {"clause": clause}) for k in ctx.known)


def investigate(ctx, c, m, verdict, impl, upto, what, first=None):
    """A cast was judged wrong in this process.  Decide, in fresh interpreters, whether it fails on its own
    (-> an ordinary failing input) or only after earlier casts (-> the shortest reproducing sequence found:
    candidates are `first` (the explicit sequence, if any), the earlier casts of the same value, of the same
    type, and everything cast so far; steps are then dropped while the last one is still judged wrong)."""
    kind, clause = verdict
    c = plain_of(c)
    n_inv = getattr(ctx, "_c07_investigations", 0)
    seen = getattr(ctx, "_c07_seen", set())
    key = (kind, _norm(clause))
    if ctx.replaying or is_known(ctx, c, clause):
        # replay / known finding: report as it is
        if ctx.replaying and first is not None and len(first[0]) > 1:
            return emit(ctx, first[0], first[1], kind, clause, impl, what, None)
        return emit(ctx, [c], [m], kind, clause, impl, what, None)
    if key in seen:
        ctx.hit("violation-dup:" + clause if kind == "fail" else "disagreement-dup")
        return None
    if n_inv >= 4:
        seen.add(key)
        ctx._c07_seen = seen
        return emit(ctx, [c], [m], kind, clause, impl, what, "one of more than four kinds of failure in this run: not examined in a fresh interpreter")
    ctx._c07_investigations = n_inv + 1
    seen.add(key)
    ctx._c07_seen = seen
    deadline = time.time() + 45
    H = hist(ctx)[:upto]
    cands = [([c], [m])]
    if first is not None and len(first[0]) > 1:
        cands.append(first)
    sv = [(s_, m_) for (s_, m_) in H if s_["val"] == c["val"]]
    st = [(s_, m_) for (s_, m_) in H if s_["ty"][0] == c["ty"][0]]
    for grp in (sv, st, H):
        if grp and (len(cands) == 0 or len(grp) + 1 != len(cands[-1][0])):
            cands.append(([s_ for s_, _ in grp] + [c], [m_ for _, m_ in grp] + [m]))

    def hit(ws):
        """index of the first step judged wrong in the same way, or None"""
        for w in ws:
            if w[1] == kind and (kind != "fail" or _norm(w[2]) == _norm(clause)):
                return w
        return None

    def last_hit(ws, n):
        for w in ws:
            if w[0] == n - 1 and w[1] == kind and (kind != "fail" or _norm(w[2]) == _norm(clause)):
                return w
        return None

    for seq, ms in cands:
        ws = fresh_verdict(seq, ms)
        ctx.hit("fresh-interpreter-runs")
        r = hit(ws)
        if r is None:
            continue
        seq, ms = seq[: r[0] + 1], ms[: r[0] + 1]  # the first step that shows it
        budget = 40
        progress = True
        while progress and budget > 0 and len(seq) > 1 and time.time() < deadline:
            progress = False
            n = len(seq) - 1
            cuts = []
            parts = 2
            while parts <= min(n, 8):  # halves, quarters, eighths, then single steps (when few are left)
                w = -(-n // parts)
                cuts += [(lo, min(lo + w, n)) for lo in range(0, n, w)]
                parts *= 2
            if n <= 12:
                cuts += [(k, k + 1) for k in range(n)]
            tried = set()
            for lo, hi in cuts:
                if budget <= 0 or time.time() > deadline:
                    break
                if (lo, hi) in tried or hi - lo == n + 1:
                    continue
                tried.add((lo, hi))
                s2, m2 = seq[:lo] + seq[hi:], ms[:lo] + ms[hi:]
                budget -= 1
                r2 = last_hit(fresh_verdict(s2, m2), len(s2))
                ctx.hit("fresh-interpreter-runs")
                if r2 is not None:
                    seq, ms, r = s2, m2, r2
                    progress = True
                    break
        return emit(ctx, seq, ms, kind, clause, r[3] if r[3] is not None else impl, what, None)
    seq, ms = cands[-1]
    return emit(ctx, seq if len(seq) <= 2000 else [c], ms if len(seq) <= 2000 else [m], kind, clause, impl, what,
                "seen in the checking process; not reproduced in a fresh interpreter from the recorded casts")


def emit(ctx, seq, ms, kind, clause, impl, what, detail):
    if len(seq) == 1:
        c = plain_of(seq[0])
        if kind == "fail":
            if detail is None and not ctx.replaying and "column" not in c:
                return report_single(ctx, c, None, clause, ms[-1])
            return ctx.fail(c, clause, impl=impl, model=ms[-1], detail=detail)
        return ctx.disagree(c, impl, ms[-1], clause)
    text = "%s — on the last of %s casts in one process (%s)" % (clause, "several" if len(seq) > 2 else "two", what)
    if kind == "fail":
        return ctx.fail({"seq": seq}, text, impl=impl, model=ms[-1], detail=detail)
    return ctx.disagree({"seq": seq}, impl, ms[-1], text)


def evaluate(ctx, cases):
    """Every case is cast twice in this process: once, then — after the caller has edited every mutable
    result of the first round in place — again in another order.  The statement defines the value of the
    cast from its input alone, so the second answer is judged exactly like the first."""
    mres = model_results(ctx, cases)
    H = hist(ctx)
    outs, quiet, hidx = {}, set(), {}
    for i, c in enumerate(cases):
        out = run_impl(c)
        outs[i] = out
        m = mres.get(i)
        hidx[i] = len(H)
        H.append((dict(c), m))
        ctx.case(c, True)
        ctx.hit("type:" + c["ty"][0])
        ctx.hit("clause:" + c.get("clause", "totality/class"))
        ctx.hit("outcome:" + out[0])
        if m is not None:
            ctx.hit("compared-with-model")
        v = judge(c, out, m)
        if v is None:
            quiet.add(i)
            if m is not None and m[0] != "err" and c["ty"][0] != "ARRAY" and out[1] is not None and m[2] != m[3]:
                raise InfraError("model result class %r differs from the target's %r for %r" % (m[2], m[3], c))
        else:
            investigate(ctx, c, m, v, [out[0], repr(out[1])[:200]], hidx[i], "an earlier cast in the same process")
    # ---- second use: edit the results, cast again in another order
    for i in sorted(quiet):
        if outs[i][0] == "ok" and mutate_result(outs[i][1]):
            H[hidx[i]][0]["then"] = "edit"
            ctx.hit("again:result-edited-in-place")
    order = sorted(quiet)
    random.Random(len(cases) * 7919 + ctx.seed).shuffle(order)
    for i in order:
        c = cases[i]
        out2 = run_impl(c)
        m = mres.get(i)
        upto = len(H)
        H.append((dict(c), m))
        ctx.evaluations += 1
        ctx.hit("again:second-cast")
        v = judge(c, out2, m)
        if v is not None:
            investigate(ctx, c, m, v, [out2[0], repr(out2[1])[:200]], upto, "a repeated cast, after the caller edited the first result in place")


# --------------------------------------------------------------------------- sequences of casts in one process

WORKER = os.path.join(os.path.dirname(os.path.dirname(os.path.abspath(__file__))), "c07_worker.py")


def fresh_verdict(seq, ms):
    """Run the sequence in a new interpreter -> [(index, kind, clause, impl)] of every step judged wrong."""
    from ..core import _jsonable, REPO

    data = json.dumps(_jsonable({"seq": seq, "ms": ms}))
    try:
        p = subprocess.run([sys.executable, WORKER, REPO], input=data, capture_output=True, text=True, timeout=300)
    except subprocess.TimeoutExpired:
        raise InfraError("C07 sequence worker timed out")
    if p.returncode != 0:
        raise InfraError("C07 sequence worker failed rc=%s: %s" % (p.returncode, p.stderr[-600:]))
    return [tuple(w) for w in json.loads(p.stdout)["wrong"]]


def evaluate_seqs(ctx, seqs):
    """Sequences of casts run in order in this process; each step is judged like a single cast."""
    flat, where = [], []
    for si, seq in enumerate(seqs):
        for k, step in enumerate(seq):
            flat.append(step)
            where.append((si, k))
    mres = model_results(ctx, flat)
    ms_of = {}
    for idx, (si, k) in enumerate(where):
        ms_of[(si, k)] = mres.get(idx)
    H = hist(ctx)
    for si, seq in enumerate(seqs):
        ctx.hit("sequence")
        ctx.hit("sequence-length:%d" % len(seq))
        for k, step in enumerate(seq):
            out = run_step(step)
            m = ms_of[(si, k)]
            upto = len(H)
            H.append((plain_of(step), m))
            ctx.case({"seq-step": step, "k": k}, True, key=json.dumps(core_jsonable(seq[: k + 1]), sort_keys=True))
            ctx.hit("seq-step:" + ("column-default" if "column" in step else step["ty"][0]))
            if m is not None:
                ctx.hit("compared-with-model")
            v = judge(step, out, m)
            if v is not None:
                ms = [ms_of[(si, j)] for j in range(k + 1)]
                pre = [dict(x) for x in seq[:k]] + [plain_of(step)]
                investigate(ctx, step, m, v, [out[0], repr(out[1])[:200]], upto, seq[0].get("kind", "sequence"), first=(pre, ms))
                break
            if after_step(step, out):
                H[upto][0]["then"] = "edit"
                ctx.hit("seq:result-edited-in-place")


def core_jsonable(x):
    from ..core import _jsonable

    return _jsonable(x)


# --------------------------------------------------------------------------- the JSON reader / writer of the model vs orjson
#
# Model/CastJson.lean describes what `orjson.loads` does with the JSON subset arrays are rendered in, and what
# `orjson.dumps` / `json.dumps` write.  Both are compared here with the libraries themselves, orso out of the picture
# (a difference is a defect of the model or the harness: InfraError, never a VIOLATION).  The hypotheses of the
# round-trip theorem about floats (`Cast.Json.FloatParam`) are sampled on the same run.


def strict_same(a, b):
    if type(a) is not type(b):
        return False
    if isinstance(a, float):
        return struct.pack(">d", a) == struct.pack(">d", b)
    if isinstance(a, list):
        return len(a) == len(b) and all(strict_same(x, y) for x, y in zip(a, b))
    if isinstance(a, dict):
        return list(a) == list(b) and all(strict_same(a[k], b[k]) for k in a)
    return a == b


def gen_json(rng, depth=0):
    r = rng.random()
    if depth < 5 and r < 0.3:
        return [gen_json(rng, depth + 1) for _ in range(rng.choice([0, 1, 1, 2, 3, 5]))]
    if r < 0.4:
        return None
    if r < 0.5:
        return rng.random() < 0.5
    if r < 0.7:
        return rng.choice([0, 1, -1, 2**63 - 1, 2**63, -(2**63), -(2**63) - 1, 2**64 - 1, 2**64, 2**64 + 1, 10**30 + 7, rng.randint(-10**6, 10**6),
                           rng.getrandbits(64), -rng.getrandbits(63), rng.getrandbits(70)])
    if r < 0.85:
        f = gen_float(rng)
        return 0.5 if (f != f or f in (float("inf"), float("-inf"))) else f
    n = rng.choice([0, 1, 3, 8])
    return "".join(rng.choice(TEXT_ALPHA + "\\/\x00\x01\x08\x0c\r\t\x1f\x7f\u2028\ud7ff\ue000\uffff\U0010ffff") for _ in range(n))


def json_texts(rng, n):
    import orjson

    for _ in range(n):
        v = gen_json(rng)
        k = rng.randrange(6)
        try:
            if k == 0:
                t = orjson.dumps(v).decode("utf-8")
            elif k == 1:
                t = json.dumps(v, ensure_ascii=False)
            elif k == 2:
                t = json.dumps(v, ensure_ascii=True)
            elif k == 3:
                t = json.dumps(v, indent=rng.choice([0, 1, 2]), ensure_ascii=False)
            elif k == 4:
                t = json.dumps(v, separators=(rng.choice([",", " ,", ",\t", " \r\n, "]), ":"), ensure_ascii=rng.random() < 0.3)
                t = rng.choice(["", " ", "\n\t"]) + t + rng.choice(["", " ", "\r\n"])
            else:
                t = json.dumps(v, ensure_ascii=False).replace("e+", rng.choice(["e+", "E+", "e", "E"]))
        except TypeError:  # orjson.dumps: integer beyond 64 bits
            t = json.dumps(v)
        yield t
        if rng.random() < 0.5 and t:  # a damaged copy: the model must reject what orjson rejects
            i = rng.randrange(len(t))
            ch = rng.choice('[]",\\ue0 1-+.eE{}ntf\x00\x1f\x7f\t\n\x0b\xa0:x')
            yield rng.choice([t[:i] + t[i + 1:], t[:i] + ch + t[i:], t[:i] + ch + t[i + 1:], t[:i], t + ch])
    for t in ["-0", "[-0]", "[-0.0]", "01", "[1.]", "[.5]", "[+1]", "[1e5]", "[1E+5]", "[1e]", "[-]", "[--1]", "[1e400]", "[-1e400]", "[" + "9" * 400 + "]", "[1,]", "[,1]", "[]", "[ ]", " [ 1 , 2 ] ",
              "[1 2]", "nul", "nulll", "[True]", "[NaN]", "[Infinity]", '["\\ud83d\\ude00"]', '["\\ud83d"]', '["\\ude00"]', '["\\ud83d\\u0041"]', '["\\ud83dx"]', '["\\x41"]', '["\\/"]',
              '["\\u12"]', '["\\U0041"]', "['a']", '["abc', "[1]x", "[1] x", "", "   ", "\x0b[1]", "\ufeff[1]", '["a\tb"]', '["a\nb"]', '["\x7f"]', '["\\u0000"]', '["\\uFFFF\\uabcd"]',
              "[[[[[[[[[[[[[[[[[[[[1]]]]]]]]]]]]]]]]]]]]", "[[1],[2,[3]]", "[1]]", "[18446744073709551615,18446744073709551616,-9223372036854775808,-9223372036854775809]", "[1e-400]", "[0e0]",
              "[0.0000000000000000000000000000000000001e37]", '"abc"', "5", "1.5", "true", "null", "[\"\\\\\"]"]:
        yield t


def json_mirror(ctx, n):
    import orjson

    rng = ctx.rng
    texts = [t for t in json_texts(rng, n)]
    lines, kept = [], []
    for t in texts:
        try:
            lines.append("C07 jsonread " + wire.line(t, float_table(t)))
            kept.append(t)
        except UnicodeEncodeError:
            continue
    for t, o in zip(kept, ctx.model.batch(lines)):
        if not o.startswith("ok "):
            raise InfraError("model rejected jsonread of %r: %r" % (t, o))
        m = wire.dec_all(o[3:])[0]
        try:
            want = ("ok", orjson.loads(t))
        except orjson.JSONDecodeError:
            want = ("err",)
        if m[0] == "unsupported":
            ctx.hit("json-mirror:outside-the-subset")
            continue
        ctx.hit("json-mirror:read:" + want[0])
        if m[0] != want[0] or (m[0] == "ok" and not strict_same(m[1], want[1])):
            raise InfraError("Model/CastJson.lean reads %r as %r, orjson.loads as %r" % (t, m, want))
    # the writer
    vals = [gen_json(rng) for _ in range(n // 2)]

    def floats_of(v, acc):
        if isinstance(v, float):
            acc.append(v)
        elif isinstance(v, list):
            for x in v:
                floats_of(x, acc)
        return acc

    def ints_ok(v):
        if type(v) is int:
            return -(2**63) <= v < 2**64
        if isinstance(v, list):
            return all(ints_ok(x) for x in v)
        return True

    lines, want = [], []
    for v in vals:
        v = v if isinstance(v, list) else [v]
        fs = floats_of(v, [])
        if ints_ok(v):
            lines.append("C07 jsonrender " + wire.line(v, ["", "", ""], [[f, orjson.dumps(f).decode()] for f in fs]))
            want.append(("orjson.dumps", v, orjson.dumps(v).decode("utf-8")))
        lines.append("C07 jsonrender " + wire.line(v, ["", " ", ""], [[f, repr(f)] for f in fs]))
        want.append(("json.dumps", v, json.dumps(v, ensure_ascii=False)))
    for (who, v, txt), o in zip(want, ctx.model.batch(lines)):
        if not o.startswith("ok "):
            raise InfraError("model rejected jsonrender of %r: %r" % (v, o))
        got = wire.dec_all(o[3:])[0]
        ctx.hit("json-mirror:write:" + who)
        if got != txt:
            raise InfraError("Model/CastJson.lean writes %r as %r, %s as %r" % (v, got, who, txt))
    # the float hypotheses of `json_roundtrip` (Cast.Json.FloatParam), for both float renderings
    import re

    num = re.compile(r"-?(0|[1-9][0-9]*)(\.[0-9]+)?([eE][-+]?[0-9]+)?\Z")
    bad = 0
    for _ in range(ctx.scale(20000, 200000)):
        bits = rng.getrandbits(64) if rng.random() < 0.8 else rng.getrandbits(52)
        f = struct.unpack(">d", struct.pack(">Q", bits))[0]
        if f != f or f in (float("inf"), float("-inf")):
            continue
        for txt in (repr(f), orjson.dumps(f).decode()):
            if not (num.match(txt) and any(ch in txt for ch in ".eE") and struct.pack(">d", float(txt)) == struct.pack(">d", f)):
                bad += 1
        ctx.hit("json-float-parameter-samples")
    if bad:
        raise InfraError("parameter violated: a float rendering is not a JSON number with fraction or exponent that float() reads back (%d samples)" % bad)


# --------------------------------------------------------------------------- two threads casting at once
#
# A *shared-mutable-module-state* detector for the cast path.  The statement gives the value of a cast from its input and
# options alone; nothing in it is conditional on what another thread of the same process is casting.  Two casts with
# different options are run on two real threads under the deterministic line-granular scheduler of C19
# (harness/sched.py): exactly one thread runs at a time and control changes hands only before a source line of orso code.
# Schedules: every single pre-emption (thread X executes i lines, the other cast then runs from start to end, X finishes;
# both directions, every i), plus sampled double pre-emptions.  Each thread's result is judged by the property exactly like
# a cast on its own (oracle, then model).  The unchanged code keeps no state between casts, so every schedule gives the
# sequential answers; module-level state written before it is used (a shared decimal.Context whose `prec` is set per call,
# a scratch buffer, a "current options" global) is overwritten by the other thread in between.
# Replay case: {"threads": [step, step], "schedule": [[thread id, number of lines], ...]}.


def orso_codes():
    """Every code object defined in a loaded module of the orso package under test (functions, methods, nested code)."""
    import types as T

    from ..core import REPO

    root = os.path.join(os.path.realpath(REPO), "orso") + os.sep
    out = set()

    def walk(co):
        if co in out:
            return
        out.add(co)
        for k in co.co_consts:
            if isinstance(k, T.CodeType):
                walk(k)

    def visit(obj, modname, depth=0):
        if isinstance(obj, T.FunctionType):
            walk(obj.__code__)
        elif isinstance(obj, (classmethod, staticmethod)):
            visit(obj.__func__, modname, depth)
        elif isinstance(obj, property):
            for f in (obj.fget, obj.fset, obj.fdel):
                if f is not None:
                    visit(f, modname, depth)
        elif isinstance(obj, type) and depth < 3 and getattr(obj, "__module__", None) == modname:
            for v in list(vars(obj).values()):
                visit(v, modname, depth + 1)

    for name, m in list(sys.modules.items()):
        f = getattr(m, "__file__", None)
        if not f or not os.path.realpath(f).startswith(root) or not f.endswith(".py"):
            continue
        for v in list(vars(m).values()):
            visit(v, name)
    return {co for co in out if os.path.realpath(co.co_filename).startswith(root)}


def run_threads(steps, schedule, codes):
    from .. import sched

    thunks = [(lambda st=st: run_step(st)) for st in steps]
    res = sched.run(thunks, schedule, codes, timeout=5.0)
    outs = []
    for o in res["outcomes"]:
        outs.append(o[1] if (o is not None and o[0] == "ok") else None)  # run_step never raises; None = no outcome (stuck)
    return outs, res


def rle(schedule):
    """[0, 0, 0, 1, 1] -> [[0, 3], [1, 2]] (how a schedule is written into a replay)."""
    out = []
    for t in schedule:
        if out and out[-1][0] == t:
            out[-1][1] += 1
        else:
            out.append([t, 1])
    return out


def unrle(runs):
    return [t for t, n in runs for _ in range(n)]


def where_is(lineno, codes):
    """Which watched functions have a statement on that line (the scheduler records line numbers only)."""
    names = set()
    for co in codes:
        if any(ln == lineno for _, _, ln in co.co_lines()):
            names.add("%s:%d (%s)" % (os.path.basename(co.co_filename), lineno, co.co_name))
    return " or ".join(sorted(names)[:3]) or "line %d" % lineno


def solo_lines(step, codes):
    """The watched source lines one cast executes on its own, in order: [(file, line, function)] (the scheduler records line
    numbers only; the k-th line of a thread under the scheduler is the k-th line of its cast alone)."""
    out = []

    def local(frame, event, arg):
        if event == "line":
            out.append((os.path.basename(frame.f_code.co_filename), frame.f_lineno, frame.f_code.co_name))
        return local

    def glob(frame, event, arg):
        return local if (event == "call" and frame.f_code in codes) else None

    old = sys.gettrace()
    sys.settrace(glob)
    try:
        run_step(step)
    finally:
        sys.settrace(old)
    return out


def describe_schedule(trace, codes, steps=None):
    solo = [solo_lines(st, codes) for st in steps] if steps else None
    seen = [0, 0]
    runs = []
    for t, ln in trace:
        name = None
        if solo is not None and t < 2 and seen[t] < len(solo[t]) and solo[t][seen[t]][1] == ln:
            name = "%s:%d (%s)" % solo[t][seen[t]]
        if t < 2:
            seen[t] += 1
        if runs and runs[-1][0] == t:
            runs[-1][2] += 1
        else:
            runs.append([t, name or where_is(ln, codes), 1])
    return "; ".join("thread %d runs %d line%s from %s" % (t, n, "" if n == 1 else "s", w_) for t, w_, n in runs)


def thread_pairs(ctx, n_random):
    """Pairs of casts with different options (fixed boundary pairs first, then pairs drawn from the sequence generator)."""
    big = "12345678901234567890123456789012345678"
    d28 = D("0." + "1234567890" * 2 + "12345678")
    fixed = [
        (case(["DECIMAL", 38, 0], big, "decimal: exact when it fits", D(big)), case(["DECIMAL", 5, 2], "123.45", "decimal: exact when it fits", D("123.45"))),
        (case(["DECIMAL", 28, 28], d28, "decimal: identity on a typed value", d28), case(["DECIMAL", 10, 3], b" 15 ", "decimal: exact when it fits (padded)", D("15.000"))),
        (case(["DECIMAL", None, None], "1.5", "decimal: exact when it fits", D("1.5")), case(["DECIMAL", 2, 1], D("-9.9"), "decimal: identity on a typed value", D("-9.9"))),
        (case(["VARCHAR", 2], "héllo", "text: longest prefix within the length", "hé"), case(["VARCHAR", None], "héllo".encode("utf-8"), "text: longest prefix within the length", "héllo")),
        (case(["BLOB", 3], "日a", "binary: longest prefix within the length", "日".encode("utf-8")), case(["BLOB", 1], b"xyz", "binary: longest prefix within the length", b"x")),
        ({"ty": ["ARRAY", ["INTEGER"]], "val": tag("[1,null,3]"), "clause": "JSON array element-wise, nulls kept", "expect": tag([1, None, 3])},
         {"ty": ["ARRAY", ["VARCHAR"]], "val": tag(b'["1",null,"3"]'), "clause": "JSON array element-wise, nulls kept", "expect": tag(["1", None, "3"])}),
        ({"ty": ["ARRAY", ["DATE"]], "val": tag('["2024-02-29"]'), "clause": "JSON array element-wise, nulls kept", "expect": tag([datetime.date(2024, 2, 29)])},
         {"ty": ["ARRAY", ["BOOLEAN"]], "val": tag(["yes", None, False]), "clause": "array element-wise, nulls kept", "expect": tag([True, None, False])}),
        (case(["INTEGER"], " -9007199254740993 ", "integer rendering (padded)", -9007199254740993), case(["DOUBLE"], b"1.5", "float rendering (repr)", 1.5)),
        (case(["DATE"], "2024-02-29", "date rendering", datetime.date(2024, 2, 29)),
         case(["TIMESTAMP"], "2023-04-18 12:34:56.5", "timestamp rendering", datetime.datetime(2023, 4, 18, 12, 34, 56))),
        (case(["BOOLEAN"], "yes", "documented truthy word", True), case(["BOOLEAN"], b"False", "boolean rendering", False)),
        ({"ty": ["DECIMAL", None, None], "val": tag("2.5"), "column": "DECIMAL", "clause": "column default is the cast of the given default", "expect": tag(D("2.5"))},
         {"ty": ["INTEGER"], "val": tag("12"), "column": "INTEGER", "clause": "column default is the cast of the given default", "expect": tag(12)}),
    ]
    rng = ctx.rng
    # the types that carry options first (that is where a "current options" global would live); the time budget of the
    # quick tier covers some seven pairs: which of the others varies with the seed
    first = [fixed[0], fixed[3], fixed[5], fixed[4], fixed[1]]
    rest = [p_ for p_ in fixed if not any(p_ is q_ for q_ in first)]
    rng.shuffle(rest)
    for a, b in first + rest:
        yield [a, b]
    made = 0
    for seq in sequence_cases(ctx, n_random * 3):
        if made >= n_random:
            break
        steps = [plain_of(s_) for s_ in seq]
        i, j = rng.randrange(len(steps)), rng.randrange(len(steps))
        if steps[i] == steps[j] or (steps[i]["ty"] == steps[j]["ty"] and steps[i]["val"] == steps[j]["val"]):
            continue
        made += 1
        yield [steps[i], steps[j]]


def evaluate_threads(ctx, pairs, budget_s, doubles):
    """Run each pair under every single pre-emption (and `doubles` sampled double pre-emptions); judge every result."""
    t_end = time.time() + budget_s
    pairs = list(pairs)
    flat = [st for pr in pairs for st in pr]
    mres = model_results(ctx, flat)
    codes = None
    rng = ctx.rng
    FAR = 4000  # longer than any cast's line count: "run this thread to its end"
    for pi, steps in enumerate(pairs):
        if time.time() > t_end:
            ctx.hit("threads:pairs-not-run (time)")
            continue
        ms = [mres.get(2 * pi), mres.get(2 * pi + 1)]
        # the two casts on their own, one after the other (warm-up: lazy imports happen here, not under the scheduler)
        solo = [run_step(st) for st in steps]
        if any(judge(st, o, m) is not None for st, o, m in zip(steps, solo, ms)):
            ctx.hit("threads:pair-wrong-sequentially (left to the sequence check)")
            evaluate_seqs(ctx, [[dict(steps[0]), dict(steps[1])]])
            continue
        if codes is None:
            codes = orso_codes()
            ctx.hit("threads:orso-code-objects-watched", len(codes))
        outs, res = run_threads(steps, [], codes)
        if res["stuck"] or any(o is None for o in outs):
            ctx.hit("threads:stuck")
            continue
        n = [sum(1 for t, _ in res["trace"] if t == k) for k in (0, 1)]
        ctx.hit("threads:pair")
        ctx.hit("threads:pair:%s+%s" % (("column-default" if "column" in steps[0] else steps[0]["ty"][0]), ("column-default" if "column" in steps[1] else steps[1]["ty"][0])))
        ctx.hit("threads:lines-per-cast", n[0] + n[1])
        scheds = []
        for x in (0, 1):
            for i in range(1, n[x]):  # x executes i lines, the other cast runs whole, x finishes
                scheds.append([x] * i + [1 - x] * FAR)
        for _ in range(doubles):  # x: i lines, other: j lines, x: k lines, other to its end, x finishes
            x = rng.randrange(2)
            i, j = rng.randrange(1, max(2, n[x])), rng.randrange(1, max(2, n[1 - x]))
            k = rng.randrange(1, max(2, n[x] - i + 1))
            scheds.append([x] * i + [1 - x] * j + [x] * k + [1 - x] * FAR)
        for sc in scheds:
            if time.time() > t_end:
                ctx.hit("threads:schedules-not-run (time)")
                break
            outs, res = run_threads(steps, sc, codes)
            ctx.evaluations += 1
            ctx.hit("threads:schedule")
            if res["stuck"] or any(o is None for o in outs):
                ctx.hit("threads:stuck")
                continue
            bad = None
            for k in (0, 1):
                v = judge(steps[k], outs[k], ms[k])
                if v is not None:
                    bad = (k, v)
                    break
            if bad is None:
                continue
            k, (kind, clause) = bad
            actual = [t for t, _ in res["trace"]]
            report_threads(ctx, steps, actual, k, kind, clause, outs, ms, res["trace"], codes)
            break


def report_threads(ctx, steps, schedule, k, kind, clause, outs, ms, trace, codes):
    c = {"threads": [dict(steps[0]), dict(steps[1])], "schedule": rle(schedule)}
    text = "%s — cast %d of two casts on two threads (deterministic line interleaving; each alone, and one after the other, is right)" % (clause, k)
    impl = [[o[0], repr(o[1])[:200]] for o in outs]
    detail = describe_schedule(trace, codes, steps)
    if kind == "fail":
        return ctx.fail(c, text, impl=impl, model=ms[k], detail=detail)
    return ctx.disagree(c, impl, ms[k], text + " [" + detail + "]")


def replay_threads(ctx, c):
    steps = [dict(s_) for s_ in c["threads"]]
    mres = model_results(ctx, steps)
    ms = [mres.get(0), mres.get(1)]
    [run_step(st) for st in steps]
    codes = orso_codes()
    outs, res = run_threads(steps, unrle(c.get("schedule") or []), codes)
    ctx.case(c, True)
    if res["stuck"] or any(o is None for o in outs):
        raise InfraError("C07 threads replay: the scheduler got stuck")
    for k in (0, 1):
        v = judge(steps[k], outs[k], ms[k])
        if v is not None:
            return report_threads(ctx, steps, [t for t, _ in res["trace"]], k, v[0], v[1], outs, ms, res["trace"], codes)


# --------------------------------------------------------------------------- generators

SCALARS = ["BOOLEAN", "INTEGER", "DOUBLE", "DECIMAL", "VARCHAR", "BLOB", "DATE", "TIMESTAMP"]


def ty_of(name, rng=None, **kw):
    if name == "DECIMAL":
        return ["DECIMAL", kw.get("p"), kw.get("s")]
    if name in ("VARCHAR", "BLOB"):
        return [name, kw.get("n")]
    return [name]


def case(ty, v, clause=None, expect=None, wrap=False):
    c = {"ty": ty, "val": tag(v)}
    if clause:
        c["clause"] = clause
        c["expect"] = tag(expect)
    return c


def gen_int(rng):
    r = rng.random()
    if r < 0.3:
        return rng.choice([0, 1, -1, 10, -10, 2**31, 2**53, 2**53 + 1, -(2**53) - 1, 2**63 - 1, -(2**63) + 1, 2**63, 2**64, -(2**63), 10**18, 10**19, 10**100, -(10**100), 10**4299 - 1, -(10**4298)])
    if r < 0.6:
        return rng.randint(-1000, 1000)
    if r < 0.9:
        return rng.choice([-1, 1]) * rng.getrandbits(rng.choice([8, 31, 53, 64, 65, 100, 200, 1000]))
    return rng.choice([-1, 1]) * (10 ** rng.randint(100, 4200) + rng.getrandbits(64))


def gen_float(rng):
    r = rng.random()
    if r < 0.25:
        return rng.choice([0.0, -0.0, 1.0, -1.0, 0.1, 1e22, 1e23, 5e-324, 2.2250738585072014e-308, 1.7976931348623157e308, float("inf"), float("-inf"),
                           float("nan"), 1e16, 123456789.123456789, 1 / 3, 2.0**53, 9007199254740993.0, 1e-5, 1e-4, 0.3])
    if r < 0.7:
        return struct.unpack(">d", struct.pack(">Q", rng.getrandbits(64)))[0]
    if r < 0.8:
        return struct.unpack(">d", struct.pack(">Q", rng.getrandbits(52)))[0]  # subnormal
    return rng.uniform(-1e6, 1e6)


TEXT_ALPHA = "abcXYZ019 _-éß日\U0001f600\n'\"{}[],:.+"


def gen_text(rng, maxlen=12):
    n = rng.randint(0, maxlen)
    return "".join(rng.choice(TEXT_ALPHA) for _ in range(n))


def pad(rng, s):
    return rng.choice(["", " ", "\t", "  ", "\n"]) + s + rng.choice(["", " ", "\n", "\t "])


def null_cases(ctx):
    from orso.types import OrsoTypes

    for t in OrsoTypes:
        if t.name == "ARRAY":
            yield {"ty": ["ARRAY", None], "val": None, "clause": "null"}
            yield {"ty": ["ARRAY", ["INTEGER"]], "val": None, "clause": "null"}
        elif t.name in ("DECIMAL", "VARCHAR", "BLOB"):
            yield {"ty": ty_of(t.name), "val": None, "clause": "null"}
            yield {"ty": ty_of(t.name, p=5, s=2, n=3), "val": None, "clause": "null"}
        else:
            yield {"ty": [t.name], "val": None, "clause": "null"}


def bool_cases(ctx):
    from orso.types import BOOLEAN_STRINGS

    for b in (True, False):
        yield case(["BOOLEAN"], b, "identity on a typed value", b)
        for txt in (str(b), str(b).upper(), str(b).lower()):
            yield case(["BOOLEAN"], txt, "boolean rendering", b)
            yield case(["BOOLEAN"], txt.encode(), "boolean rendering", b)
    for w in ["TRUE", "ON", "YES", "1", "1.0", "T", "Y"]:  # the documented words, pinned
        yield case(["BOOLEAN"], w.lower(), "documented truthy word", True)
        yield case(["BOOLEAN"], w.encode(), "documented truthy word", True)
    for w in BOOLEAN_STRINGS:
        for f in (lambda x: x, lambda x: x.lower(), lambda x: x.title(), lambda x: x.swapcase()):
            yield case(["BOOLEAN"], f(w), "documented truthy word", True)
    for w in ["", "no", "off", "0", "false", "f", "n", " true", "true ", "yess", "2", "1.00", "01", "tr ue", "TRUE\n", "ｔｒｕｅ", "ı", "yeſ"]:
        yield case(["BOOLEAN"], w)
        yield case(["BOOLEAN"], w.encode("utf-8"))
    for v in [0, 1, 2, -1, 1.0, 0.0, 2.0, float("nan"), 10**30]:
        yield case(["BOOLEAN"], v)


def int_cases(ctx, n):
    rng = ctx.rng
    for _ in range(n):
        k = gen_int(rng)
        yield case(["INTEGER"], k, "identity on a typed value", k)
        s = str(k)
        r = rng.random()
        if r < 0.35:
            yield case(["INTEGER"], s, "integer rendering", k)
        elif r < 0.6:
            yield case(["INTEGER"], s.encode(), "integer rendering", k)
        elif r < 0.85:
            yield case(["INTEGER"], pad(rng, s), "integer rendering (padded)", k)
        else:
            yield case(["INTEGER"], pad(rng, s).encode(), "integer rendering (padded)", k)
    for t in ["", " ", "+5", "-0", "1_000", "1__0", "_1", "1_", "0x10", "1.5", "1e3", "٣", "１２", "- 1", "--1", "1 2", "\x1c1", "1\x0b", "9" * 4300, "9" * 4301, "-" + "9" * 4300, "0" * 5000]:
        yield case(["INTEGER"], t)
        try:
            yield case(["INTEGER"], t.encode("utf-8"))
        except UnicodeEncodeError:
            pass
    for v in [True, False, 1.9, -1.9, float("nan"), float("inf"), 1e300, -0.0]:
        yield case(["INTEGER"], v)
    for o in ("object", "complex", "dict", "set", "timedelta"):
        for t in SCALARS:
            yield {"ty": ty_of(t), "val": {"t": "obj", "v": o}}


def double_cases(ctx, n):
    rng = ctx.rng
    for i in range(n):
        f = gen_float(rng)
        yield case(["DOUBLE"], f, "identity on a typed value", f)
        r = rng.random()
        s = repr(f)
        if r < 0.4:
            yield case(["DOUBLE"], s, "float rendering (repr)", f)
        elif r < 0.7:
            yield case(["DOUBLE"], s.encode(), "float rendering (repr)", f)
        else:
            yield case(["DOUBLE"], pad(rng, s), "float rendering (padded repr)", f)
    for v in [0, 1, -1, 2**53 + 1, 2**64, 10**400, True, False, "1e400", "abc", "", "1_0.5", "0x1p3", "infinity", "-Inf", "nan", "NAN", b"\xff"]:
        yield case(["DOUBLE"], v)


def float_repr_sample(ctx, n):
    """The parameter float(repr(f)) == f, sampled directly on the interpreter (not through orso)."""
    rng = ctx.rng
    bad = 0
    for _ in range(n):
        bits = rng.getrandbits(64) if rng.random() < 0.8 else rng.getrandbits(52)
        f = struct.unpack(">d", struct.pack(">Q", bits))[0]
        g = float(repr(f))
        if not (struct.pack(">d", g) == struct.pack(">d", f) or (f != f and g != g)):
            bad += 1
    if bad:
        raise InfraError("parameter violated: float(repr(f)) != f on %d sampled doubles" % bad)
    ctx.hit("float-repr-parameter-samples", n)


def float_text_param(ctx, n):
    """The parameter record `FloatTextParam` of `C07.double_text_forms`, checked on the interpreter (orso out of the
    picture; a mismatch is a harness error): the boundary table `Cast.floatSpecials` (fetched from the model driver)
    against `float(text)` bit for bit, and white-space padding on sampled doubles.  Returns the table."""
    o = ctx.model.batch(["C07 floatspecials"])[0]
    if not o.startswith("ok "):
        raise InfraError("model rejected floatspecials: %r" % o)
    table = wire.dec_all(o[3:])[0]
    for text, f in table:
        g = float(text)
        if struct.pack(">d", g) != struct.pack(">d", f):
            raise InfraError("parameter table: float(%r) is %r here, the table says %r" % (text, g, f))
        if struct.pack(">d", float(text.encode("ascii"))) != struct.pack(">d", f):
            raise InfraError("parameter table: float(bytes %r) differs" % text)
        ctx.hit("float-text-parameter:table-entry")
    rng = ctx.rng
    ws = [" ", "\t", "\n", "\r", "\x0b", "\x0c"]
    for _ in range(n):
        bits = rng.getrandbits(64) if rng.random() < 0.8 else rng.getrandbits(52)
        f = struct.unpack(">d", struct.pack(">Q", bits))[0]
        t = "".join(rng.choice(ws) for _ in range(rng.randint(0, 3))) + repr(f) + "".join(rng.choice(ws) for _ in range(rng.randint(0, 3)))
        g = float(t)
        if not (struct.pack(">d", g) == struct.pack(">d", f) or (f != f and g != g)):
            raise InfraError("parameter violated: float(%r) != %r" % (t, f))
    ctx.hit("float-text-parameter:padding-samples", n)
    return table


def boundary_cases(ctx, table):
    """Inputs at the limits of every cast (distribution printed into the evidence under `boundary:*`)."""
    rng = ctx.rng

    def hit(k, c):
        ctx.hit("boundary:" + k)
        return c

    # DOUBLE: every text form of the parameter table, as text, bytes, padded
    for text, f in table:
        yield hit("double-text-form", case(["DOUBLE"], text, "float text form (boundary table)", f))
        yield hit("double-text-form", case(["DOUBLE"], text.encode(), "float text form (boundary table)", f))
        yield hit("double-text-form", case(["DOUBLE"], pad(rng, text), "float text form (boundary table, padded)", f))
    for f in [0.0, -0.0, 5e-324, -5e-324, 2.2250738585072014e-308, 2.225073858507201e-308, 1.7976931348623157e308, -1.7976931348623157e308,
              float("inf"), float("-inf"), float("nan"), struct.unpack(">d", struct.pack(">Q", 0x7FF8000000000001))[0],
              struct.unpack(">d", struct.pack(">Q", 0xFFF8000000000000))[0], 2.0**63, -(2.0**63), 2.0**64, 1e308]:
        yield hit("double-limit", case(["DOUBLE"], f, "identity on a typed value", f))
        if f == f:
            yield hit("double-limit", case(["DOUBLE"], repr(f), "float rendering (repr)", f))
            yield hit("double-limit", case(["DOUBLE"], " " + repr(f) + "\n", "float rendering (padded repr)", f))
        yield hit("double-limit", case(["VARCHAR", None], f))
        yield hit("double-limit", case(["INTEGER"], f))
        yield hit("double-limit", case(["BOOLEAN"], f))
    # INTEGER: the 64-bit limits and CPython's 4300-digit limit, every rendering
    for k in [2**63 - 1, 2**63, 2**63 + 1, -(2**63) - 1, -(2**63), 2**64 - 1, 2**64, 2**64 + 1, 10**4299, 10**4300 - 1, -(10**4300) + 1, 2**1024, -(2**1024)]:
        for v, cl in ((k, "identity on a typed value"), (str(k), "integer rendering"), (str(k).encode(), "integer rendering"),
                      ("\t " + str(k) + " \n", "integer rendering (padded)"), (("\x0b" + str(k) + "\x0c").encode(), "integer rendering (padded)")):
            yield hit("integer-limit", case(["INTEGER"], v, cl, k))
        yield hit("integer-limit", case(["DOUBLE"], k))
        yield hit("integer-limit", case(["DECIMAL", 38, 0], k))
        yield hit("integer-limit", case(["VARCHAR", None], k))
    for t in ["1" + "0" * 4300, "-1" + "0" * 4300, " " + "9" * 4300 + " ", "9" * 4301, "0" * 4300 + "1", "1\x00", "\x001", "1\x002", "\x00", "+", "-", "+-1", "1e", "١٢٣", "1\xa0",
              " 1", "１２３", "1_2_3", "1__2", "٣_٣", "-٣", "1​", "0b1", "0o7", "00", "-00", "+007", "1\n2", "﻿1"]:
        yield hit("integer-odd-text", case(["INTEGER"], t))
        yield hit("integer-odd-text", case(["INTEGER"], t.encode("utf-8")))
        yield hit("integer-odd-text", case(["DOUBLE"], t))
        yield hit("integer-odd-text", case(["DECIMAL", 38, 0], t))
    # bool as int, int as bool
    for v in [True, False]:
        yield hit("bool-as-int", case(["INTEGER"], v, "identity on a typed value", int(v)))
        yield hit("bool-as-int", case(["DOUBLE"], v))
        yield hit("bool-as-int", case(["DECIMAL", 5, 2], v))
        yield hit("bool-as-int", case(["VARCHAR", 2], v))
        yield hit("bool-as-int", case(["BLOB", 2], v))
    # text / binary: empty, NUL, limits exactly at / one past the length, four-byte characters cut by bytes
    for s_ in ["", "\x00", "a\x00b", "\x00\x00\x00", "日\x00本", "\U0001f600\x00", "a" * 255, "a" * 256, "﻿a", "é", "‍\U0001f468", "\r\n\t "]:
        for n_ in (None, 0, 1, 2, 3, len(s_), len(s_) + 1, max(len(s_) - 1, 1), len(s_.encode()), 2**31, 2**63, 2**64):
            want = s_ if not n_ else s_[:n_]
            yield hit("text-limit", case(["VARCHAR", n_], s_, "text: longest prefix within the length", want))
            yield hit("text-limit", case(["VARCHAR", n_], s_.encode(), "text: longest prefix within the length (bytes)", want))
            b_ = s_.encode()
            wb = b_ if not n_ else b_[:n_]
            yield hit("text-limit", case(["BLOB", n_], b_, "binary: longest prefix within the length", wb))
            yield hit("text-limit", case(["BLOB", n_], s_, "binary: longest prefix within the length (text)", wb))
    # classes next to the canonical ones (no clause but class / totality; numpy float64 *is* a float)
    for kind, v in [("bytearray", b"12"), ("bytearray", b""), ("bytearray", b"true"), ("memoryview", b"12"), ("memoryview", b"2020-01-02"),
                    ("np.int64", 5), ("np.int64", -2**63), ("np.uint64", 2**64 - 1), ("np.float64", 1.5), ("np.float64", -0.0), ("np.float64", float("nan")),
                    ("np.float32", 0.1), ("np.bool_", True), ("np.bool_", False), ("np.str_", "12"), ("np.str_", "true"), ("np.bytes_", b"12"),
                    ("np.datetime64", "2020-01-02"), ("np.datetime64", "2020-01-02T03:04:05")]:
        for tname in SCALARS:
            c = {"ty": ty_of(tname, p=10, s=2, n=3), "val": {"t": "ext", "k": kind, "v": v}}
            if kind == "np.float64" and tname == "DOUBLE":
                c["clause"], c["expect"] = "identity on a typed value (numpy.float64 is a float)", tag(float(v))
            yield hit("foreign-class:" + kind, c)
        yield hit("foreign-class:" + kind, {"ty": ["ARRAY", ["INTEGER"]], "val": {"t": "ext", "k": kind, "v": v}, "no_model": True})


def text_cases(ctx, n):
    rng = ctx.rng
    for _ in range(n):
        s = gen_text(rng, rng.choice([0, 3, 12, 40]))
        b = s.encode("utf-8") if rng.random() < 0.7 else bytes(rng.getrandbits(8) for _ in range(rng.randint(0, 12)))
        k = rng.choice([None, None, 0, 1, 2, 3, 5, 8, 13, 40])
        lim = (lambda x: x) if not k else (lambda x: x[:k])
        yield case(["VARCHAR", k], s, "text: longest prefix within the length", lim(s))
        yield case(["VARCHAR", k], s.encode("utf-8"), "text: longest prefix within the length", lim(s))
        yield case(["BLOB", k], b, "binary: longest prefix within the length", lim(b))
        yield case(["BLOB", k], s, "binary: longest prefix within the length", lim(s.encode("utf-8")))
        if rng.random() < 0.2:
            yield case(["VARCHAR", k], b)
    for v in [0, -5, 10**30, True, False]:
        yield case(["VARCHAR", None], v)
        yield case(["VARCHAR", 2], v)
        yield case(["BLOB", None], v)
        yield case(["BLOB", 1], v)


def temporal_cases(ctx, n):
    rng = ctx.rng
    for _ in range(n):
        y, m, d, H, M, S, us = rand_dt(rng)
        dd = datetime.date(y, m, d)
        dt = datetime.datetime(y, m, d, H, M, S, us)
        dt0 = dt.replace(microsecond=0)
        yield case(["DATE"], dd, "identity on a typed value", dd)
        yield case(["TIMESTAMP"], dt, "identity on a typed value (whole seconds)", dt0)
        if 2 <= y <= 9998 and rng.random() < 0.5:
            # a date-time that carries a UTC offset is a TIMESTAMP value too: the cast returns an equal value (Python
            # never calls a naive date-time equal to an aware one), of the same class, to whole seconds
            aware = dt.replace(tzinfo=datetime.timezone(datetime.timedelta(minutes=rng.choice([0, 0, 60, -300, 330, 765, -719]))))
            yield case(["TIMESTAMP"], aware, "identity on a typed value (whole seconds, aware date-time)", aware.replace(microsecond=0))
        iso = dd.isoformat()
        yield case(["DATE"], iso if rng.random() < 0.5 else iso.encode(), "date rendering", dd)
        sep = rng.choice("T ")
        t = dt.isoformat(sep=sep, timespec=rng.choice(["seconds", "milliseconds", "microseconds"]))
        yield case(["TIMESTAMP"], t if rng.random() < 0.5 else t.encode(), "timestamp rendering", dt0)
        yield case(["DATE"], dt)
        yield case(["TIMESTAMP"], dd)
        yield case(["DATE"], t)
    for v in ["", "x", "2023-02-29", 0, -1, 10**30, 1.5, float("nan"), True, b"\xff" * 10, "2023-04-18T12:34-05:00"]:
        yield case(["DATE"], v)
        yield case(["TIMESTAMP"], v)


def gen_decimal_fitting(rng, p, s):
    """A decimal with at most p digits once scaled by 10**s (and possibly trailing zeros / exponent form)."""
    nd = rng.randint(1, p)
    n = rng.choice([0, 10**nd - 1, 10 ** (nd - 1), rng.randrange(10**nd)])
    d = D((rng.randint(0, 1), tuple(int(ch) for ch in str(n)), -s))
    r = rng.random()
    if r < 0.3:
        d = d.normalize(decimal.Context(prec=60))
    elif r < 0.4 and n % 10 == 0:
        sign, digits, e = d.as_tuple()
        d = D((sign, digits + (0, 0), e - 2))
    return d


def decimal_cases(ctx, grid, per):
    rng = ctx.rng
    for (p, s) in grid:
        ty = ["DECIMAL", p, s]
        for _ in range(per):
            if p >= 1:
                d = gen_decimal_fitting(rng, p, s)
                if fits(d, p, s) and s <= 28:
                    yield case(ty, d, "decimal: identity on a typed value", d)
                    r = rng.random()
                    txt = str(d)
                    if r < 0.4:
                        yield case(ty, txt, "decimal: exact when it fits", d)
                    elif r < 0.6:
                        yield case(ty, txt.encode(), "decimal: exact when it fits", d)
                    elif r < 0.8:
                        yield case(ty, pad(rng, txt), "decimal: exact when it fits (padded)", d)
                    else:
                        yield case(ty, format(d, "f"), "decimal: exact when it fits", d)
                    if d == d.to_integral_value() and abs(d) < 10**30:
                        yield case(ty, int(d), "decimal: exact when it fits", d)
                else:
                    yield case(ty, d)
                    yield case(ty, str(d))
            # not fitting / malformed: totality + class only
            x = D(rng.randrange(10**rng.randint(1, 45))).scaleb(-rng.randint(0, 45), decimal.Context(prec=99))
            yield case(ty, x)
            yield case(ty, str(x))
    for ty in (["DECIMAL", None, None], ["DECIMAL", 5, 2], ["DECIMAL", 38, 38], ["DECIMAL", 1, 0], ["DECIMAL", 0, 0]):
        for v in ["NaN", "Infinity", "-Infinity", "sNaN", "inf", "abc", "", "1_0", "1e", "e5", ".", "5.", ".5", "+.5e-3", "1E+2", "1e-30", "--1", "0", "-0", "00.10",
                  "999.995", "0.005", "0.015", "0.025", "123456", "１２", "1 2", True, False, 0, 15, -15, 10**40, b"1.5", b"\xff", 1.5, 0.1, float("nan"), float("inf"), 1e22]:
            yield case(ty, v)
        for v in [D("NaN"), D("Infinity"), D("-Infinity"), D("sNaN"), D("-0"), D("0E+5"), D("1.5"), D("1E+30"), D("123456789012345678901234567890123456789012")]:
            yield case(ty, v)


AMBIENT_FIXED = [
    {"prec": 6}, {"prec": 3}, {"prec": 1}, {"prec": 50}, {"prec": 27}, {"prec": 29},
    {"prec": 6, "rounding": "ROUND_DOWN"}, {"prec": 3, "rounding": "ROUND_CEILING", "traps": ["Inexact", "Rounded"]},
    {"prec": 50, "rounding": "ROUND_UP", "traps": ["Inexact"]}, {"rounding": "ROUND_FLOOR"}, {"traps": ["Inexact", "Rounded", "Subnormal", "Underflow", "Clamped"]},
    {"Emin": -5, "prec": 3}, {"Emin": -5, "traps": ["Subnormal", "Underflow"]}, {"Emin": -27}, {"Emax": 5, "prec": 6}, {"Emax": 5, "Emin": -5, "traps": ["Overflow", "Underflow"]},
    {"clamp": 1, "prec": 6}, {"capitals": 0}, {"Emax": 0, "Emin": 0, "prec": 1, "rounding": "ROUND_05UP", "clamp": 1, "capitals": 0, "traps": ["Inexact", "Rounded", "Subnormal", "Underflow", "Clamped", "FloatOperation"]},
]
ROUNDINGS = ["ROUND_DOWN", "ROUND_HALF_UP", "ROUND_HALF_EVEN", "ROUND_CEILING", "ROUND_FLOOR", "ROUND_UP", "ROUND_HALF_DOWN", "ROUND_05UP"]
TRAPS = ["Inexact", "Rounded", "Subnormal", "Underflow", "Overflow", "Clamped", "FloatOperation"]


def gen_ambient(rng):
    a = {}
    if rng.random() < 0.8:
        a["prec"] = rng.choice([1, 2, 3, 6, 9, 20, 27, 28, 29, 38, 50, 100])
    if rng.random() < 0.5:
        a["rounding"] = rng.choice(ROUNDINGS)
    if rng.random() < 0.3:
        a["Emin"] = rng.choice([0, -1, -5, -27, -28, -29, -40])
    if rng.random() < 0.3:
        a["Emax"] = rng.choice([0, 1, 5, 27, 28, 37, 38, 40])
    if rng.random() < 0.2:
        a["clamp"] = 1
    if rng.random() < 0.1:
        a["capitals"] = 0
    if rng.random() < 0.5:
        a["traps"] = sorted(rng.sample(TRAPS, rng.randint(1, 4)))
    return a or {"prec": 6}


def ambient_cases(ctx, n):
    """Ambient interpreter state outside the arguments of the cast: the calling thread's decimal context (precision, rounding mode,
    exponent range, clamp, capitals, enabled traps).  The same generated cases as elsewhere (DECIMAL over the boundary grid, INTEGER,
    DOUBLE, text, temporal, boolean; canonical renderings with their expected values, non-fitting and malformed inputs for the
    model correspondence), each cast while such a context is the current one, judged by the same oracle and the same model answer."""
    rng = ctx.rng
    g = [(1, 0), (1, 1), (5, 2), (10, 3), (9, 9), (12, 9), (20, 10), (28, 28), (29, 28), (38, 0), (38, 21), (38, 28), (38, 38)] + rng.sample(
        [(p, s) for p in range(1, 39) for s in range(0, p + 1)], ctx.scale(12, 80))
    fixed = [
        case(["DECIMAL", 20, 10], "0.1234567891", "decimal: exact when it fits", D("0.1234567891")),
        case(["DECIMAL", 38, 28], D("1.0000000000000000000000000001"), "decimal: identity on a typed value", D("1.0000000000000000000000000001")),
        case(["DECIMAL", 12, 9], b"-123.456789012", "decimal: exact when it fits", D("-123.456789012")),
        case(["DECIMAL", 38, 0], "12345678901234567890123456789012345678", "decimal: exact when it fits", D("12345678901234567890123456789012345678")),
        case(["DECIMAL", 38, 38], " 0.12345678901234567890123456789012345678 "),
        case(["DECIMAL", 38, 38], " 0.1234567890123456789012345678 ", "decimal: exact when it fits (padded)", D("0.1234567890123456789012345678")),
        case(["DECIMAL", None, None], "5", "decimal: exact when it fits", D(5)),
        case(["DECIMAL", 5, 2], 123, "decimal: exact when it fits", D(123)),
        case(["INTEGER"], "123456789012345678901234567890", "integer rendering", 123456789012345678901234567890),
        case(["INTEGER"], D("123456789012345678901234567890")),
        case(["DOUBLE"], "0.1234567891234567", "float rendering (repr)", 0.1234567891234567),
        case(["DOUBLE"], D("0.1234567891234567")),
        case(["DOUBLE"], D("1E+400")),
        case(["VARCHAR", None], D("1E+30")),
        case(["BOOLEAN"], D("1.0")),
    ]
    for a in AMBIENT_FIXED:
        for c in fixed:
            c2 = dict(c)
            c2["ambient"] = dict(a)
            ctx.hit("ambient:fixed-context")
            yield c2
    import itertools
    pools = [decimal_cases(ctx, g, 3), int_cases(ctx, n // 4), double_cases(ctx, n // 4), temporal_cases(ctx, max(20, n // 20)), bool_cases(ctx)]
    k = 0
    for c in itertools.chain(*pools):
        if c["val"] is not None and c["val"].get("t") == "obj":
            continue
        k += 1
        c2 = dict(c)
        c2["ambient"] = dict(AMBIENT_FIXED[k % len(AMBIENT_FIXED)]) if k % 3 == 0 else gen_ambient(rng)
        a = c2["ambient"]
        ctx.hit("ambient:prec=%s" % a.get("prec", "stock"))
        if "rounding" in a:
            ctx.hit("ambient:rounding")
        if "traps" in a:
            ctx.hit("ambient:traps")
        if "Emin" in a or "Emax" in a:
            ctx.hit("ambient:exponent-range")
        yield c2


def param_kind_cases(ctx, n):
    """A numeric PARAMETER of a cast — the maximum length of VARCHAR[n] / BLOB[n], the precision and the scale of DECIMAL(p, s) —
    given as another kind of number than a Python int: numpy integer scalars of every width, bool, an int subclass, an object with
    `__index__`, a 0-d integer array; integral floats, Decimals, Fractions, numpy.bool_.  The statement quantifies over "all lengths
    n>=1" and "all (precision, scale)": which class the whole number is an instance of is not part of it.  Where the unchanged tree
    takes the kind as the whole number it is (every `__index__` kind as a length, every kind as precision / scale: read through
    int()) the case means what the same case with Python ints means — same expected value, same model answer; where its slice
    raises TypeError (float / Decimal / numpy.bool_ lengths) the clause is "the longest prefix within it, or raises"."""
    rng = ctx.rng
    kinds = ("int",) + INDEX_KINDS + INT_ONLY_KINDS + LOOSE_KINDS

    def with_kind(c, **nk):
        c["numkind"] = nk
        if not numkind_modelled(c):
            c["may_raise"] = True
        for key, kind in nk.items():
            ctx.hit("param-kind:%s=%s" % (key, kind))
        return c

    texts = ["hello world", "h\u00e9llo w\u00f6rld \U0001f600!", "\u65e5\u672c\u8a9e\u30c6\u30ad\u30b9\u30c8", "ab", "", "a" * 300, "\U0001f600" * 5, "x\x00y\x00z"]
    for kind in kinds:
        for s_ in texts:
            for k in (0, 1, 2, 3, 5, len(s_), len(s_) + 1, 127, 255, 256):
                if not num_kind_fits(kind, k):
                    continue
                want = s_ if not k else s_[:k]
                b_ = s_.encode("utf-8")
                wb = b_ if not k else b_[:k]
                yield with_kind(case(["VARCHAR", k], s_, "text: longest prefix within the length", want), length=kind)
                yield with_kind(case(["VARCHAR", k], b_, "text: longest prefix within the length (bytes)", want), length=kind)
                yield with_kind(case(["BLOB", k], b_, "binary: longest prefix within the length", wb), length=kind)
                yield with_kind(case(["BLOB", k], s_, "binary: longest prefix within the length (text)", wb), length=kind)
        for v in (1234567, -5, True, 1.5):  # other values: no clause but class / totality, compared with the model
            if num_kind_fits(kind, 2):
                yield with_kind(case(["VARCHAR", 2], v), length=kind)
                yield with_kind(case(["BLOB", 2], v), length=kind)
    for _ in range(n):
        kind = rng.choice(kinds)
        s_ = gen_text(rng, rng.choice([3, 12, 40]))
        k = rng.choice([1, 1, 2, 3, 5, 8, 13, 40, 0])
        if not num_kind_fits(kind, k):
            k = 1
        lim = (lambda x: x) if not k else (lambda x, k=k: x[:k])
        b_ = s_.encode("utf-8")
        yield with_kind(case(["VARCHAR", k], s_, "text: longest prefix within the length", lim(s_)), length=kind)
        yield with_kind(case(["VARCHAR", k], b_, "text: longest prefix within the length (bytes)", lim(s_)), length=kind)
        yield with_kind(case(["BLOB", k], b_, "binary: longest prefix within the length", lim(b_)), length=kind)
        yield with_kind(case(["BLOB", k], s_, "binary: longest prefix within the length (text)", lim(b_)), length=kind)
    # DECIMAL(p, s): precision and scale each as another kind of number
    g = [(1, 0), (1, 1), (5, 2), (5, 3), (10, 3), (9, 9), (20, 10), (28, 28), (29, 28), (38, 0), (38, 21), (38, 28), (38, 38), (2, 1), (3, 0)]
    for (p_, s_) in g + rng.sample([(p, s) for p in range(1, 39) for s in range(0, p + 1)], ctx.scale(10, 60)):
        ty = ["DECIMAL", p_, s_]
        pk = [k_ for k_ in kinds if num_kind_fits(k_, p_)]
        sk = [k_ for k_ in kinds if num_kind_fits(k_, s_)]
        for j in range(ctx.scale(6, 16)):
            a, b = rng.choice(pk), rng.choice(sk)
            if j % 3 == 0:
                a = "int"
            elif j % 3 == 1:
                b = "int"
            if a == "int" and b == "int":
                a = rng.choice(pk)
            d = gen_decimal_fitting(rng, p_, s_)
            if fits(d, p_, s_) and s_ <= 28:
                yield with_kind(case(ty, d, "decimal: identity on a typed value", d), precision=a, scale=b)
                txt = str(d)
                yield with_kind(case(ty, rng.choice([txt, txt.encode(), pad(rng, txt), format(d, "f")]), "decimal: exact when it fits", d), precision=a, scale=b)
            else:
                yield with_kind(case(ty, d), precision=a, scale=b)
                yield with_kind(case(ty, str(d)), precision=a, scale=b)
            x = D(rng.randrange(10**rng.randint(1, 45))).scaleb(-rng.randint(0, 45), decimal.Context(prec=99))
            yield with_kind(case(ty, str(x)), precision=a, scale=b)  # rounding / not fitting: the model's answer
    for kind in kinds:  # the documented example, every kind on both parameters
        if num_kind_fits(kind, 5) and num_kind_fits(kind, 3):
            yield with_kind(case(["DECIMAL", 5, 3], "12.345", "decimal: exact when it fits", D("12.345")), precision=kind, scale=kind)
            yield with_kind(case(["DECIMAL", 5, 3], "1.23456"), precision=kind, scale=kind)


# values that compare equal (and hash equal) across classes, and their look-alikes: an ARRAY cast is element-wise, so element i of
# the result is the cast of element i alone — never of an equal element seen earlier in the same array
EQUAL_GROUPS = [
    [1, 1.0, True, "1", "1.0", "true", "True"],
    [0, 0.0, -0.0, False, "0", "0.0", "-0.0", "false", ""],
    [2, 2.0, "2", "2.0"],
    [-1, -1.0, "-1", "-1.0"],
    [1000, 1000.0, 1e3, "1000", "1e3", "1000.0"],
    [2**53, 2.0**53, 2**53 + 1, float(2**53 + 1)],
    [10**16, 1e16, "1e16", "1e+16", "10000000000000000"],
    [0.5, "0.5", 0.1, "0.1", 0.30000000000000004, 0.3],
    [2**63 - 1, 2.0**63, -(2**63), -(2.0**63)],
]


def mixed_class_arrays(ctx, n):
    """Arrays whose elements compare equal across classes (1 == 1.0 == True, 0 == 0.0 == -0.0 == False, 2**53 == 2.0**53), repeated
    elements, and nulls between them — as JSON text, JSON bytes, padded JSON text, a list, a tuple — cast to the element types that
    tell the classes apart.  No expected value is written down: the clause is `element-wise` itself, on the implementation's own
    outputs (oracle `elementwise`: result[i] is the element type's cast of element i, cast on its own)."""
    rng = ctx.rng
    ets = ["VARCHAR", "BLOB", "DOUBLE", "INTEGER", "BOOLEAN", "DECIMAL"]

    def forms(xs, native_only=False):
        out = [("list", list(xs)), ("tuple", tuple(xs))]
        if not native_only:
            t = json.dumps(xs)
            out += [("json-text", t), ("json-bytes", t.encode("utf-8")), ("json-text-padded", pad(rng, json.dumps(xs, separators=(rng.choice([",", " , "]), ":"))))]
        return out

    def emit(xs, et, native_only=False, pick=None):
        fs = forms(xs, native_only)
        if pick is not None:
            fs = [fs[pick % len(fs)]]
        for form, v in fs:
            ctx.hit("mixed-class-array:" + form)
            ctx.hit("mixed-class-array-of:" + et)
            yield {"ty": ["ARRAY", [et]], "val": tag(v)}

    # exhaustive small scope: every ordered pair and triple of the first two groups' numbers, every form, every element type
    small = [1, 1.0, True, 0, 0.0, -0.0, False, None]
    for a in small:
        for b in small:
            for et in ets:
                for c in emit([a, b], et):
                    yield c
    for g in EQUAL_GROUPS:
        for i in range(len(g)):
            for j in range(len(g)):
                if i != j:
                    for et in ets:
                        for c in emit([g[i], g[j], g[i]], et, pick=rng.randrange(5)):
                            yield c
    # natively only: Decimal('1') == 1, 'a' / b'a' never equal, NaN never equal to itself, -0.0, big ints
    nan = float("nan")
    for xs in ([D("1"), 1, 1.0, True], [1, D("1.0"), D("1.00")], [D("0"), 0, -0.0, D("-0")], ["a", b"a", "a"], [b"1", "1", 1, 1.0], [nan, nan, 1.0, nan], [nan, 0.0, -0.0],
               [2**64, 2.0**64, 2**64], [1, None, 1.0, None, True], [True, 1, 1.0], [1.0, 1, True], [False, 0, 0.0, -0.0], [-0.0, 0.0, 0, False]):
        for et in ets:
            for c in emit(xs, et, native_only=True):
                yield c
    for _ in range(n):
        et = rng.choice(ets)
        k = rng.choice([2, 3, 3, 4, 6, 9])
        groups = rng.sample(EQUAL_GROUPS, rng.choice([1, 1, 2]))
        pool = [x for g in groups for x in g]
        xs = [None if rng.random() < 0.12 else rng.choice(pool) for _ in range(k)]
        if rng.random() < 0.4 and xs:
            xs.append(xs[rng.randrange(len(xs))])  # a repeated element
        for c in emit(xs, et, pick=rng.randrange(5)):
            yield c


def array_cases(ctx, n):
    import orjson

    rng = ctx.rng

    def elems(et):
        return array_elems(rng, et, rng.choice([0, 1, 2, 3, 5, 9]))

    for _ in range(n):
        et = rng.choice(["INTEGER", "DOUBLE", "BOOLEAN", "VARCHAR", "BLOB", "DATE", "TIMESTAMP"])
        es = elems(et)
        js = orjson.dumps([e[0] for e in es])
        want = [e[1] for e in es]
        r = rng.random()
        src = js if r < 0.4 else js.decode("utf-8")
        yield {"ty": ["ARRAY", [et]], "val": tag(src), "clause": "JSON array element-wise, nulls kept", "expect": tag(want)}
        if r < 0.3:
            yield {"ty": ["ARRAY", [et]], "val": tag([e[1] for e in es]), "clause": "array of typed values: identity", "expect": tag(want)}
            yield {"ty": ["ARRAY", [et]], "val": tag(tuple(e[0] for e in es)), "clause": "array element-wise, nulls kept", "expect": tag(want)}
        if r > 0.9:
            yield {"ty": ["ARRAY", None], "val": tag(tuple(e[0] for e in es))}
        if 0.3 <= r < 0.6 and es:
            # each element on its own either already typed or a rendering (text / UTF-8 bytes) of the value:
            # the first elements say nothing about the later ones
            def rend(e):
                if e[1] is None:
                    return None
                k = rng.randrange(3)
                if k == 0 or et in ("VARCHAR", "BLOB") and k == 2:
                    return e[1]
                t_ = e[0] if isinstance(e[0], str) else (repr(e[0]) if isinstance(e[0], float) else str(e[0]))
                return t_ if k == 1 else t_.encode("utf-8")
            mixed = [rend(e) for e in es]
            if et == "VARCHAR":
                mixed = [x.encode("utf-8") if (x is not None and rng.random() < 0.3) else x for x in mixed]
            first_typed = [es[0][1]] + mixed[1:] if rng.random() < 0.5 else mixed
            yield {"ty": ["ARRAY", [et]], "val": tag(first_typed if rng.random() < 0.7 else tuple(first_typed)),
                   "clause": "array element-wise (typed values and renderings mixed), nulls kept", "expect": tag(want)}
    for src in ["5", "null", '{"a":1}', '"abc"', "x", "", "[", "[[1],[2]]", "[1,2", "true", "[1.5]", '["x"]', b"\xff"]:
        for et in (None, ["INTEGER"], ["VARCHAR"], ["DOUBLE"]):
            yield {"ty": ["ARRAY", et], "val": tag(src)}
    # integers beyond orjson's 64-bit range (json.dumps renders them; orjson.loads reads them as doubles)
    for big in [2**64, 2**64 + 1, -(2**63) - 1, 10**30 + 7]:
        yield {"ty": ["ARRAY", ["INTEGER"]], "val": tag("[%d]" % big), "clause": "JSON array element-wise, nulls kept", "expect": tag([big])}


def default_one(ctx, tyname, v, ty):
    """One FlatColumn(type=tyname, default=v): the stored default is the column type's cast of `v` (schema.py casts a truthy
    default with `self.type.parse(default)`, no options) — same value, same class — or the constructor raises when the cast does."""
    got = run_column({"column": tyname, "val": tag(v)})
    want = run_impl({"ty": ty, "val": tag(v)})
    ctx.case({"default": tyname, "val": tag(v)}, True)
    ctx.hit("column-default")
    ctx.hit("column-default:%s<-%s" % (tyname, type(v).__name__))
    clause = None
    if got[0] == "ok" and got[1] is not None and not class_ok(tyname.split("<")[0], got[1]):
        clause = "column default: the stored default has another class than the column type's"
    elif got[0] != want[0] or (got[0] == "ok" and not same(got[1], want[1])):
        clause = "column default is not the cast of the given default"
    if clause is not None:
        ctx.fail({"ty": ty, "val": tag(v), "default": tyname}, clause, impl=[got[0], repr(got[1])[:200]], model=[want[0], repr(want[1])[:200]],
                 detail="FlatColumn(type=%r, default=%r).default is a %s; %s.parse(default) gives %r" % (tyname, v, type(got[1]).__name__, tyname.split("<")[0], want[1]))


def default_cases(ctx):
    """FlatColumn(default=...) goes through the same cast (truthy defaults only: falsy ones are not cast, an observation).
    Every value type's column is given defaults of *every* class: its own, subclasses of it (bool for int, datetime for
    date), renderings (text, bytes), and values of the other types."""
    dd, dt = datetime.date(2023, 4, 18), datetime.datetime(2023, 4, 18, 12, 34, 56)
    values = [True, 1, 7, -3, 2**70, 1.5, 2.0, "12", b"12", " 12 ", "1.5", "yes", "abc", b"abc", "h\u00e9", dd, dt, "2023-04-18", "2023-04-18T12:34:56", b"2023-04-18 12:34:56.25",
              D("1.5"), D("2"), D("1E+2"), "1.50"]
    for tyname in SCALARS:
        ty = ty_of(tyname)
        for v in values:
            default_one(ctx, tyname, v, ty)
    for v in ["[1, null, 3]", b'["a", null]', (1, 2), [None, "x"], ["2023-04-18"]]:
        default_one(ctx, "ARRAY<VARCHAR>", v, ["ARRAY", None])


def sequence_cases(ctx, n):
    """Sequences of casts in one process.  The statement gives the value of every cast from its input and
    options alone, so whatever was cast before — the same rendering (and its result edited by the caller),
    the same rendering under other options / another type, hash-equal values — must not matter."""
    import orjson

    rng = ctx.rng

    def again(c, kind):
        return [dict(c, then="edit", kind=kind), dict(c)]

    for _ in range(n):
        r = rng.random()
        if r < 0.22:
            # use -> edit the result -> use again, arrays from every rendering (text, bytes, list, tuple)
            et = rng.choice(["INTEGER", "DOUBLE", "BOOLEAN", "VARCHAR", "BLOB", "DATE", "TIMESTAMP"])
            es = array_elems(rng, et, rng.choice([1, 2, 3, 5]))
            js = orjson.dumps([e[0] for e in es])
            want = [e[1] for e in es]
            src = rng.choice([js, js.decode("utf-8"), [e[1] for e in es], tuple(e[0] for e in es)])
            typed = rng.random() < 0.8
            c = {"ty": ["ARRAY", [et] if typed else None], "val": tag(src)}
            if typed:
                c.update(clause="JSON array element-wise, nulls kept" if isinstance(src, (str, bytes)) else "array element-wise, nulls kept", expect=tag(want))
            seq = again(c, "use, edit the result, use again")
            if rng.random() < 0.5:  # the other rendering of the same array in between / afterwards
                other = js.decode("utf-8") if isinstance(src, bytes) else js
                c2 = dict(c, val=tag(other))
                if typed:
                    c2["clause"] = "JSON array element-wise, nulls kept"
                seq = [seq[0], dict(c2, then="edit"), seq[1], c2]
            yield seq
        elif r < 0.4:
            # one text, many lengths (and both types, both renderings)
            s = gen_text(rng, rng.choice([3, 6, 12]))
            ks = [None, 0, 1, 2, 3, max(1, len(s) - 1), len(s), len(s) + 1]
            rng.shuffle(ks)
            seq = []
            for k in ks[: rng.randint(3, 8)]:
                lim = (lambda x: x) if not k else (lambda x, k=k: x[:k])
                which = rng.randrange(4)
                if which == 0:
                    seq.append(case(["VARCHAR", k], s, "text: longest prefix within the length", lim(s)))
                elif which == 1:
                    seq.append(case(["VARCHAR", k], s.encode("utf-8"), "text: longest prefix within the length", lim(s)))
                elif which == 2:
                    seq.append(case(["BLOB", k], s.encode("utf-8"), "binary: longest prefix within the length", lim(s.encode("utf-8"))))
                else:
                    seq.append(case(["BLOB", k], s, "binary: longest prefix within the length", lim(s.encode("utf-8"))))
            seq[0]["kind"] = "one text under several lengths"
            yield seq
        elif r < 0.6:
            # one decimal rendering under many (precision, scale): fitting ones are exact, the others only typed
            s0 = rng.choice([0, 1, 2, 3, 5])
            nd = rng.randint(1, 9)
            d = D((rng.randint(0, 1), tuple(int(ch) for ch in str(rng.randrange(10 ** (nd - 1), 10**nd))), -s0))
            rend = rng.choice([str(d), str(d).encode(), d, pad(rng, str(d))])
            pss = [(p_, s_) for p_ in (1, 2, 4, 5, 9, 10, 18, 28, 29, 38) for s_ in (0, 1, 2, 3, 5, 9, 21, 28, 29, 38) if s_ <= p_]
            seq = []
            for (p_, s_) in rng.sample(pss, rng.randint(3, 7)):
                if fits(d, p_, s_) and s_ <= 28:
                    seq.append(case(["DECIMAL", p_, s_], rend, "decimal: exact when it fits", d))
                else:
                    seq.append(case(["DECIMAL", p_, s_], rend))
            if rng.random() < 0.3:
                seq.append(case(["DECIMAL", None, None], rend, "decimal: exact when it fits", d))
            seq[0]["kind"] = "one decimal rendering under several (precision, scale)"
            yield seq
        elif r < 0.75:
            # one JSON text under several element types
            kind = rng.choice(["floats", "ints", "dates", "words"])
            if kind == "floats":
                fs = [gen_float(rng) for _ in range(rng.randint(1, 4))]
                fs = [0.5 if (f != f or f in (float("inf"), float("-inf"))) else f for f in fs]
                items = [repr(f) for f in fs]
                exp = {"DOUBLE": fs, "VARCHAR": items, "BLOB": [x.encode() for x in items]}
            elif kind == "ints":
                ns = [gen_int(rng) % 10**30 for _ in range(rng.randint(1, 4))]
                items = [str(k) for k in ns]
                exp = {"INTEGER": ns, "VARCHAR": items, "BLOB": [x.encode() for x in items]}
            elif kind == "dates":
                ds = [datetime.date(*rand_dt(rng)[:3]) for _ in range(rng.randint(1, 3))]
                items = [x.isoformat() for x in ds]
                exp = {"DATE": ds, "VARCHAR": items, "BLOB": [x.encode() for x in items], "TIMESTAMP": None}
            else:
                items = [rng.choice(["true", "yes", "on", "1", "1.0", "t", "y", "True", "False"]) for _ in range(rng.randint(1, 4))]
                exp = {"BOOLEAN": [w.upper() in ("TRUE", "YES", "ON", "1", "1.0", "T", "Y") for w in items], "VARCHAR": items, "BLOB": [x.encode() for x in items]}
            pos = rng.randrange(len(items) + 1)
            vals = items[:pos] + [None] + items[pos:]
            txt = orjson.dumps(vals)
            src = txt if rng.random() < 0.5 else txt.decode("utf-8")
            ets = list(exp)
            rng.shuffle(ets)
            seq = []
            for et in ets:
                e = exp[et]
                c = {"ty": ["ARRAY", [et]], "val": tag(src)}
                if e is not None:
                    c.update(clause="JSON array element-wise, nulls kept", expect=tag(e[:pos] + [None] + e[pos:]))
                if rng.random() < 0.5:
                    c["then"] = "edit"
                seq.append(c)
            seq.append(dict(seq[0]))
            seq[-1].pop("then", None)
            seq[0]["kind"] = "one JSON text under several element types"
            yield seq
        elif r < 0.9:
            # one text under several types
            txt, exp = rng.choice([
                ("1", [(["BOOLEAN"], True, "documented truthy word"), (["INTEGER"], 1, "integer rendering"), (["VARCHAR", None], "1", "text: longest prefix within the length"),
                       (["BLOB", None], b"1", "binary: longest prefix within the length"), (["DECIMAL", 5, 2], D("1"), "decimal: exact when it fits"), (["DOUBLE"], None, None)]),
                ("1.0", [(["BOOLEAN"], True, "documented truthy word"), (["DOUBLE"], 1.0, "float rendering (repr)"), (["VARCHAR", 2], "1.", "text: longest prefix within the length"),
                         (["BLOB", 1], b"1", "binary: longest prefix within the length"), (["DECIMAL", 5, 2], D("1.0"), "decimal: exact when it fits"), (["INTEGER"], None, None)]),
                ("2024-02-29", [(["DATE"], datetime.date(2024, 2, 29), "date rendering"), (["VARCHAR", 4], "2024", "text: longest prefix within the length"),
                                (["BLOB", None], b"2024-02-29", "binary: longest prefix within the length"), (["TIMESTAMP"], None, None), (["BOOLEAN"], None, None)]),
                ("True", [(["BOOLEAN"], True, "boolean rendering"), (["VARCHAR", None], "True", "text: longest prefix within the length"), (["INTEGER"], None, None), (["DECIMAL", 5, 2], None, None)]),
                ("[1, 2]", [(["ARRAY", ["INTEGER"]], [1, 2], "JSON array element-wise, nulls kept"), (["VARCHAR", None], "[1, 2]", "text: longest prefix within the length"),
                            (["ARRAY", ["DOUBLE"]], None, None), (["BLOB", 3], b"[1,", "binary: longest prefix within the length")]),
            ])
            exp = list(exp)
            rng.shuffle(exp)
            as_bytes = rng.random() < 0.4
            seq = []
            for ty, want, clause in exp + exp[:2]:
                v = txt.encode() if as_bytes else txt
                c = case(ty, v, clause, want) if clause else case(ty, v)
                if rng.random() < 0.3:
                    c["then"] = "edit"
                seq.append(c)
            seq[0]["kind"] = "one text under several types"
            yield seq
        else:
            # values that are equal and hash alike (1 == 1.0 == True == Decimal(1); 0 == 0.0 == -0.0 == False)
            group = rng.choice([[1, 1.0, True, D(1), D("1.0")], [0, 0.0, -0.0, False, D(0), D("-0")]])
            seq = []
            for _ in range(rng.randint(3, 8)):
                v = rng.choice(group)
                ty = rng.choice([["VARCHAR", None], ["BLOB", None], ["BOOLEAN"], ["INTEGER"], ["DOUBLE"], ["DECIMAL", 5, 2]])
                seq.append(case(ty, v, "identity on a typed value", v) if (ty[0], type(v)) in (("INTEGER", int), ("DOUBLE", float), ("BOOLEAN", bool), ("DECIMAL", D)) else case(ty, v))
            seq[0]["kind"] = "equal values of different classes"
            yield seq
    # the column-default call site, twice with the same default (schema.py:203-210 casts without the column's options)
    for col, v, ty, want in [("ARRAY<INTEGER>", "[1, null, 3]", ["ARRAY", None], [1, None, 3]), ("ARRAY<VARCHAR>", b'["a", null]', ["ARRAY", None], ["a", None]),
                             ("ARRAY<INTEGER>", (1, 2), ["ARRAY", None], [1, 2]), ("INTEGER", "12", ["INTEGER"], 12), ("VARCHAR", "abc", ["VARCHAR", None], "abc")]:
        c = {"ty": ty, "val": tag(v), "column": col, "clause": "column default is the cast of the given default", "expect": tag(want)}
        d = {k_: v_ for k_, v_ in c.items() if k_ != "column"}
        yield [dict(c, then="edit", kind="two columns with the same default"), dict(c), dict(d, then="edit"), dict(c), d]


def array_elems(rng, et, k):
    """k (json value, expected cast) pairs for element type `et`, nulls included."""
    out = []
    for _ in range(k):
        if rng.random() < 0.25:
            out.append((None, None))
            continue
        if et == "INTEGER":
            v = rng.choice([0, -1, 2**63 - 1, -(2**63), 2**64 - 1, rng.randint(-10**6, 10**6), rng.getrandbits(64)])
            out.append((v, v))
        elif et == "DOUBLE":
            f = gen_float(rng)
            if f != f or f in (float("inf"), float("-inf")):
                f = 0.5
            out.append((f, f))
        elif et == "BOOLEAN":
            b = rng.random() < 0.5
            out.append((b, b))
        elif et == "VARCHAR":
            s = gen_text(rng)
            out.append((s, s))
        elif et == "BLOB":
            s = gen_text(rng)
            out.append((s, s.encode("utf-8")))
        elif et == "DATE":
            y, m, d = rand_dt(rng)[:3]
            out.append((datetime.date(y, m, d).isoformat(), datetime.date(y, m, d)))
        elif et == "TIMESTAMP":
            f = rand_dt(rng)
            dt = datetime.datetime(*f)
            out.append((dt.isoformat(), dt.replace(microsecond=0)))
    return out


def seq_batches(ctx, it, size=400):
    buf = []
    for sq in it:
        buf.append(sq)
        if len(buf) >= size:
            evaluate_seqs(ctx, buf)
            buf = []
            if ctx.time_left() < 5:
                ctx.note("stopped_early", "time budget")
                return
    evaluate_seqs(ctx, buf)


def batches(ctx, it, size=3000):
    buf = []
    for c in it:
        buf.append(c)
        if len(buf) >= size:
            evaluate(ctx, buf)
            buf = []
            if ctx.time_left() < 5:
                ctx.note("stopped_early", "time budget")
                return
    evaluate(ctx, buf)


def grid(ctx):
    rng = ctx.rng
    full = [(p, s) for p in range(0, 39) for s in range(0, p + 1)]
    if ctx.tier == "thorough":
        return full
    edge = [(0, 0), (1, 0), (1, 1), (2, 2), (5, 2), (28, 28), (29, 28), (29, 29), (30, 29), (38, 0), (38, 21), (38, 28), (38, 29), (38, 38), (10, 3), (4, 3)]
    return edge + rng.sample(full, 60)


def run(ctx):
    ctx.note("rule", "one case = one (type, parameters, input value) triple given to OrsoTypes.<T>.parse; distinct by canonical JSON; "
             "all counted cases are non-trivial (null cases are 30 of them)")
    ctx.note("assumptions", [
        "PARAMETER float(repr(f)) == f (CPython shortest repr / correctly rounded float()): not proved; sampled on >= 10^5 random bit patterns per run "
        "incl. subnormals, and exercised through DOUBLE.parse(repr(f)) on every generated float",
        "orjson.loads / orjson.dumps, str.upper / str.isdigit / str.strip outside ASCII, and the decimal context's Emax/Emin are parameters of the model; "
        "inputs outside the modelled domain are checked by the oracle only",
        "integers are rendered with str(): CPython limits int<->str to 4300 digits, which bounds 'integers of any size' in the harness (the theorem has the same bound)",
    ])
    ctx.exhaustive = False
    float_repr_sample(ctx, ctx.scale(100000, 1000000))
    ftable = float_text_param(ctx, ctx.scale(20000, 200000))
    json_mirror(ctx, ctx.scale(1500, 20000))
    default_cases(ctx)
    batches(ctx, null_cases(ctx))
    batches(ctx, bool_cases(ctx))
    batches(ctx, int_cases(ctx, ctx.scale(1500, 20000)))
    batches(ctx, double_cases(ctx, ctx.scale(3000, 40000)))
    batches(ctx, boundary_cases(ctx, ftable))
    batches(ctx, text_cases(ctx, ctx.scale(800, 10000)))
    batches(ctx, temporal_cases(ctx, ctx.scale(400, 5000)))
    batches(ctx, decimal_cases(ctx, grid(ctx), ctx.scale(6, 12)))
    batches(ctx, array_cases(ctx, ctx.scale(800, 10000)))
    batches(ctx, mixed_class_arrays(ctx, ctx.scale(600, 8000)))
    batches(ctx, param_kind_cases(ctx, ctx.scale(300, 4000)))
    batches(ctx, ambient_cases(ctx, ctx.scale(1200, 12000)))
    seq_batches(ctx, sequence_cases(ctx, ctx.scale(1200, 15000)))
    evaluate_threads(ctx, thread_pairs(ctx, ctx.scale(4, 150)), ctx.scale(4, 90), ctx.scale(4, 60))
    ctx.note("exhaustive_scope", "decimal (precision, scale) grid: %s" % ("all 780 pairs 0<=s<=p<=38" if ctx.tier == "thorough" else "16 boundary pairs + 60 sampled"))


def intensify(ctx):
    batches(ctx, decimal_cases(ctx, [(p, s) for p in range(0, 39) for s in range(0, p + 1)], 4))
    batches(ctx, int_cases(ctx, 5000))
    batches(ctx, ambient_cases(ctx, 6000))
    batches(ctx, text_cases(ctx, 3000))
    batches(ctx, array_cases(ctx, 3000))
    batches(ctx, mixed_class_arrays(ctx, 2000))
    batches(ctx, param_kind_cases(ctx, 1500))
    seq_batches(ctx, sequence_cases(ctx, 3000))
    evaluate_threads(ctx, thread_pairs(ctx, 60), 30, 30)


def replay(ctx, case):
    if "threads" in case:
        replay_threads(ctx, case)
        return
    if case.get("default"):
        if isinstance(case["default"], str):
            default_one(ctx, case["default"], py_val(case["val"]), case["ty"])
        else:
            default_cases(ctx)
        return
    if "seq" in case:
        evaluate_seqs(ctx, [case["seq"]])
        return
    evaluate(ctx, [case])
