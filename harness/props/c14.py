"""C14 — Histogram estimators are monotone, bounded and exact at the ends.

Two kinds of case:

* "hist": a C13 program (see c13.py) builds histograms on the real code; `count_at` is evaluated
  on a dense grid over [min, max] plus every bin centre, both ends and points outside, `quantile`
  on a dense grid of [0, 1] plus 0, 1 and points outside.  The query points are derived
  deterministically from the implementation's own state (`grid` points, plus `xs` / `qs` given
  explicitly), so a case replays exactly.
* "profile": an integer-valued column (with nulls) is profiled through `DataFrame.profile`;
  `estimate_values_below / above` are probed inside the observed range.
* "pseq": a sequence on profile *objects* — estimate, add (`+`, `TableProfile.__add__`), copy, estimate
  again — every round of estimates judged against the values the object really holds, and the same
  operations run on Model/ProfileEst.lean (the Distogram an estimate leaves on the object is part of
  the model's state).
* "tseq": a sequence on **table** profile registers — frames with different column sets and row counts are profiled
  through `DataFrame.profile`, added with `TableProfile.__add__` (placeholder for a column the right table lacks), and
  every numeric column a sum has is judged against the concatenated data (a missing column = nulls); the same
  operations run on Model/TableProf.lean.
* one-batch "profile" cases also assert numpy.histogram's contract (the hypothesis of C14.one_batch_profile_ok) on the
  data and compare the kept histogram with the model's comprehension (`C14 phist`).

Oracle = the property's clauses on the implementation's outputs (floats with relative tolerance
1e-9, the property's "up to rounding").  Correspondence = the same queries on
Model/Estimators.lean, fed the implementation's bins and bounds.
"""
import math
from fractions import Fraction

from .. import core, wire
from ..core import InfraError, shrink
from . import c13

TOL = Fraction(1, 10**9)


def exact(x):
    return None if x is None else c13.vexact(x)


def wv(mode, x):
    return None if x is None else c13.vwire(mode, x)


# --------------------------------------------------------------------------- query points


def grid_points(h, n, lo=None, hi=None):
    """Dense grid over [min, max], every centre, both ends, just inside/outside the ends.  `lo` / `hi`: the range
    the round is judged against (the true extremes of the inserted values when they are known) — by default
    what the histogram reports."""
    lo, hi = float(h.min if lo is None else lo), float(h.max if hi is None else hi)
    xs = {lo, hi}
    for i in range(n + 1):
        xs.add(lo + (hi - lo) * i / n)
    for v, _ in h.bins:
        v = float(v)
        xs.add(v)
        xs.add(v + abs(v) * 1e-12)
        xs.add(v - abs(v) * 1e-12)
    for v in [lo, hi] + [float(b[0]) for b in h.bins]:
        # exactly at, one float below and one float above every threshold of count_at (min, max, first / last / every centre)
        xs.add(math.nextafter(v, math.inf))
        xs.add(math.nextafter(v, -math.inf))
    w = (hi - lo) or max(abs(lo), 1.0)
    xs.update([lo - w * 0.5, hi + w * 0.25, lo - abs(lo) * 1e-9 - 1e-300, hi + abs(hi) * 1e-9 + 1e-300, lo + w * 1e-9, hi - w * 1e-9])
    return sorted(xs)


def level_points(n):
    qs = {0.0, 1.0, -0.1, 1.1, 1.0 + 1e-12, -1e-12, 0.5, 1e-9, 1 - 1e-9}
    for i in range(n + 1):
        qs.add(i / n)
    return sorted(qs)


def rank_levels(h):
    """Quantile levels whose integer rank int(total * q) sits exactly at, one below and one above the two thresholds of
    `quantile` (f0 / 2 and total - fl / 2 — integers when the first / last count is even), and at 0, 1, total - 1, total."""
    total = sum(int(f) for _, f in h.bins)
    f0, fl = int(h.bins[0][1]), int(h.bins[-1][1])
    if total <= 0:
        return []
    ranks = set()
    for t in (Fraction(f0, 2), total - Fraction(fl, 2)):
        for r in (math.floor(t) - 1, math.floor(t), math.ceil(t), math.ceil(t) + 1):
            ranks.add(r)
    ranks.update([0, 1, total - 1, total])
    qs = set()
    for r in ranks:
        if 0 <= r <= total:
            qs.add(min(1.0, (r + 0.5) / total) if r < total else 1.0)
            qs.add(r / total)
    return sorted(q for q in qs if 0.0 <= q <= 1.0)


def outside_levels(h):
    """Quantile levels just outside [0, 1]: within 1 / total of either end (where a guard applied to the truncated rank
    `int(total * q)` instead of the level would still answer), exactly 1 / total away, and one float below 0 / above 1."""
    total = sum(int(f) for _, f in h.bins)
    if total <= 0:
        return []
    out = [math.nextafter(0.0, -math.inf), math.nextafter(1.0, math.inf)]
    for k in (Fraction(1, 1000), Fraction(1, 2), Fraction(999, 1000), Fraction(1), Fraction(1001, 1000)):
        out.append(float(-k / total))
        out.append(float(1 + k / total))
    return [q for q in out if q < 0.0 or q > 1.0]


def count_branch(h, x, lo=None, hi=None):
    """Which branch of count_at answers the exact query point x (measured for the evidence)."""
    lo, hi = exact(h.min) if lo is None else lo, exact(h.max) if hi is None else hi
    if x < lo or x > hi:
        return "outside"
    if x == lo:
        return "at-min"
    if x == hi:
        return "at-max"
    if x <= exact(h.bins[0][0]):
        return "left-tail" + ("" if x < exact(h.bins[0][0]) else " (at the first centre)")
    if x >= exact(h.bins[-1][0]):
        return "right-tail" + ("" if x > exact(h.bins[-1][0]) else " (at the last centre)")
    return "interior" + (" (at a centre)" if any(exact(v) == x for v, _ in h.bins) else "")


def quantile_branch(h, q):
    if q < 0 or q > 1:
        total = sum(int(f) for _, f in h.bins)
        return "outside" + (" (within 1/total of [0, 1])" if total and (-1 < q * total < 0 or total < q * total < total + 1) else "")
    total = sum(int(f) for _, f in h.bins)
    r = int(total * q)  # Python's int() on the same product the code forms (exact in both modes for these sizes)
    f0, fl = int(h.bins[0][1]), int(h.bins[-1][1])
    if 2 * r <= f0:
        return "left" + (" (rank = f0/2 exactly)" if 2 * r == f0 else "")
    if 2 * r >= 2 * total - fl:
        return "right" + (" (rank = total - fl/2 exactly)" if 2 * r == 2 * total - fl else "")
    return "interior"


def to_query(mode, x):
    """A float query point -> the value handed to the implementation."""
    return Fraction(x) if mode == "q" else float(x)


def unordered_args():
    """Arguments that are not ordered with any number — every comparison with them is false: Python's and numpy's NaN,
    in the spellings a caller meets (a computed NaN has the sign bit set on x86: `-nan`).  The statement's "None outside
    [0, 1]" / "None outside the observed range" includes them: they are not members of the interval."""
    import numpy

    return [("float nan", float("nan")), ("-nan", -float("nan")), ("numpy.nan", numpy.nan), ("numpy.float64 nan", numpy.float64("nan")),
            ("numpy.float32 nan", numpy.float32("nan")), ("inf - inf", float("inf") - float("inf"))]


def check_unordered(D, h, res):
    """quantile / count_at at arguments that are not numbers, on a non-empty histogram: the answer is None — not an
    exception, not NaN.  Oracle only for the implementation (the wire has no NaN); the model's side is the pair of theorems
    C14.quantile_nan / C14.countAt_nan about the generated guards run at a carrier with NaN.  Returns (clause, detail) or None."""
    for name, v in unordered_args():
        for fname, f in (("quantile", D.quantile), ("count_at", D.count_at)):
            k = "%s branch: not a number (NaN)" % fname
            res.branches[k] = res.branches.get(k, 0) + 1
            try:
                r = f(h, v)
            except Exception as e:
                return "raised: %s raised %s at an argument that is not a number" % (fname, type(e).__name__), {"argument": name, "error": repr(e)[:200]}
            if r is not None:
                where = "[0, 1]" if fname == "quantile" else "the observed range"
                return "%s: not None outside %s" % (fname, where), {("q" if fname == "quantile" else "x"): name, "got": repr(r)[:60],
                                                                     "unordered": True}
    return None


# --------------------------------------------------------------------------- oracle

def left_values(lo, v0, f0, pts, flags):
    """For the open finding C14-K01: what count_at's left branch computes as it stands (`ratio * v0 / 2`) and what
    it is meant to compute (`ratio * f0 / 2`) at each of `pts` flagged as a left-tail point — in exact arithmetic."""
    lo, v0 = Fraction(lo), Fraction(v0)
    as_is, meant = [], []
    for x, left in zip(pts, flags):
        if left and v0 != lo:
            ratio = (Fraction(x) - lo) / (v0 - lo)
            as_is.append(float(ratio * v0 / 2))
            meant.append(float(ratio * f0 / 2))
        else:
            as_is.append(None)
            meant.append(None)
    return {"left_as_is": as_is, "left_meant": meant}



def check_count_at(mode, h, xs, rs, total, lo=None, hi=None):
    """xs sorted query points (exact), rs the implementation's results (exact or None); `lo`, `hi`, `total`: the range
    and the total the answers are judged against (default: what the histogram reports).

    Returns (clause, detail) or None.  Points of the left tail (min < x <= first centre) are
    judged separately (`left_tail: True` in the detail — open finding C14-K01) and never hide a
    failure elsewhere: the monotone chain of the other points skips them, and a failure outside
    the left tail is reported in preference."""
    lo, hi = exact(h.min) if lo is None else lo, exact(h.max) if hi is None else hi
    v0, f0 = exact(h.bins[0][0]), int(h.bins[0][1])
    tol = TOL * total
    in_left = lambda x: lo < x <= v0
    left_fail = None
    prev = None  # last point, left tail included
    prev_clean = None  # last point outside the left tail
    for x, r in zip(xs, rs):
        if x < lo or x > hi:
            if r is not None:
                return "count_at: not None outside the observed range", {"x": float(x), "got": float(r)}
            continue
        if r is None:
            return "count_at: None inside the observed range", {"x": float(x)}
        if x == lo and r != 0:
            return "count_at: not 0 at the minimum", {"x": float(x), "got": float(r)}
        if x == hi and lo < hi and abs(r - total) > tol:
            return "count_at: not the total at the maximum", {"x": float(x), "got": float(r), "total": float(total)}
        bad = None
        if r < -tol or r > total + tol:
            bad = ("count_at: estimate outside [0, total]", {"x": float(x), "got": float(r), "total": float(total)})
        if in_left(x):
            if bad is None and prev is not None and r < prev[1] - tol:
                bad = ("count_at: estimate decreases", {"x1": float(prev[0]), "r1": float(prev[1]), "x2": float(x), "r2": float(r),
                                                        "left_pts": [bool(in_left(prev[0])), True]})
            if bad is not None and left_fail is None:
                bad[1].update({"left_tail": True, "first_centre": float(v0), "first_count": f0})
                bad[1].setdefault("left_pts", [True])
                bad[1].update(left_values(lo, v0, f0, [prev[0], x] if "x1" in bad[1] else [x], bad[1]["left_pts"]))
                left_fail = bad
        else:
            if bad is not None:
                return bad
            if prev_clean is not None and r < prev_clean[1] - tol:
                return "count_at: estimate decreases", {"x1": float(prev_clean[0]), "r1": float(prev_clean[1]), "x2": float(x), "r2": float(r)}
            if left_fail is None and prev is not None and r < prev[1] - tol:
                # a drop from a left-tail point to the first point right of the first centre
                left_fail = ("count_at: estimate decreases", {"x1": float(prev[0]), "r1": float(prev[1]), "x2": float(x), "r2": float(r),
                                                              "left_tail": True, "first_centre": float(v0), "first_count": f0,
                                                              "left_pts": [bool(in_left(prev[0])), False]})
                left_fail[1].update(left_values(lo, v0, f0, [prev[0], x], left_fail[1]["left_pts"]))
            prev_clean = (x, r)
        prev = (x, r)
    return left_fail


def check_quantile(mode, h, qs, rs, lo=None, hi=None):
    lo, hi = exact(h.min) if lo is None else lo, exact(h.max) if hi is None else hi
    scale = max(abs(lo), abs(hi), Fraction(1, 10**300))
    tol = TOL * scale
    prev = None
    for q, r in zip(qs, rs):
        if q < 0 or q > 1:
            if r is not None:
                return "quantile: not None outside [0, 1]", {"q": float(q), "got": float(r)}
            continue
        if r is None:
            return "quantile: None inside [0, 1]", {"q": float(q)}
        if q == 0 and abs(r - lo) > tol:
            return "quantile: quantile(0) is not the minimum", {"got": float(r), "min": float(lo)}
        if q == 1 and abs(r - hi) > tol:
            return "quantile: quantile(1) is not the maximum", {"got": float(r), "max": float(hi)}
        if r < lo - tol or r > hi + tol:
            return "quantile: estimate outside [min, max]", {"q": float(q), "got": float(r), "min": float(lo), "max": float(hi)}
        if prev is not None and r < prev[1] - tol:
            return "quantile: estimate decreases", {"q1": float(prev[0]), "r1": float(prev[1]), "q2": float(q), "r2": float(r)}
        prev = (q, r)
    return None


def close(a, b, scale):
    if a is None or b is None:
        return a is None and b is None
    return abs(a - b) <= TOL * max(scale, abs(a), abs(b))


# --------------------------------------------------------------------------- running


def eval_hist(mode, D, h, xs_f, qs_f):
    """Evaluate the implementation on one histogram. Returns (xs, count results, qs, quantile results)."""
    xs = [to_query(mode, x) for x in xs_f]
    qs = [to_query(mode, q) for q in qs_f]
    cs, rs = [], []
    for x in xs:
        cs.append(exact(D.count_at(h, x)))
    for q in qs:
        rs.append(exact(D.quantile(h, q)))
    return xs, cs, qs, rs


def model_eval_line(mode, bins, mn, mx, xs, qs, count, missing=0):
    return "C14 eval " + wire.line(mode, [[wv(mode, v), wv(mode, f)] for v, f in bins], wv(mode, mn), wv(mode, mx),
                                   [wv(mode, x) for x in xs], [wv(mode, q) for q in qs], wv(mode, count), wv(mode, missing))


def dec_vals(mode, vals):
    out = []
    for v in vals:
        if v is None:
            out.append(None)
        elif mode == "q":
            out.append(Fraction(v[0], v[1]))
        else:
            out.append(Fraction(v))
    return out


class Res:
    pass


def all_rank_levels(h, limit=300):
    """Every integer rank of a small histogram (r / total and (r + 1/2) / total): the quantile estimate then visits every
    segment between two centres, so a centre outside the reported range cannot stay unseen."""
    total = sum(int(f) for _, f in h.bins)
    if total <= 0:
        return []
    ranks = range(total + 1) if total <= limit else list(range(limit // 2)) + list(range(total - limit // 2, total + 1))
    qs = set()
    for r in ranks:
        qs.add(r / total)
        if r < total:
            qs.add((r + 0.5) / total)
    return sorted(q for q in qs if 0.0 <= q <= 1.0)


def state_defect(mode, h):
    """Is what the histogram reports consistent with its bins?  (The precondition of every estimator clause — on the
    unchanged tree C13's theorems give it for every object update / + / bulkload / load return or leave behind.)
    Returns a description or None."""
    if not h.bins:
        return None
    if h.min is None or h.max is None:
        return "the histogram holds values but reports no %s" % ("minimum" if h.min is None else "maximum")
    lo, hi = exact(h.min), exact(h.max)
    cents = [exact(v) for v, _ in h.bins]
    if hi < lo:
        return "the reported maximum is below the reported minimum"
    if any(not a < b for a, b in zip(cents, cents[1:])):
        return "bin centres are not strictly increasing"
    if any(not int(f) > 0 for _, f in h.bins):
        return "a bin has a non-positive count"
    if cents[0] < lo or cents[-1] > hi:
        return "a bin centre lies outside the reported [min, max]"
    return None


def query_round(mode, D, h, case, res, reg, truth=None, every_rank=False, extra_xs=()):
    """One round of queries on a non-empty histogram object.  The answers are judged against `truth` = (lo, hi, total)
    — the true extremes and number of the values that went into the object, exact — when it is known, else against what
    the object reports.  Returns (bad, left_only): bad = (clause, detail) or None; left_only = the failure involves
    only count_at's left tail (open finding C14-K01).  Appends the model line to res.items when nothing failed hard."""
    if truth is not None:
        lo, hi, total = truth
    else:
        if h.min is None or h.max is None:
            return ("state: " + state_defect(mode, h), {"reg": reg, "bins": [[float(v), int(f)] for v, f in h.bins][:8]}), False
        lo, hi, total = exact(h.min), exact(h.max), Fraction(sum(int(f) for _, f in h.bins))
    lo_f, hi_f = float(lo), float(hi)
    xs_f = sorted(set(grid_points(h, case.get("grid", 16), lo_f, hi_f) + [float(x) for x in case.get("xs", [])] + [float(x) for x in extra_xs]))
    qs_f = sorted(set(level_points(case.get("levels", 16)) + rank_levels(h) + outside_levels(h) + (all_rank_levels(h) if every_rank else [])
                      + [float(q) for q in case.get("qs", [])]))
    told = {"judged_against": "the inserted values" if truth is not None else "what the histogram reports",
            "reported": [None if h.min is None else float(h.min), None if h.max is None else float(h.max), int(sum(int(f) for _, f in h.bins))]}
    try:
        xs, cs, qs, rs = eval_hist(mode, D, h, xs_f, qs_f)
    except Exception as e:
        d = {"error": repr(e)[:200], "reg": reg, "min": lo_f, "max": hi_f}
        d.update(told)
        return ("raised: estimator raised %s" % type(e).__name__, d), False
    exs = [Fraction(x) for x in xs]
    for x in exs:
        k = "count_at branch: " + count_branch(h, x, lo, hi)
        res.branches[k] = res.branches.get(k, 0) + 1
    for q in qs:
        k = "quantile branch: " + quantile_branch(h, Fraction(q))
        res.branches[k] = res.branches.get(k, 0) + 1
    bad_c = check_count_at(mode, h, exs, cs, total, lo, hi)
    bad_q = check_quantile(mode, h, [Fraction(q) for q in qs], rs, lo, hi)
    if bad_q is None:
        bad_q = check_unordered(D, h, res)
    left_only = bad_c is not None and bool(bad_c[1].get("left_tail")) and bad_q is None
    bad = bad_q if (bad_c is None or (bad_c[1].get("left_tail") and bad_q is not None)) else bad_c
    if bad is None:
        sd = state_defect(mode, h)
        if sd is not None:
            bad = ("state: " + sd, {})
    if bad is not None:
        bad[1]["reg"] = reg
        bad[1]["bins"] = [[float(v), int(f)] for v, f in h.bins][:8]
        bad[1]["min"], bad[1]["max"] = lo_f, hi_f
        bad[1].update(told)
        if not left_only:
            return bad, False
    if h.min is None or h.max is None:
        return bad, left_only
    line = model_eval_line(mode, [(v, int(f)) for v, f in h.bins], h.min, h.max, xs, qs, int(total))
    scale_q = max(abs(lo), abs(hi))
    # after dump() the bins are numpy.float128 and the model is fed their float64 roundings: a query within
    # rounding distance of the first centre (where the left tail as it exists jumps) may fall on the other side
    f128 = any(type(v).__name__ == "longdouble" for v, _ in h.bins)
    skip = set()
    if f128:
        tiny = Fraction(1, 10**300)
        cents = [exact(v) for v, _ in h.bins]
        inexact = [c for c in cents if Fraction(float(c)) != c]
        # two centres that coincide (or nearly) once rounded to float64: the model's input is no longer a
        # faithful image of the histogram -> the queries are judged by the oracle only
        if any(cents[i + 1] - cents[i] <= TOL * max(abs(cents[i]), abs(cents[i + 1]), tiny) for i in range(len(cents) - 1)):
            res.items_skipped = getattr(res, "items_skipped", 0) + 1
            return bad, left_only
        skip = {i for i, x in enumerate(exs) if any(abs(x - c) <= TOL * max(abs(c), tiny) for c in inexact)}
    res.items.append((reg, line, cs, rs, total, scale_q, xs, qs, skip))
    return bad, left_only


# --------------------------------------------------------------------------- values at the numeric limit of float64

MAXF = Fraction(1.7976931348623157e308)


def _finite(x):
    try:
        return math.isfinite(float(x))
    except (OverflowError, ValueError, TypeError):
        return False


def extreme_points(h, lo, hi):
    """Query points of a histogram whose values sit at the numeric limit of float64, formed WITHOUT a difference or a sum
    that can overflow (halves are taken before they are added): both ends, one float inside and outside each, the middle
    and the quarters of [min, max], zero, every finite centre with its two float neighbours, the middle of every pair of
    adjacent centres and of each end and its nearest centre."""
    cents = [float(v) for v, _ in h.bins if _finite(v)]
    mid = lo / 2 + hi / 2
    xs = {lo, hi, mid, lo / 2 + mid / 2, mid / 2 + hi / 2, 0.0}
    for v in [lo, hi] + cents:
        xs.update([v, math.nextafter(v, math.inf), math.nextafter(v, -math.inf)])
    for a, b in zip([lo] + cents, cents + [hi]):
        xs.add(a / 2 + b / 2)
    return sorted(x for x in xs if math.isfinite(x))


def limit_state(h, lo, hi, total):
    """None when the histogram object is a finite, consistent image of what went in (finite centres strictly increasing
    inside [min, max], positive counts adding up to the total, the reported bounds the true extremes) - else what is wrong."""
    if not all(_finite(v) for v, _ in h.bins):
        return "a bin centre is not a finite number"
    if not _finite(h.min) or not _finite(h.max):
        return "a reported bound is not a finite number"
    if exact(h.min) != lo or exact(h.max) != hi:
        return "the reported bounds are not the extremes of the inserted values"
    if sum(int(f) for _, f in h.bins) != total:
        return "the counts do not add up to the inserted weight"
    return state_defect("f", h)


def extreme_round(D, h, case, res, reg, truth):
    """One round of queries on a histogram built from values at the numeric limit of float64 (family hseq:limit-*): oracle
    only - the clauses of the statement on the implementation's answers, judged against the inserted values.  An answer
    that is NaN or infinite is reported before anything is converted to exact arithmetic.  Returns (bad, left_only)."""
    lo, hi, total = truth
    lo_f, hi_f = float(lo), float(hi)
    xs_f = extreme_points(h, lo_f, hi_f)
    qs_f = sorted(set(level_points(case.get("levels", 8)) + rank_levels(h) + outside_levels(h) + all_rank_levels(h, 40)))
    told = {"judged_against": "the inserted values", "reg": reg, "min": lo_f, "max": hi_f, "total": int(total),
            "bins": [[float(v), int(f)] for v, f in h.bins][:8],
            "reported": [None if h.min is None else float(h.min), None if h.max is None else float(h.max), int(sum(int(f) for _, f in h.bins))]}
    import warnings

    try:
        with warnings.catch_warnings():
            warnings.simplefilter("ignore")
            cs_raw = [D.count_at(h, x) for x in xs_f]
            rs_raw = [D.quantile(h, q) for q in qs_f]
    except Exception as e:
        d = {"error": repr(e)[:200]}
        d.update(told)
        return ("raised: estimator raised %s" % type(e).__name__, d), False
    res.branches["limit round: total x (max - min) %s the largest finite float" % ("exceeds" if total * (hi - lo) > MAXF else "is within")] = \
        res.branches.get("limit round: total x (max - min) %s the largest finite float" % ("exceeds" if total * (hi - lo) > MAXF else "is within"), 0) + 1
    bad = None
    for q, r in zip(qs_f, rs_raw):
        if r is not None and not _finite(r):
            r = float(r)
            bad = ("quantile: estimate is not a number" if r != r else "quantile: estimate outside [min, max]", {"q": q, "got": r, "non_finite": True})
            break
    if bad is None:
        for x, r in zip(xs_f, cs_raw):
            if r is not None and not _finite(r):
                r = float(r)
                bad = ("count_at: estimate is not a number" if r != r else "count_at: estimate outside [0, total]", {"x": x, "got": r, "non_finite": True})
                break
    left_only = False
    if bad is None:
        st = limit_state(h, lo, hi, total)
        if st is not None and not all(_finite(v) for v, _ in h.bins):
            bad = ("state: " + st, {})
    if bad is None:
        exs = [Fraction(x) for x in xs_f]
        for x in exs:
            k = "count_at branch: " + count_branch(h, x, lo, hi)
            res.branches[k] = res.branches.get(k, 0) + 1
        for q in qs_f:
            k = "quantile branch: " + quantile_branch(h, Fraction(q))
            res.branches[k] = res.branches.get(k, 0) + 1
        bad_c = check_count_at("f", h, exs, [exact(r) for r in cs_raw], total, lo, hi)
        bad_q = check_quantile("f", h, [Fraction(q) for q in qs_f], [exact(r) for r in rs_raw], lo, hi)
        if bad_q is None:
            bad_q = check_unordered(D, h, res)
        left_only = bad_c is not None and bool(bad_c[1].get("left_tail")) and bad_q is None
        bad = bad_q if (bad_c is None or (bad_c[1].get("left_tail") and bad_q is not None)) else bad_c
        if bad is None and st is not None:
            bad = ("state: " + st, {})
    if bad is not None:
        for k, v in told.items():
            bad[1].setdefault(k, v)
        bad[1]["state_ok"] = limit_state(h, lo, hi, total) is None
    return bad, left_only


def run_hist_case(case):
    """Returns Res with .fail (clause, detail) or None, and the model lines + expected values."""
    import numpy  # noqa

    mode = case["mode"]
    out = c13.run_impl({"mode": mode, "prog": case["prog"], "snap_every": 10**9})
    res = Res()
    res.fail = None
    res.items = []  # (reg, model line, impl count results, impl quantile results, scales)
    res.c13_failed = out.fail is not None
    res.c13_clause = out.fail[0] if out.fail else None
    res.branches = {}
    with c13.Patched(mode) as D:
        regs = case.get("regs")
        for r in sorted(out.hists):
            if regs is not None and r not in regs:
                continue
            h = out.hists[r]
            L = out.ledgers.get(r)
            if not h.bins:
                # empty histogram: both estimators are None everywhere
                got = [D.count_at(h, to_query(mode, 0.0)), D.quantile(h, to_query(mode, 0.5))]
                if any(g is not None for g in got):
                    res.fail = ("empty: estimator of an empty histogram is not None", {"got": repr(got)})
                    return res
                continue
            # the estimators are judged against the values that really went in (C13's ledger: exact extremes and weight);
            # after the bare merge() the bounds are only known to lie within the true range -> what the histogram reports
            truth = None
            if L is not None and not L.bare and L.weight > 0 and L.lo is not None:
                truth = (L.lo, L.hi, Fraction(L.weight))
            if res.c13_failed and truth is None:
                continue  # the histogram violates C13 and nothing independent is known about it: C13's report
            n_items = len(res.items)
            bad, left_only = query_round(mode, D, h, case, res, r, truth)
            if res.c13_failed:
                # the histogram itself violates C13 (that is C13's report); C14 reports what the *estimators* then do
                # against the inserted values — and nothing when they still satisfy every clause
                del res.items[n_items:]
                if bad is not None and not left_only and not bad[0].startswith("state:"):
                    bad[1]["c13_clause"] = res.c13_clause
                    res.fail = bad
                    return res
                continue
            if bad is not None and (res.fail is None or not left_only):
                res.fail = bad
                if not left_only:
                    return res
    return res


# --------------------------------------------------------------------------- sequences on histogram objects


class Truth:
    """What went into one histogram *object*, in exact arithmetic: extremes and number of the inserted values."""

    def __init__(self):
        self.lo = self.hi = None
        self.total = 0

    def put(self, v, c):
        v = exact(v)
        self.lo = v if self.lo is None or v < self.lo else self.lo
        self.hi = v if self.hi is None or v > self.hi else self.hi
        self.total += int(c)

    def absorb(self, o):
        if o.lo is not None:
            self.lo = o.lo if self.lo is None or o.lo < self.lo else self.lo
            self.hi = o.hi if self.hi is None or o.hi > self.hi else self.hi
        self.total += o.total

    def copy(self):
        t = Truth()
        t.lo, t.hi, t.total = self.lo, self.hi, self.total
        return t

    def triple(self):
        return (self.lo, self.hi, Fraction(self.total))


# Calls the source refuses (`["rej", r, what, a, b]`).  The values are built when the call is made: nothing is shared between cases.
REJ_VALUES = ("text", "complex", "object", "bytes", "dict", "empty-text")  # update(h, <this>): the cast refuses it
#   (a sequence is NOT refused: numpy.float64((1, 2)) is an array — garbage in, outside the property)
REJ_COUNTS = ("none", "text")  # update(h, v, <this>): `count <= 0` cannot be evaluated
REJ_OPERANDS = ("none", "int", "float", "text", "list", "dict")  # h + <this>
REJ_BULK = ("none", "int", "text", "text-array", "object-array")  # h.bulkload(<this>)


def rej_token(what, tok):
    import numpy

    if what == "value":
        return {"text": "abc", "complex": 1 + 2j, "object": object(), "bytes": b"x", "dict": {}, "empty-text": ""}[tok]
    if what == "cnt":
        return {"none": None, "text": "a"}[tok]
    if what == "add":
        return {"none": None, "int": 5, "float": 2.5, "text": "x", "list": [1, 2], "dict": {"bins": 1}}[tok]
    return {"none": None, "int": 5, "text": "abc", "text-array": numpy.array(["a", "b"]), "object-array": numpy.array([object(), object()], dtype=object)}[tok]


def refused_call(mode, D, h, what, a, b):
    """Makes the call, catches what it raises.  Returns (name of the exception or None, the numeric value involved or None)."""
    v = None
    try:
        if what == "count":
            v = c13.vin(mode, a)
            D.update(h, v, b)
        elif what == "value":
            D.update(h, rej_token(what, a), b)
        elif what == "cnt":
            v = c13.vin(mode, a)
            D.update(h, v, rej_token(what, b))
        elif what == "add":
            h + rej_token(what, a)
        elif what == "bulk":
            h.bulkload(rej_token(what, a))
        else:
            raise InfraError("bad refused call %r" % (what,))
    except InfraError:
        raise
    except Exception as e:
        return type(e).__name__, v
    return None, v


def run_hseq_case(case):
    if case.get("extreme"):
        # values at the numeric limit: numpy announces every overflow on stderr - the answers are judged, the warnings are noise
        import warnings

        with warnings.catch_warnings():
            warnings.simplefilter("ignore")
            return _run_hseq_case(case)
    return _run_hseq_case(case)


def _run_hseq_case(case):
    """A sequence on histogram *objects* (registers name objects; an object can have several names).

    `["new", r, cap]`, `["upd", r, v, c]` (plain `update()`), `["add", dst, a, b]` (`dst = a + b`; `a` and `b` keep naming
    the operand objects, which are queried again afterwards), `["q", r]` (a round of count_at / quantile queries),
    `["rej", r, what, a, b]` — a call the source REFUSES, the exception caught by the caller who carries on with the same
    object: `update` with a count of zero or below (`what = "count"`: value `a`, count `b`), with a value that is no number
    (`"value"`), with a count that cannot be compared (`"cnt"`), `h + <no histogram>` (`"add"`), `h.bulkload(<no array>)`
    (`"bulk"`).  A refused call inserts nothing: the values that went into the object — what every later round is judged
    against — are what they were, and the refused value joins the query points of every later round of that object.
    Every round is judged against the values that really went into the object — their true minimum, maximum and number,
    kept here, not read off the histogram — when that is known: for an object built by updates, and for the object a `+`
    returns.  An operand a `+` did not return is judged by what it reports itself (`min`, `max`, `count`) together with
    the consistency of those reports with its bins: whether `+` works in place or on a copy is the implementation's
    choice, that every object it leaves behind satisfies the property is not."""
    mode = case["mode"]
    res = Res()
    res.fail = None
    res.items = []
    res.c13_failed = False
    res.branches = {}
    res.hits = []
    mops, rounds = [], []
    mexp = {}  # position in mops -> what the implementation answered to that operation when it was not "ok": ["err", <exception>]
    probes = {}  # id(object) -> values of refused calls: query points of every later round
    left_fail = None
    with c13.Patched(mode) as D:
        objs = {}  # register -> object
        truth = {}  # id(object) -> Truth, or None when only the object's own reports are known
        keep = []  # every object stays alive: ids are not reused
        wide = set()  # ids of objects whose bins went through dump() in float mode (numpy.float128 centres): the model's own
        #               float64 object is no faithful image of them -> oracle and state-fed correspondence only
        for k, op in enumerate(case["prog"]):
            kind = op[0]
            try:
                if kind == "new":
                    h = D.Distogram(op[2])
                    keep.append(h)
                    objs[op[1]] = h
                    truth[id(h)] = Truth()
                    mops.append(["new", op[1], op[2]])
                elif kind == "upd":
                    h = objs[op[1]]
                    v = c13.vin(mode, op[2])
                    h2 = D.update(h, v, op[3])
                    if h2 is not h:
                        keep.append(h2)
                        truth[id(h2)] = truth.get(id(h))
                        objs[op[1]] = h2
                    if truth.get(id(h2)) is not None:
                        truth[id(h2)].put(v, op[3])
                    mops.append(["upd", op[1], c13.vwire(mode, v), c13.vwire(mode, op[3])])
                elif kind == "add":
                    a, b = objs[op[2]], objs[op[3]]
                    ta, tb = truth.get(id(a)), truth.get(id(b))
                    new = a + b
                    keep.append(new)
                    t = None
                    if ta is not None and tb is not None:
                        t = ta.copy()
                        t.absorb(tb)
                    if new is not a:
                        # the left operand is another object than the sum: what it holds now is its own business
                        truth[id(a)] = None
                        res.hits.append("hseq: + returned a new object")
                    else:
                        res.hits.append("hseq: + returned its left operand")
                    truth[id(new)] = t
                    objs[op[1]] = new
                    if id(a) in wide or id(b) in wide:
                        wide.update([id(new), id(a)])
                    mops.append(["add", op[1], op[2], op[3]])
                elif kind == "bulk":
                    h = objs[op[1]]
                    arr, tail, ins, lo_b, hi_b, path = c13.bulk_parts(mode, op[2], "f8" if op[3] == "list" else op[3], int(h._bin_count), c13.gen_const("distogram.bulk_factor", 5))
                    if op[3] == "list":
                        # a plain Python list instead of an array (C14-F03: the bins went in, then `values.min()` raised)
                        res.hits.append("hseq: bulkload of a plain list")
                        h.bulkload(arr.tolist())
                    else:
                        h.bulkload(arr)
                    if truth.get(id(h)) is not None:
                        for v in arr.tolist():
                            truth[id(h)].put(v, 1)
                    res.hits.append("hseq: bulkload (%s the direct-insert threshold)" % path)
                    mops.append([tail[0], op[1]] + tail[1:])
                elif kind == "dl":
                    src = objs[op[2]]
                    d = src.dump()
                    new = D.load(d["bins"], d["min"], d["max"])
                    keep.append(new)
                    truth[id(new)] = None if truth.get(id(src)) is None else truth[id(src)].copy()
                    objs[op[1]] = new
                    if mode == "f":
                        wide.update([id(new), id(src)])
                    res.hits.append("hseq: dump() + load()")
                    mops.append(["dl", op[1], op[2]])
                elif kind == "rej":
                    h = objs[op[1]]
                    err, v = refused_call(mode, D, h, op[2], op[3], op[4])
                    res.hits.append("hseq: refused call (%s%s) -> %s" % (op[2], "" if op[2] != "count" else ": count %s" % ("0" if op[4] == 0 else "< 0"),
                                                                    err or "ACCEPTED"))
                    if v is not None:
                        probes.setdefault(id(h), []).append(float(v))
                        t0 = truth.get(id(h))
                        res.hits.append("hseq: refused value %s" % ("on a histogram nothing was inserted into" if t0 is None or t0.lo is None else
                                                                   "inside the range of the inserted values" if t0.lo <= exact(v) <= t0.hi else
                                                                   "outside the range of the inserted values"))
                    if err is None:
                        # the implementation took what its contract refuses: nothing independent is known about the object any more
                        truth[id(h)] = None
                    if op[2] == "count":
                        mops.append(["upd", op[1], c13.vwire(mode, v), c13.vwire(mode, op[4])])
                        if err is not None:
                            mexp[len(mops) - 1] = ["err", err]
                elif kind == "q":
                    h = objs[op[1]]
                    t = truth.get(id(h))
                    if not h.bins:
                        got = [D.count_at(h, to_query(mode, 0.0)), D.quantile(h, to_query(mode, 0.5))]
                        if any(g is not None for g in got) or (t is not None and t.total != 0):
                            res.fail = ("empty: estimator of an empty histogram is not None" if t is None or t.total == 0 else
                                        "state: the histogram holds no bin although values were inserted", {"got": repr(got), "op": k})
                            return res
                        res.hits.append("hseq: round on an empty histogram")
                        continue
                    n_items = len(res.items)
                    tr = t.triple() if t is not None and t.total > 0 else None
                    res.hits.append("hseq: round judged against %s" % ("the inserted values" if tr is not None else "the object's own reports"))
                    if case.get("extreme"):
                        # values at the numeric limit of float64: oracle only, query points formed without overflow
                        if tr is None:
                            raise InfraError("a limit history must be judged against the inserted values")
                        bad, left_only = extreme_round(D, h, case, res, op[1], tr)
                    else:
                        bad, left_only = query_round(mode, D, h, case, res, op[1], tr, every_rank=True, extra_xs=probes.get(id(h), ()))
                    if bad is not None:
                        bad[1]["op"] = k
                        if probes.get(id(h)):
                            bad[1]["refused_values"] = probes[id(h)][:8]
                        if not left_only:
                            res.fail = bad
                            return res
                        left_fail = left_fail or bad
                    # the same round on the model's own object (Drv/C14.lean `hseq`): it ran the same operations from scratch
                    if id(h) in wide:
                        res.hits.append("hseq: round on an object with float128 centres (not compared with the model's own object)")
                    for it in ([] if id(h) in wide else res.items[n_items:]):
                        rounds.append((k, it))
                        mops.append(["q", op[1], [wv(mode, x) for x in it[6]], [wv(mode, q) for q in it[7]]])
                else:
                    raise InfraError("bad op %r" % (op,))
            except InfraError:
                raise
            except Exception as e:
                res.fail = ("raised: %s on a histogram raised %s" % ({"upd": "update()", "add": "+", "new": "Distogram()", "q": "an estimator", "dl": "dump() / load()", "bulk": "bulkload()", "rej": "a refused call"}.get(kind, kind), type(e).__name__),
                            {"error": repr(e)[:200], "op": k})
                return res
    res.fail = left_fail
    if rounds:
        res.hseq = ("C14 hseq " + wire.line(mode, mops), mops, rounds, mexp)
    return res


def valid_hseq(c):
    prog = c.get("prog")
    if c.get("mode") not in ("f", "q") or not isinstance(prog, list) or not prog or len(prog) > 400:
        return False
    regs = set()
    alias = {}  # register -> object number, under in-place `+` (what the unchanged tree does): a + a is never formed
    filled = set()  # object numbers that hold at least one value (dump() of an empty histogram raises by construction)
    n = 0
    for op in prog:
        if not isinstance(op, list) or not op:
            return False
        k = op[0]
        if k == "new":
            if len(op) != 3 or not all(isinstance(x, int) and not isinstance(x, bool) for x in op[1:]) or not (1 if c.get("extreme") else 2) <= op[2] <= 64 or not 0 <= op[1] < 32 or op[1] in regs:
                return False
            regs.add(op[1])
            alias[op[1]] = n
            n += 1
        elif k == "upd":
            if len(op) != 4 or op[1] not in regs or not isinstance(op[3], int) or isinstance(op[3], bool) or op[3] < 1 or not c13._valid_val(c["mode"], op[2]):
                return False
            filled.add(alias[op[1]])
        elif k == "bulk":
            if len(op) != 4 or op[1] not in regs or not isinstance(op[2], list) or not op[2] or len(op[2]) > 5000 or op[3] not in ("f8", "i8", "list"):
                return False
            if not all(c13._valid_val(c["mode"], v) for v in op[2]) or (c["mode"] == "q" and len(set(map(repr, op[2]))) > 2 * 5):
                return False
            if op[3] == "i8" and not all(float(Fraction(*v) if isinstance(v, list) else v).is_integer() for v in op[2]):
                return False
            filled.add(alias[op[1]])
        elif k == "dl":
            if len(op) != 3 or not all(isinstance(x, int) and not isinstance(x, bool) for x in op[1:]) or op[2] not in regs or not 0 <= op[1] < 32 \
                    or alias[op[2]] not in filled:
                return False
            regs.add(op[1])
            alias[op[1]] = n
            filled.add(n)
            n += 1
        elif k == "add":
            if len(op) != 4 or not all(isinstance(x, int) and not isinstance(x, bool) for x in op[1:]) or op[2] not in regs or op[3] not in regs or not 0 <= op[1] < 32:
                return False
            if alias[op[2]] == alias[op[3]]:
                return False
            if alias[op[3]] in filled:
                filled.add(alias[op[2]])
            regs.add(op[1])
            alias[op[1]] = alias[op[2]]
        elif k == "q":
            if len(op) != 2 or op[1] not in regs:
                return False
        elif k == "rej":
            if len(op) != 5 or op[1] not in regs:
                return False
            what, a, b = op[2:]
            if what == "count":
                if not c13._valid_val(c["mode"], a) or not isinstance(b, int) or isinstance(b, bool) or b > 0:
                    return False
            elif c["mode"] != "f":
                return False  # in exact mode the cast is the identity: a value that is no number is not refused by it
            elif what == "value":
                if a not in REJ_VALUES or not isinstance(b, int) or isinstance(b, bool) or b < 1:
                    return False
            elif what == "cnt":
                if not c13._valid_val(c["mode"], a) or b not in REJ_COUNTS:
                    return False
            elif what == "add":
                if a not in REJ_OPERANDS or b != 0:
                    return False
            elif what == "bulk":
                if a not in REJ_BULK or b != 0:
                    return False
            else:
                return False
        else:
            return False
    for key in ("grid", "levels"):
        if key in c and (not isinstance(c[key], int) or isinstance(c[key], bool) or c[key] < 1):
            return False
    for key in ("xs", "qs"):
        if key in c and not all(isinstance(x, (int, float)) and not isinstance(x, bool) and x == x and abs(x) != float("inf") for x in c[key]):
            return False
    if c.get("extreme") not in (None, True) or (c.get("extreme") and (c["mode"] != "f" or any(op[0] not in ("new", "upd", "q") for op in prog))):
        return False  # a limit history: plain update() streams in float mode, every round judged against the inserted values
    return True


def compare_hseq(ctx, c, r):
    """Correspondence of an object sequence: the model (Drv/C14.lean `hseq`) ran the same operations on its own objects —
    the faithful machine of Model/Distogram.lean, `+` in place or on a copy as the source says now — and answered the same
    rounds from its own state."""
    line, mops, rounds, mexp = r.hseq
    mo = ctx.model.batch([line])[0]
    if not mo.startswith("ok "):
        raise InfraError("model rejected %r -> %r" % (line[:300], mo))
    mouts = wire.dec_all(mo[3:])[0]
    if len(mouts) != len(mops):
        raise InfraError("model answered %d of %d operations" % (len(mouts), len(mops)))
    mode = c["mode"]
    qi = 0
    for i, (op, out) in enumerate(zip(mops, mouts)):
        if op[0] != "q":
            want = mexp.get(i, ["ok"])
            if out != want:
                ctx.disagree(c, want, out, what="%s: the implementation answers %r, the model %r (operation %d of the model's sequence)" % (op[0], want, out, i))
                return
            if want != ["ok"]:
                ctx.hit("hseq: refused call answered alike by the model (%s)" % want[1])
            continue
        k, (reg, _line, cs, rs, total, scale_q, xs, qs, skip) = rounds[qi]
        qi += 1
        if out[0] != "q":
            ctx.disagree(c, "a round of estimates", out, what="the model cannot answer the round of operation %d (%r)" % (k, out))
            return
        mc, mq = dec_vals(mode, out[1]), dec_vals(mode, out[2])
        ctx.hit("count_at points", len(cs))
        ctx.hit("quantile levels", len(rs))
        for what, pts, impl, mod, scale in (("count_at", xs, cs, mc, total), ("quantile", qs, rs, mq, scale_q)):
            for x, a, b in zip(pts, impl, mod):
                if not close(a, b, scale):
                    ctx.disagree(c, None if a is None else float(a), None if b is None else float(b),
                                 what="%s differs from the model's own object at %r (operation %d, register %s)" % (what, float(x), k, reg))
                    return


def bin_limit():
    from orso.profiler import distogram

    return int(distogram.BIN_COUNT)


def fits_together(a, b):
    """Do the histograms of two column profiles fit into one without trimming?  (The hypothesis of
    C14.small_sum_keeps_first_bin_at_minimum: then the sum's first bin stays at its minimum - no left tail.)"""
    return len(a.histogram or []) + len(b.histogram or []) <= bin_limit()


def mark_no_trim(fit, *fails):
    """A failure on a profile no `+` of which could have trimmed is not the open finding C14-K01 (its predicate looks at this)."""
    if fit:
        for f in fails:
            if f is not None:
                f[1]["no_trim"] = True


def build_profile(values, typ="INTEGER"):
    """The column profile of one batch.  `typ` "DOUBLE": the same integer values as floats (the second way into
    NumericProfiler), "DOUBLE-0": with every 0 written as -0.0."""
    import orso
    from orso.schema import FlatColumn, RelationSchema
    from orso.types import OrsoTypes

    if typ != "INTEGER":
        values = [None if v is None else (-0.0 if (v == 0 and typ == "DOUBLE-0") else float(v)) for v in values]
    sch = RelationSchema(name="t", columns=[FlatColumn(name="a", type=OrsoTypes.INTEGER if typ == "INTEGER" else OrsoTypes.DOUBLE)])
    df = orso.DataFrame(rows=[(v,) for v in values], schema=sch)
    return df.profile.column("a")


INT64_MIN, INT64_MAX = -(2**63), 2**63 - 1


def build_direct(values, dtype):
    """The column profile NumericProfiler builds when it is handed a numpy array itself: `object` (the path a nullable column
    takes: None cells, the NaT sentinel stripped), `int64` / `float64` (the typed path: nulls are NaN)."""
    import numpy
    from orso.profiler.profiler import NumericProfiler
    from orso.schema import FlatColumn
    from orso.types import OrsoTypes

    if dtype == "float64":
        arr = numpy.array([float("nan") if v is None else float(v) for v in values], dtype="float64")
    else:
        arr = numpy.array(values, dtype=dtype)
    prof = NumericProfiler(FlatColumn(name="a", type=OrsoTypes.INTEGER if dtype != "float64" else OrsoTypes.DOUBLE))
    prof(arr)
    return prof.profile


def non_null_values(values, path):
    """The non-null values of a column as the unchanged tree defines them.  On the object path (every column of a DataFrame,
    and an object array) a cell equal to -9223372036854775808 — the NaT sentinel — is a null: it is dropped AND counted as
    missing, so the profile is self-consistent; on the typed path it is a value like any other."""
    if path in ("int64", "float64"):
        return [v for v in values if v is not None]
    return [v for v in values if v is not None and v != INT64_MIN]


def gen_values(g):
    """Deterministic large column for `{"gen": {...}}` cases (a frame of more than one profiler batch)."""
    import random

    rng = random.Random(g["seed"])
    n, shape = g["n"], g["shape"]
    if shape == "zero-min":
        vals = [rng.randint(0, g.get("span", 400)) for _ in range(n)]
        vals[rng.randrange(min(n, 20000))] = 0
    elif shape == "zero-max":
        vals = [-rng.randint(0, g.get("span", 400)) for _ in range(n)]
        vals[n - 1 - rng.randrange(min(n, 3000))] = 0
    else:
        vals = [rng.randint(-g.get("span", 400), g.get("span", 400)) for _ in range(n)]
    if g.get("nulls"):
        for i in range(0, n, g["nulls"]):
            vals[i] = None if vals[i] != 0 else 0
    return vals


def profile_parts(case):
    """-> (all values in order, list of batches to profile separately and add, or None for one frame)."""
    if "batches" in case:
        bs = case["batches"]
        if case.get("order") == "ba":
            bs = list(reversed(bs))
        return [v for b in bs for v in b], bs
    if "gen" in case:
        return gen_values(case["gen"]), None
    return case["values"], None


def judge_probes(probes, below, above, nonnull, lo, hi, pmin, pmax, hist):
    """The profile clauses on one round of estimates: `probes` sorted points inside the observed range [lo, hi]
    (the true extremes of the non-null values), `below` / `above` the implementation's answers (exact or None),
    `nonnull` the number of non-null values.  Returns (hard failure or None, left-tail failure or None): a
    failure that involves only count_at's left tail (min < p <= first centre, open finding C14-K01) never hides
    a failure elsewhere."""
    tol = TOL * max(nonnull, 1)
    prev = None  # (point, below) of the last probe, left tail included
    prev_clean = None  # ... of the last probe outside the left tail
    left_fail = None
    v0, f0 = (float(hist[0][0]), int(hist[0][1])) if hist else (None, None)
    is_left = lambda q: v0 is not None and pmin is not None and pmin < q <= v0
    for p, b, a in zip(probes, below, above):
        d = {"point": p, "x": p, "below": None if b is None else float(b), "above": None if a is None else float(a), "non_null": nonnull,
             "min": pmin, "max": pmax, "first_centre": v0, "first_count": f0, "got": None if b is None else float(b)}
        # a merged profile whose first two bins were merged has a left tail (min < p <= first centre): open finding C14-K01
        in_left = is_left(p)
        bad = None
        if b is None or a is None:
            bad = "profile: estimate is None inside the observed range"
        elif abs(b + a - nonnull) > tol:
            bad = "profile: below + above is not the number of non-null values"
        elif p == lo and b != 0:
            bad = "profile: values below the minimum is not 0"
        elif p == hi and lo < hi and abs(b - nonnull) > tol:
            bad = "profile: values up to the maximum is not the number of non-null values"
        elif b < -tol or b > nonnull + tol or a < -tol or a > nonnull + tol:
            bad = "profile: estimate outside [0, non-null]"
        elif in_left and prev is not None and b < prev[1] - tol:
            bad = "profile: estimate of values below decreases"
            d.update({"x1": prev[0], "r1": float(prev[1]), "x2": p, "r2": float(b), "left_pts": [bool(is_left(prev[0])), True]})
        elif not in_left and prev_clean is not None and b < prev_clean[1] - tol:
            bad = "profile: estimate of values below decreases"
            d.update({"x1": prev_clean[0], "r1": float(prev_clean[1]), "x2": p, "r2": float(b), "left_pts": [False, False]})
        if bad is not None:
            if in_left and bad.startswith("profile: estimate") and "None" not in bad:
                d["left_tail"] = True
                d.setdefault("left_pts", [True])
                d.update(left_values(pmin, v0, f0, [d["x1"], d["x2"]] if "x1" in d else [p], d["left_pts"]))
                left_fail = left_fail or (bad, d)
            else:
                return (bad, d), left_fail
        elif not in_left and left_fail is None and prev is not None and b < prev[1] - tol:
            d["left_tail"] = True
            d.update({"x1": prev[0], "r1": float(prev[1]), "x2": p, "r2": float(b), "left_pts": [bool(is_left(prev[0])), False]})
            d.update(left_values(pmin, v0, f0, [prev[0], p], d["left_pts"]))
            left_fail = ("profile: estimate of values below decreases", d)
        if not in_left:
            prev_clean = (p, b)
        prev = (p, b)
    return None, left_fail


def run_profile_case(case):
    res = Res()
    res.fail = None
    res.items = []
    res.c13_failed = False
    values, batches = profile_parts(case)
    direct = case.get("direct")
    nn = non_null_values(values, direct)
    build = (lambda vs, typ: build_direct(vs, direct)) if direct else build_profile
    try:
        typ = case.get("type", "INTEGER")
        fit = "gen" not in case and len(values) <= 25000
        if batches is None:
            col = build(values, typ)
        else:
            col = build(batches[0], typ)
            for b in batches[1:]:
                nxt = build(b, typ)
                fit = fit and fits_together(col, nxt)
                col = col + nxt
    except Exception as e:
        res.fail = ("raised: profiling an integer column raised %s" % type(e).__name__, {"error": repr(e)[:200]})
        return res
    nonnull = col.count - col.missing
    truth_fail = None
    if nonnull != len(nn) or col.count != len(values):
        # "the number of non-null values" is a fact about the data (a NaT-sentinel cell of the object path counts as a null).
        # Reported only when the estimates are consistent with the profile's own count - missing (that clause is judged first).
        truth_fail = ("profile: count - missing is not the number of non-null values", {"count": int(col.count), "missing": int(col.missing),
                                                                                         "non_null_cells": len(nn), "cells": len(values)})
    if not nn:
        if truth_fail is None and (col.histogram or col.minimum is not None or col.maximum is not None):
            truth_fail = ("profile: a column without values has a histogram or bounds", {"min": col.minimum, "max": col.maximum})
        res.fail = truth_fail
        return res
    lo, hi = min(nn), max(nn)
    extra = sorted(set(nn))[:60] if case.get("probe_distinct") else []
    probes = sorted(set([lo, hi] + extra + [p for p in case.get("probes", []) if lo <= p <= hi]))
    below, above = [], []
    try:
        for p in probes:
            below.append(exact(col.estimate_values_below(p)))
            above.append(exact(col.estimate_values_above(p)))
    except Exception as e:
        res.fail = ("raised: profile estimator raised %s" % type(e).__name__, {"error": repr(e)[:200], "min": col.minimum, "max": col.maximum,
                                                                                "true_range": [lo, hi]})
        return res
    hist = list(col.histogram)
    for name, v in unordered_args():
        try:
            r = col.estimate_values_below(v)
        except Exception as e:
            res.fail = ("raised: estimate_values_below raised %s at an argument that is not a number" % type(e).__name__, {"argument": name, "error": repr(e)[:200]})
            return res
        if r is not None:
            res.fail = ("profile: estimate is not None outside the observed range", {"point": name, "got": repr(r)[:60], "unordered": True})
            return res
    hard, left_fail = judge_probes(probes, below, above, nonnull, lo, hi, col.minimum, col.maximum, hist)
    mark_no_trim(fit, hard, left_fail)
    if hard is not None or truth_fail is not None:
        res.fail = hard or truth_fail
        return res
    res.fail = left_fail
    bins = [(v, int(f)) for v, f in hist]
    line = model_eval_line("f", bins, col.minimum, col.maximum, [float(p) for p in probes], [], int(col.count), int(col.missing))
    res.items.append(("profile", line, below, above, Fraction(nonnull), Fraction(1), probes, [], set()))
    if batches is None and "values" in case and len(values) <= 25000 and lo < hi and not direct and all(abs(v) <= 2**53 for v in nn):
        # ONE batch: numpy.histogram is a parameter of the theorems (C14.one_batch_profile_ok) - its contract is checked here on
        # the very data, and the comprehension the profiler applies to it is run on the model (Profile.histogramOf, regenerated)
        import numpy
        from orso.profiler import profiler as _pm

        data = numpy.array([float(v) for v in nn]) if len(nn) != len(values) or typ != "INTEGER" else numpy.array(nn)
        hc, be = numpy.histogram(data, bins=_pm.DISTOGRAM_BIN_COUNT)
        hc, be = [int(x) for x in hc], [float(x) for x in be]
        if not (len(be) == len(hc) + 1 and all(a < b for a, b in zip(be, be[1:])) and be[0] == lo and be[-1] == hi and sum(hc) == len(nn)
                and hc[0] > 0 and all(x >= 0 for x in hc)):
            raise InfraError("numpy.histogram does not keep the contract the theorems assume (values %r)" % (values[:20],))
        res.numpy_contract = True
        res.items.append(("phist", "C14 phist " + wire.line("f", hc, be), [[float(v), int(f)] for v, f in hist], None, None, None, None, None, set()))
    return res


# --------------------------------------------------------------------------- sequences on one profile object


def seq_probes(nn, extra):
    """Probe points of one round of estimates on a profile holding the non-null values `nn`: both ends, the distinct
    values (at most 40, spread evenly), the midpoints between them, and the case's own probes inside the range."""
    lo, hi = min(nn), max(nn)
    d = sorted(set(nn))
    if len(d) > 40:
        d = [d[(i * (len(d) - 1)) // 39] for i in range(40)]
    pts = set([lo, hi] + d + [(a + b) / 2 for a, b in zip(d, d[1:])] + [p for p in extra if lo <= p <= hi])
    return sorted(pts)


def prof_fields(col):
    """What the model is told about a freshly built profile."""
    return [int(col.count), int(col.missing), None if col.minimum is None else int(col.minimum), None if col.maximum is None else int(col.maximum),
            [[float(v), int(f)] for v, f in col.histogram]]


def run_pseq_case(case):
    """A sequence on profile registers.  Register i starts as the profile of `cols[i]`; `["q", r, first]` asks register r
    for its estimates at every probe point (first = "ba": below then above, "ab": above then below, "at": estimate_values_at
    comes first) and judges them against the values the register really holds; `["add", dst, a, b]` stores a + b,
    `["tadd", dst, a, b]` the same through TableProfile.__add__, `["copy", dst, a]` a.deep_copy()."""
    from orso.profiler import TableProfile

    res = Res()
    res.fail = None
    res.items = []
    res.c13_failed = False
    cols = case["cols"]
    try:
        base = [build_profile(c, case.get("type", "INTEGER")) for c in cols]
    except Exception as e:
        res.fail = ("raised: profiling an integer column raised %s" % type(e).__name__, {"error": repr(e)[:200]})
        return res
    bases = [prof_fields(p) for p in base]
    regs = {i: (p, [v for v in cols[i] if v is not None]) for i, p in enumerate(base)}
    fits = {i: len(cols[i]) <= 25000 for i in range(len(base))}  # no `+` that made this register could have trimmed
    mops, rounds = [], []
    left_fail = None
    for k, op in enumerate(case["ops"]):
        kind = op[0]
        if kind == "q":
            col, nn = regs[op[1]]
            first = op[2] if len(op) > 2 else "ba"
            if not nn:
                continue  # no observed range: the property says nothing (dropped on both sides)
            probes = seq_probes(nn, case.get("probes", []))
            below, above = [], []
            try:
                for p in probes:
                    if first == "at":
                        col.estimate_values_at(p)
                    if first == "ab":
                        a = col.estimate_values_above(p)
                        b = col.estimate_values_below(p)
                    else:
                        b = col.estimate_values_below(p)
                        a = col.estimate_values_above(p)
                    below.append(exact(b))
                    above.append(exact(a))
            except Exception as e:
                res.fail = ("raised: profile estimator raised %s" % type(e).__name__,
                            {"error": repr(e)[:200], "op": k, "min": col.minimum, "max": col.maximum, "true_range": [min(nn), max(nn)]})
                return res
            hard, lf = judge_probes(probes, below, above, len(nn), min(nn), max(nn), col.minimum, col.maximum, list(col.histogram))
            mark_no_trim(fits[op[1]], hard, lf)
            if hard is not None:
                hard[1]["op"] = k
                res.fail = hard
                return res
            if lf is not None and left_fail is None:
                lf[1]["op"] = k
                left_fail = lf
            mops.append(["q", op[1], [float(p) for p in probes]])
            rounds.append((k, probes, below, above, len(nn)))
        elif kind == "rej":
            # `profile + <no profile>`: refused (whatever it raises), the register and every other one are what they were —
            # the model is not told (its step for a refused call is the identity), the next rounds judge
            try:
                regs[op[1]][0] + {"none": None, "int": 5, "text": "x", "bins": [(1.0, 1)]}[op[2]]
                res.hits = getattr(res, "hits", []) + ["pseq: + of something that is no profile (%s) -> ACCEPTED (the result is dropped)" % op[2]]
            except Exception as e:
                res.hits = getattr(res, "hits", []) + ["pseq: refused + (%s) -> %s" % (op[2], type(e).__name__)]
        else:
            try:
                if kind != "copy":
                    fit_new = fits[op[2]] and fits[op[3]] and fits_together(regs[op[2]][0], regs[op[3]][0])
                if kind == "add":
                    new = regs[op[2]][0] + regs[op[3]][0]
                elif kind == "tadd":
                    ta, tb = TableProfile(), TableProfile()
                    ta.add_column(regs[op[2]][0], "a")
                    tb.add_column(regs[op[3]][0], "a")
                    new = (ta + tb).column("a")
                else:
                    new = regs[op[2]][0].deep_copy()
            except Exception as e:
                res.fail = ("raised: adding two column profiles raised %s" % type(e).__name__, {"error": repr(e)[:200], "op": k})
                return res
            if kind == "copy":
                regs[op[1]] = (new, list(regs[op[2]][1]))
                fits[op[1]] = fits[op[2]]
                mops.append(["copy", op[1], op[2]])
            else:
                regs[op[1]] = (new, regs[op[2]][1] + regs[op[3]][1])
                fits[op[1]] = fit_new
                mops.append([kind, op[1], op[2], op[3]])
    res.fail = left_fail
    if rounds:
        res.items.append(("pseq", "C14 pseq " + wire.line("f", bases, mops), mops, rounds, None, None, None, None, set()))
    return res


def valid_pseq(c):
    cols, ops = c.get("cols"), c.get("ops")
    if not isinstance(cols, list) or not cols or len(cols) > 6 or not isinstance(ops, list) or len(ops) > 40:
        return False
    for col in cols:
        if not isinstance(col, list) or not col or len(col) > 60000:
            return False
        if not all(v is None or (isinstance(v, int) and not isinstance(v, bool) and abs(v) < 2**50) for v in col):
            return False
    have = set(range(len(cols)))
    for op in ops:
        if not isinstance(op, list) or not op or not all(isinstance(x, int) and not isinstance(x, bool) and 0 <= x < 16 for x in op[1:] if not isinstance(x, str)):
            return False
        if op[0] == "q":
            if len(op) not in (2, 3) or op[1] not in have or (len(op) == 3 and op[2] not in ("ba", "ab", "at")):
                return False
        elif op[0] == "rej":
            if len(op) != 3 or op[1] not in have or op[2] not in ("none", "int", "text", "bins"):
                return False
        elif op[0] in ("add", "tadd"):
            if len(op) != 4 or op[2] not in have or op[3] not in have or not isinstance(op[1], int):
                return False
            have.add(op[1])
        elif op[0] == "copy":
            if len(op) != 3 or op[2] not in have or not isinstance(op[1], int):
                return False
            have.add(op[1])
        else:
            return False
    return isinstance(c.get("probes", []), list) and all(isinstance(p, (int, float)) and not isinstance(p, bool) for p in c.get("probes", []))


# --------------------------------------------------------------------------- sequences on table profiles

TABLE_TYPES = ("INTEGER", "DOUBLE", "DOUBLE-0", "VARCHAR", "BOOLEAN")
NUMERIC_TYPES = ("INTEGER", "DOUBLE", "DOUBLE-0")


def _cell(typ, v):
    if v is None:
        return None
    if typ == "INTEGER":
        return v
    if typ == "VARCHAR":
        return "s%d" % v
    if typ == "BOOLEAN":
        return v % 2 == 0
    return -0.0 if (v == 0 and typ == "DOUBLE-0") else float(v)


def build_table(cols):
    """The TableProfile of one frame: `cols` = [[name, type, values], ...], every column of the same length (integers and
    None; a VARCHAR / BOOLEAN column is derived from them).  A table without rows has no columns at all (that is what
    `from_dataframe` returns for it)."""
    import orso
    from orso.profiler import TableProfile
    from orso.schema import FlatColumn, RelationSchema
    from orso.types import OrsoTypes

    if not cols:
        return TableProfile()
    tmap = {"INTEGER": OrsoTypes.INTEGER, "DOUBLE": OrsoTypes.DOUBLE, "DOUBLE-0": OrsoTypes.DOUBLE, "VARCHAR": OrsoTypes.VARCHAR,
            "BOOLEAN": OrsoTypes.BOOLEAN}
    sch = RelationSchema(name="t", columns=[FlatColumn(name=n, type=tmap[t]) for n, t, _ in cols])
    n = len(cols[0][2])
    rows = [tuple(_cell(t, vs[i]) for _, t, vs in cols) for i in range(n)]
    return orso.DataFrame(rows=rows, schema=sch).profile


def table_fields(tp):
    """What the model is told about a freshly built table profile: every column's name and estimator fields."""
    out = []
    for name, col in zip(tp._column_names, tp._columns):
        mn = None if col.minimum is None else float(col.minimum)
        mx = None if col.maximum is None else float(col.maximum)
        out.append([name, [int(col.count), int(col.missing), mn, mx, [[float(v), int(f)] for v, f in (col.histogram or [])]]])
    return out


class TTruth:
    """What a table profile stands for: per column name the values (None = null) of all the rows it covers, in the
    order the frames were concatenated; a column a frame does not have is null on all of that frame's rows."""

    def __init__(self, names, cols, types, rows):
        self.names, self.cols, self.types, self.rows = list(names), dict(cols), dict(types), rows


def run_tseq_case(case):
    """A sequence on **table** profile registers.  Register i starts as the profile of frame `tables[i]`; `["tadd", dst, a, b]`
    stores `T[a] + T[b]` (`TableProfile.__add__`: the glue above `ColumnProfile.__add__`, with a placeholder for a column
    the right table lacks); `["q", t, first]` asks **every numeric column the table profile has** for its estimates and judges
    them by the profile clauses against the concatenated data (a column missing in a frame = all nulls on its rows) — a column
    only the right table has included, when the sum carries it (left side all nulls)."""
    res = Res()
    res.fail = None
    res.items = []
    res.c13_failed = False
    res.hits = []
    try:
        T = {i: build_table(t) for i, t in enumerate(case["tables"])}
    except Exception as e:
        res.fail = ("raised: profiling a frame raised %s" % type(e).__name__, {"error": repr(e)[:200]})
        return res
    bases = [table_fields(T[i]) for i in range(len(case["tables"]))]
    truth = {}
    for i, t in enumerate(case["tables"]):
        truth[i] = TTruth([c[0] for c in t], {c[0]: list(c[2]) for c in t}, {c[0]: c[1] for c in t}, len(t[0][2]) if t else 0)
    mops, rounds = [], []
    left_fail = None
    tfits = {i: {c[0]: True for c in t} for i, t in enumerate(case["tables"])}  # per column: no `+` behind it could have trimmed
    for k, op in enumerate(case["ops"]):
        if op[0] == "tadd":
            a, b = truth[op[2]], truth[op[3]]
            fa, fb = tfits[op[2]], tfits[op[3]]
            new_fits = {}
            for n in a.names:
                lc, rc = T[op[2]].column(n), T[op[3]].column(n)
                new_fits[n] = bool(fa.get(n)) and (rc is None or (bool(fb.get(n)) and lc is not None and fits_together(lc, rc)))
            for n in b.names:
                if n not in a.cols:
                    new_fits[n] = bool(fb.get(n))  # added to a stand-in without a histogram: nothing to trim
            try:
                new = T[op[2]] + T[op[3]]
            except Exception as e:
                res.fail = ("raised: adding two table profiles raised %s" % type(e).__name__, {"error": repr(e)[:200], "op": k})
                return res
            names = list(new._column_names)
            if len(set(names)) != len(names) or len(new._columns) != len(names):
                res.fail = ("raised: the sum of two table profiles lists a column twice", {"names": names, "op": k})
                return res
            cols, types = {}, {}
            for n in names:
                if n not in a.cols and n not in b.cols:
                    res.fail = ("raised: the sum of two table profiles has a column neither table has", {"name": n, "op": k})
                    return res
                cols[n] = (a.cols[n] if n in a.cols else [None] * a.rows) + (b.cols[n] if n in b.cols else [None] * b.rows)
                types[n] = a.types.get(n, b.types.get(n))
            for n in a.names:
                res.hits.append("tseq column: on both sides" if n in b.cols else "tseq column: missing on the right")
            for n in b.names:
                if n not in a.cols:
                    res.hits.append("tseq column: missing on the left (%s by the sum)" % ("kept" if n in cols else "not carried"))
            res.hits.append("tseq rows: %s" % ("equal" if a.rows == b.rows else "right table empty" if b.rows == 0 else "left table empty" if a.rows == 0
                                              else "right shorter" if b.rows < a.rows else "right longer"))
            T[op[1]] = new
            tfits[op[1]] = new_fits
            truth[op[1]] = TTruth(names, cols, types, a.rows + b.rows)
            mops.append(["tadd", op[1], op[2], op[3]])
            rounds.append(("tadd", k, names, [int(c.count) for c in new._columns], [int(c.missing) for c in new._columns],
                           [types[n] in NUMERIC_TYPES for n in names]))
            continue
        tp, tr = T[op[1]], truth[op[1]]
        first = op[2] if len(op) > 2 else "ba"
        for name in tr.names:
            if tr.types.get(name) not in NUMERIC_TYPES:
                continue
            nn = [v for v in tr.cols[name] if v is not None]
            if not nn:
                continue  # no observed range: the property says nothing
            col = tp.column(name)
            if col is None:
                res.fail = ("raised: a column of the table profile cannot be looked up by its name", {"name": name, "op": k})
                return res
            probes = seq_probes(nn, case.get("probes", []))
            below, above = [], []
            try:
                for p in probes:
                    if first == "at":
                        col.estimate_values_at(p)
                    if first == "ab":
                        a_ = col.estimate_values_above(p)
                        b_ = col.estimate_values_below(p)
                    else:
                        b_ = col.estimate_values_below(p)
                        a_ = col.estimate_values_above(p)
                    below.append(exact(b_))
                    above.append(exact(a_))
            except Exception as e:
                res.fail = ("raised: profile estimator raised %s" % type(e).__name__,
                            {"error": repr(e)[:200], "op": k, "column": name, "min": col.minimum, "max": col.maximum, "true_range": [min(nn), max(nn)]})
                return res
            hard, lf = judge_probes(probes, below, above, len(nn), min(nn), max(nn), col.minimum, col.maximum, list(col.histogram))
            mark_no_trim(tfits[op[1]].get(name), hard, lf)
            if hard is not None:
                hard[1].update({"op": k, "column": name, "count": int(col.count), "missing": int(col.missing), "rows_covered": tr.rows})
                res.fail = hard
                return res
            if lf is not None and left_fail is None:
                lf[1].update({"op": k, "column": name})
                left_fail = lf
            mops.append(["q", op[1], name, [float(p) for p in probes]])
            rounds.append(("q", k, name, probes, below, above, len(nn)))
    res.fail = left_fail
    if rounds:
        res.items.append(("tseq", "C14 tseq " + wire.line("f", bases, mops), mops, rounds, None, None, None, None, set()))
    return res


def valid_tseq(c):
    tables, ops = c.get("tables"), c.get("ops")
    if not isinstance(tables, list) or not tables or len(tables) > 6 or not isinstance(ops, list) or not ops or len(ops) > 30:
        return False
    for t in tables:
        if not isinstance(t, list) or len(t) > 6:
            return False
        names = []
        for col in t:
            if not (isinstance(col, list) and len(col) == 3 and isinstance(col[0], str) and col[0] and col[1] in TABLE_TYPES and isinstance(col[2], list)):
                return False
            if not col[2] or len(col[2]) != len(t[0][2]) or len(col[2]) > 3000:
                return False
            if not all(v is None or (isinstance(v, int) and not isinstance(v, bool) and abs(v) < 2**50) for v in col[2]):
                return False
            names.append(col[0])
        if len(set(names)) != len(names):
            return False
    kinds = {}
    for t in tables:
        for col in t:
            # a column name means one kind of column in every frame of the case (adding a text column's profile to a numeric one is not a use)
            if kinds.setdefault(col[0], col[1][:6]) != col[1][:6]:
                return False
    have = set(range(len(tables)))
    for op in ops:
        if not isinstance(op, list) or not op:
            return False
        if op[0] == "tadd":
            if len(op) != 4 or not all(isinstance(x, int) and not isinstance(x, bool) for x in op[1:]) or not 0 <= op[1] < 12 or op[2] not in have or op[3] not in have:
                return False
            have.add(op[1])
        elif op[0] == "q":
            if len(op) not in (2, 3) or op[1] not in have or (len(op) == 3 and op[2] not in ("ba", "ab", "at")):
                return False
        else:
            return False
    return isinstance(c.get("probes", []), list) and all(isinstance(p, (int, float)) and not isinstance(p, bool) for p in c.get("probes", []))


def run_case(case):
    if case.get("kind") == "tseq":
        return run_tseq_case(case)
    if case.get("kind") == "pseq":
        return run_pseq_case(case)
    if case.get("kind") == "hseq":
        return run_hseq_case(case)
    return run_profile_case(case) if case.get("kind") == "profile" else run_hist_case(case)


def valid_case(c):
    if not isinstance(c, dict):
        return False
    if c.get("type", "INTEGER") not in ("INTEGER", "DOUBLE", "DOUBLE-0"):
        return False
    if c.get("kind") == "tseq":
        return valid_tseq(c)
    if c.get("kind") == "pseq":
        return valid_pseq(c)
    if c.get("kind") == "hseq":
        return valid_hseq(c)
    if c.get("kind") == "profile":
        if "gen" in c:
            g = c["gen"]
            return isinstance(g, dict) and isinstance(g.get("n"), int) and 1 <= g["n"] <= 80000 and isinstance(g.get("seed"), int) and g.get("shape") in ("zero-min", "zero-max", "mixed")
        if "batches" in c:
            bs = c["batches"]
            if not isinstance(bs, list) or len(bs) < 2 or not all(isinstance(b, list) and b for b in bs) or c.get("order", "ab") not in ("ab", "ba"):
                return False
            vs = [v for b in bs for v in b]
        else:
            vs = c.get("values")
        if c.get("direct") not in (None, "object", "int64", "float64") or (c.get("direct") == "int64" and any(v is None for v in vs)):
            return False
        if not isinstance(vs, list) or not vs or not (any(v is not None for v in vs) or c.get("sentinel")):
            return False
        # numeric limits (family profile:sentinel): the smallest / largest int64 among ordinary values
        big = lambda v: c.get("sentinel") and v in (INT64_MIN, INT64_MAX)
        if not all(v is None or (isinstance(v, int) and not isinstance(v, bool) and (abs(v) < 2**50 or big(v))) for v in vs):
            return False
        if c.get("sentinel") and not all(sentinel_ok(b, c.get("direct")) for b in (c["batches"] if "batches" in c else [vs])):
            return False
        return isinstance(c.get("probes", []), list) and all(isinstance(p, (int, float)) and not isinstance(p, bool) for p in c.get("probes", []))
    if c.get("kind", "hist") != "hist":
        return False
    if not c13.valid_case({"mode": c.get("mode"), "prog": c.get("prog")}):
        return False
    for k in ("grid", "levels"):
        if k in c and (not isinstance(c[k], int) or c[k] < 1):
            return False
    for k in ("xs", "qs"):
        if k in c and not all(isinstance(x, (int, float)) and not isinstance(x, bool) and x == x and abs(x) != float("inf") for x in c[k]):
            return False
    return True


def _kind(clause):
    return clause.split(":")[0]


def fails_alone(case, kind):
    """Does `case` fail (a clause of the same kind) when it is the only case of a fresh process?  None = could not tell."""
    import json
    import subprocess
    import sys

    code = ("import sys, json\nsys.path[:0] = [%r, %r]\nfrom harness import core\nfrom harness.props import c14\n"
            "r = c14.run_case(core.unjson(json.loads(sys.stdin.read())))\nprint('CLAUSE ' + (r.fail[0] if r.fail else ''))\n" % (core.REPO, core.VERIF))
    try:
        p = subprocess.run([sys.executable, "-c", code], input=json.dumps(core._jsonable(case)), capture_output=True, text=True, timeout=120)
    except Exception:
        return None
    for line in p.stdout.splitlines():
        if line.startswith("CLAUSE "):
            return _kind(line[7:]) == kind if line[7:] else False
    return None


def flush_pending(ctx):
    """A failure that needed state from earlier cases is reported when no self-contained input was found."""
    pend = getattr(ctx, "_pending_stateful", None)
    if pend is not None and not ctx.violations:
        c, f = pend
        ctx.fail(c, f[0], impl=f[1], model=None, detail=f[1])
    ctx._pending_stateful = None


def evaluate(ctx, cases):
    results = [run_case(c) for c in cases]
    lines = [it[1] for r in results for it in r.items]
    mouts = ctx.model.batch(lines)
    mi = 0
    for c, r in zip(cases, results):
        kind = c.get("kind", "hist")
        ctx.case(c, nontrivial=bool(r.items) or r.fail is not None)
        ctx.hit("kind:" + kind)
        if kind in ("profile", "pseq", "tseq"):
            ctx.hit("family:" + c.get("family", kind + ":?"))
        if kind == "pseq":
            for k in getattr(r, "hits", []):
                ctx.hit(k)
        if kind == "tseq":
            ctx.hit("tseq tables:" + c.get("pair", "random"))
            for k in getattr(r, "hits", []):
                ctx.hit(k)
        if kind in ("hist", "hseq"):
            ctx.hit("mode:" + c["mode"])
            ctx.hit("family:" + c.get("family", "?"))
            for k, n in sorted(getattr(r, "branches", {}).items()):
                ctx.hit(k, n)
            for k in getattr(r, "hits", []):
                ctx.hit(k)
            if getattr(r, "items_skipped", 0):
                ctx.hit("histogram with float128 centres that collide in float64 (oracle only)", r.items_skipped)
            if r.c13_failed:
                ctx.hit("skipped: histogram violates C13 (%s)" % r.c13_clause)
        case_mouts = mouts[mi : mi + len(r.items)]
        mi += len(r.items)
        known_only = False
        if r.fail is not None:
            failure = {"clause": r.fail[0], "impl": r.fail[1], "model": None, "detail": r.fail[1]}
            known_only = any(k.get("status") == "open" and core.match_known(ctx.prop_id, k, c, failure) for k in ctx.known)
            if known_only:
                # an open known finding: reported once as KNOWN-FINDING, not shrunk; the model (faithful to the
                # defect) is still compared below
                ctx.fail(c, r.fail[0], impl=r.fail[1], model=None, detail=r.fail[1])
        if r.fail is not None and not known_only:
            clause = r.fail[0]
            k0 = _kind(clause)

            def still(c2):
                if not valid_case(c2):
                    return False
                try:
                    r2 = run_case(c2)
                except InfraError:
                    return False
                if r2.fail is None or _kind(r2.fail[0]) != k0 or r2.fail[0].split(":")[1][:12] != clause.split(":")[1][:12]:
                    return False
                # never shrink an unexplained failure into an input that only shows an open known finding
                f2 = {"clause": r2.fail[0], "impl": r2.fail[1], "model": None, "detail": r2.fail[1]}
                return not any(k.get("status") == "open" and core.match_known(ctx.prop_id, k, c2, f2) for k in ctx.known)

            c_min = c if ctx.replaying else shrink(c, still, budget=8 if "gen" in c else ctx.scale(700, 1500) if kind == "hseq" else ctx.scale(400, 800))
            r2 = run_case(c_min)
            f = r2.fail or r.fail
            if not ctx.replaying and getattr(ctx, "_pending_stateful", None) is not None and kind not in ("pseq", "tseq"):
                continue  # already known to depend on earlier cases; only a sequence case can be self-contained
            if not ctx.replaying and getattr(ctx, "_alone_checks", 0) < 10:
                # a replay runs in a fresh process: make sure the input fails there too (an implementation that keeps state
                # between objects - a memo on the class, a module-level cache - can make a case fail only after other cases)
                ctx._alone_checks = getattr(ctx, "_alone_checks", 0) + 1
                alone = fails_alone(c_min, k0)
                if alone is False and fails_alone(c, k0):
                    c_min, f, alone = c, r.fail, True
                if alone is False:
                    ctx.hit("failure that needs state left by earlier cases (searching on for a self-contained input)")
                    if getattr(ctx, "_pending_stateful", None) is None:
                        f[1]["note"] = "fails only after other cases ran in the same process: state shared between objects"
                        ctx._pending_stateful = (c_min, f)
                    continue
            ctx.fail(c_min, f[0], impl=f[1], model=None, detail=f[1])
            continue
        for (reg, line, cs, rs, total, scale_q, xs, qs, skip), mo in zip(r.items, case_mouts):
            if not mo.startswith("ok "):
                raise InfraError("model rejected %r -> %r" % (line[:300], mo))
            if kind == "pseq":
                compare_pseq(ctx, c, cs, rs, wire.dec_all(mo[3:])[0])
                continue
            if kind == "tseq":
                compare_tseq(ctx, c, cs, rs, wire.dec_all(mo[3:])[0])
                continue
            if reg == "phist":
                ctx.hit("one-batch profile: numpy.histogram's contract checked, comprehension compared with the model")
                mh = [[float(v), int(f)] for v, f in wire.dec_all(mo[3:])[0]]
                if mh != cs:
                    ctx.disagree(c, cs[:6], mh[:6], what="the histogram a one-batch profile keeps differs from the model's comprehension over numpy.histogram")
                    break
                continue
            mode = "f" if kind == "profile" else c["mode"]
            m = wire.dec_all(mo[3:])
            mc, mq, ma = dec_vals(mode, m[0]), dec_vals(mode, m[1]), dec_vals(mode, m[2])
            if kind == "profile":
                mc = dec_vals(mode, m[3])  # estimate_values_below: the model's generated return expression over count_at
            ctx.hit("count_at points", len(cs))
            ctx.hit("quantile levels" if kind in ("hist", "hseq") else "profile probes", len(rs))
            dis = None
            for i, (x, a, b) in enumerate(zip(xs, cs, mc)):
                if i in skip:
                    ctx.hit("count_at point next to an inexactly rounded centre of float128 bins (not compared)")
                    continue
                if not close(a, b, total):
                    dis = {"what": "count_at" if kind in ("hist", "hseq") else "estimate_values_below", "x": float(x), "impl": None if a is None else float(a), "model": None if b is None else float(b)}
                    break
            if dis is None and kind in ("hist", "hseq"):
                for q, a, b in zip(qs, rs, mq):
                    if not close(a, b, scale_q):
                        dis = {"what": "quantile", "q": float(q), "impl": None if a is None else float(a), "model": None if b is None else float(b)}
                        break
            if dis is None and kind == "profile":
                for x, a, b in zip(xs, rs, ma):
                    if not close(a, b, total):
                        dis = {"what": "estimate_values_above", "x": float(x), "impl": None if a is None else float(a), "model": None if b is None else float(b)}
                        break
            if dis is not None:
                ctx.disagree(c, dis["impl"], dis["model"], what="%s differs from the model at %r (register %s)" % (dis["what"], dis.get("x", dis.get("q")), reg))
                break
        else:
            if kind == "hseq" and getattr(r, "hseq", None) is not None:
                compare_hseq(ctx, c, r)


def compare_pseq(ctx, c, mops, rounds, mouts):
    """Correspondence of a sequence: every round of estimates against the model's, which ran the same operations on
    Model/ProfileEst.lean from the implementation's freshly built profiles."""
    if len(mouts) != len(mops):
        raise InfraError("model answered %d of %d operations" % (len(mouts), len(mops)))
    qi = 0
    for op, mo in zip(mops, mouts):
        if op[0] != "q":
            if mo != ["ok"]:
                ctx.disagree(c, "the sum exists", mo, what="adding two column profiles fails in the model (%r)" % (mo,))
                return
            ctx.hit("pseq:" + op[0])
            continue
        k, probes, below, above, nonnull = rounds[qi]
        qi += 1
        ctx.hit("pseq:q")
        ctx.hit("profile probes", len(probes))
        if mo[0] != "q":
            raise InfraError("model answered %r to a round of estimates" % (mo,))
        mb, ma = dec_vals("f", mo[1]), dec_vals("f", mo[2])
        for what, impl, mod in (("estimate_values_below", below, mb), ("estimate_values_above", above, ma)):
            for x, a, b in zip(probes, impl, mod):
                if not close(a, b, Fraction(max(nonnull, 1))):
                    ctx.disagree(c, None if a is None else float(a), None if b is None else float(b),
                                 what="%s differs from the model at %r (operation %d of the sequence)" % (what, x, k))
                    return


def compare_tseq(ctx, c, mops, rounds, mouts):
    """Correspondence of a table-level sequence: which columns every sum has, what each of them reports as `count` and
    `missing`, and every round of estimates, against Model/TableProf.lean running the same operations from the freshly
    built table profiles (placeholder for a column the right table lacks as the source builds it now)."""
    if len(mouts) != len(mops) or len(rounds) != len(mops):
        raise InfraError("model answered %d of %d operations" % (len(mouts), len(mops)))
    for op, rd, mo in zip(mops, rounds, mouts):
        if op[0] == "tadd":
            _, k, names, counts, missings, numeric = rd
            ctx.hit("tseq:tadd")
            if not (isinstance(mo, list) and mo and mo[0] == "ok"):
                ctx.disagree(c, "the sum exists", mo, what="adding two table profiles fails in the model (%r)" % (mo,))
                return
            if list(mo[1]) != names:
                ctx.disagree(c, names, list(mo[1]), what="the columns of the sum of two table profiles differ from the model's (operation %d)" % k)
                return
            mc, mm = dec_vals("f", mo[2]), dec_vals("f", mo[3])
            # C14 is about the number of non-null values a column stands for (`count - missing`); `count` itself is C15's
            for n, ic, im, c_, m_, num in zip(names, counts, missings, mc, mm, numeric):
                if num and Fraction(ic) - Fraction(im) != c_ - m_:
                    ctx.disagree(c, ic - im, float(c_ - m_), what="`count - missing` of column %r of the sum of two table profiles differs from the model (operation %d)" % (n, k))
                    return
            continue
        _, k, name, probes, below, above, nonnull = rd
        ctx.hit("tseq:q")
        ctx.hit("profile probes", len(probes))
        if isinstance(mo, list) and mo and mo[0] == "nocol":
            ctx.disagree(c, "column %r exists" % name, "no such column", what="the model's table profile has no column %r (operation %d of the table sequence)" % (name, k))
            return
        if not (isinstance(mo, list) and mo and mo[0] == "q"):
            raise InfraError("model answered %r to a round of estimates" % (mo,))
        mb, ma = dec_vals("f", mo[1]), dec_vals("f", mo[2])
        for what, impl, mod in (("estimate_values_below", below, mb), ("estimate_values_above", above, ma)):
            for x, a, b in zip(probes, impl, mod):
                if not close(a, b, Fraction(max(nonnull, 1))):
                    ctx.disagree(c, None if a is None else float(a), None if b is None else float(b),
                                 what="%s of column %r differs from the model at %r (operation %d of the table sequence)" % (what, name, x, k))
                    return


# --------------------------------------------------------------------------- generators


def random_hist_case(ctx):
    rng = ctx.rng
    mode = "f" if rng.random() < 0.8 else "q"
    size = rng.choice([1, 2, 3, 5, 8, 20, 60, 150])
    base = c13.random_case(ctx, mode=mode, size=size, want=rng.choice(["upd", "upd", "upd", "add", "bulk", "dl", "mix"]))
    c = {"kind": "hist", "mode": mode, "prog": base["prog"], "family": base["family"], "grid": rng.choice([4, 16, 40]), "levels": rng.choice([4, 16, 50])}
    return c


def random_profile_case(ctx):
    rng = ctx.rng
    n = rng.choice([1, 2, 3, 5, 10, 30, 100, 400, 2000])
    shape = rng.choice(["uniform", "small", "negative", "skewed", "constant", "wide", "two"])
    if shape == "uniform":
        gen = lambda: rng.randint(0, 1000)
    elif shape == "small":
        gen = lambda: rng.randint(0, 6)
    elif shape == "negative":
        gen = lambda: rng.randint(-500, 50)
    elif shape == "skewed":
        gen = lambda: int(rng.expovariate(0.01)) - 20
    elif shape == "constant":
        k = rng.randint(-5, 5)
        gen = lambda: k
    elif shape == "wide":
        gen = lambda: rng.choice([-1, 1]) * rng.randint(0, 10**9)
    else:
        a, b = rng.randint(-100, 100), rng.randint(-100, 100)
        gen = lambda: rng.choice([a, b])
    pnull = rng.choice([0, 0, 0.1, 0.5])
    values = [None if rng.random() < pnull else gen() for _ in range(n)]
    if all(v is None for v in values):
        values[rng.randrange(n)] = gen()
    nn = [v for v in values if v is not None]
    lo, hi = min(nn), max(nn)
    probes = set()
    for _ in range(30):
        p = rng.randint(lo, hi)
        probes.add(p)
        if p + 0.5 <= hi:
            probes.add(p + 0.5)
    return {"kind": "profile", "values": values, "probes": sorted(probes), "family": "profile:" + shape}


def sentinel_ok(vs, direct):
    """Columns numpy.histogram can bin at all: at this magnitude a range narrower than 50 floats makes it raise (`Too many bins
    for data range` — the profile then does not exist; recorded in design_notes/C14.md, outside the estimators)."""
    nn = non_null_values(vs, direct)
    return not nn or max(nn) == min(nn) and abs(nn[0]) < 2**50 or max(nn) - min(nn) >= 2**20 or max(abs(v) for v in nn) < 2**50


SENTINEL_BASES = [[1, 2, 3], [0], [0, 0], [5, 6, 9, 9, 30], [-7, -2], [0, 1], [-1, 0], [-3, 0, 12, 40, 40], []]


def sentinel_cases(ctx, n_random):
    """Numeric limits in profiled columns: the smallest int64 (the NaT sentinel the object path strips), the largest, zero; with
    and without None; through DataFrame.profile (always the object path), NumericProfiler on an object array, and on typed
    int64 / float64 arrays (where the smallest int64 is a value); one batch and two batches added."""
    rng = ctx.rng
    cols = []
    for base in SENTINEL_BASES:
        for extra in ([INT64_MIN], [INT64_MIN, INT64_MIN], [INT64_MAX], [INT64_MIN, INT64_MAX], [INT64_MIN, 0], [0]):
            for nulls in (0, 1, 2):
                col = list(base) + extra + [None] * nulls
                cols.append(col)
                cols.append(list(reversed(col)))
    for _ in range(n_random):
        col = [rng.choice([INT64_MIN, INT64_MIN, INT64_MAX, 0, None, None, rng.randint(-50, 50), rng.randint(-50, 50)]) for _ in range(rng.randint(1, 9))]
        cols.append(col)
    seen = set()
    for col in cols:
        for direct in (None, "object", "int64", "float64"):
            if direct == "int64" and any(v is None for v in col):
                continue
            if direct == "float64" and INT64_MAX in col:
                continue  # 2**63 - 1 is no float: the column would not be integer-valued
            key = (tuple(col), direct)
            nn = non_null_values(col, direct)
            if key in seen or not sentinel_ok(col, direct) or (direct == "int64" and not nn):
                continue
            seen.add(key)
            case = {"kind": "profile", "values": col, "sentinel": True, "probe_distinct": True, "family": "profile:sentinel:" + (direct or "frame"),
                    "probes": [p for p in (0, 0.5, 1, 2.5, -1) if nn and min(nn) <= p <= max(nn)]}
            if direct:
                case["direct"] = direct
            yield case
            if direct is None and len(col) >= 2:
                k = len(col) // 2
                a, b = col[:k], col[k:]
                if (non_null_values(a, None) or non_null_values(b, None)) and sentinel_ok(a, None) and sentinel_ok(b, None):
                    yield {"kind": "profile", "batches": [a, b], "order": rng.choice(["ab", "ba"]), "sentinel": True, "probe_distinct": True,
                           "probes": case["probes"], "family": "profile:sentinel:added"}


CUT_COLUMNS = [
    [0, 3, 7], [0, 0, 5, 9], [-5, -2, 0], [-4, 0, 6], [0, None, 4, 9, 2], [-3, None, 0, 0], [5, 1, 0, 8, None, 3],
    [-1, -1, -7, 0, -2], [0, 1], [-1, 0], [2, 9, 4], [-2, -9, -4], [0, 0, 0], [7, 0], [0, -7], [3, 8, 0, None], [None, 0, -6, -1],
]


def midpoints(vals):
    d = sorted(set(v for v in vals if v is not None))
    return [(a + b) / 2 for a, b in zip(d, d[1:])]


def cut_cases(ctx, n_random):
    """Every cut of small integer columns into two batches whose profiles are added, in both orders; zero, negative
    and positive extremes fall into either batch."""
    rng = ctx.rng
    cols = [list(c) for c in CUT_COLUMNS]
    for _ in range(n_random):
        n = rng.randint(2, 7)
        sgn = rng.choice([1, -1, 1, -1, 0])
        col = [(rng.randint(0, 9) * sgn if sgn else rng.randint(-6, 6)) if rng.random() > 0.12 else None for _ in range(n)]
        col[rng.randrange(n)] = 0
        cols.append(col)
    for col in cols:
        for cut in range(1, len(col)):
            a, b = col[:cut], col[cut:]
            if all(v is None for v in col):
                continue
            for order in ("ab", "ba"):
                yield {"kind": "profile", "batches": [a, b], "order": order, "probes": midpoints(col), "probe_distinct": True,
                       "family": "profile:cut"}
            if cut == len(col) // 2 or (cut == 1 and len(col) > 2):
                # the same column typed DOUBLE (integer-valued floats, zeros written -0.0): the other way into NumericProfiler
                yield {"kind": "profile", "batches": [a, b], "order": "ab", "probes": midpoints(col), "probe_distinct": True,
                       "family": "profile:cut-double", "type": rng.choice(["DOUBLE", "DOUBLE-0"])}


def big_frame_cases(ctx):
    """Frames of more than one profiler batch (25000 rows): the batch profiles are added inside `DataFrame.profile`."""
    rng = ctx.rng
    for shape in ("zero-min", "zero-max", "mixed"):
        g = {"n": 25000 + rng.choice([1, 700, 9000]), "seed": rng.randint(0, 10**6), "shape": shape, "span": rng.choice([6, 40, 400]),
             "nulls": rng.choice([0, 7, 0])}
        vals = [v for v in gen_values(g) if v is not None]
        lo, hi = min(vals), max(vals)
        probes = sorted(set([lo, hi, 0] + [rng.randint(lo, hi) for _ in range(25)] + [rng.randint(lo, hi) + 0.5 for _ in range(10)]))
        yield {"kind": "profile", "gen": g, "probes": [p for p in probes if lo <= p <= hi], "family": "profile:batches"}


SEQ_PAIRS = [
    ([0, 1, 2, 3], [5, 6, 7, 8, 9]), ([0, 3, 7], [0, 0, 5, 9]), ([-5, -2, 0], [1, 4]), ([1, 4], [-5, -2, 0]), ([3, None, 4], [None, None]),
    ([None], [2, 2, 7]), ([5, 5, 5], [5, 5]), ([0], [0]), ([-1, 0], [0, 1]), ([2, 9, 4, None], [2, 9, 4]), ([7, 8], [1, 2, 3, 4, 5, 6]),
    (list(range(0, 120)), list(range(60, 200))), ([(i * 37) % 300 for i in range(600)] + [None] * 25, [(i * 11) % 300 for i in range(900)]),
    (list(range(-80, 0)), list(range(0, 90, 3))),
    # same number of bins, same minimum and maximum, different counts (a cache keyed on too little would mix them up)
    ([0, 0, 1], [0, 1]), ([-3, 4, 4, 4], [-3, -3, 4]),
    # exactly at and one past the bin limit of a sum: 25 + 25 bins fit (nothing is trimmed: no left tail may appear), 25 + 26 do not
    # (the left column fills numpy's bins 0, 1, 3, 5, ..., 47, 49: 26 bins whose smallest gap is the first one, so a trim - if there
    # is one - merges the first two bins; the right column has 24 / 25 bins far away)
    ([1000 + v for v in [0, 1] + list(range(3, 48, 2)) + [50]], [5000 + 10 * i for i in range(24)]),
    ([-2000 + v for v in [0, 1] + list(range(3, 48, 2)) + [50]], [5000 + 10 * i for i in range(24)]),
    ([1000 + v for v in [0, 1] + list(range(3, 48, 2)) + [50]], [5000 + 10 * i for i in range(25)]),
]


def seq_patterns(first):
    """Sequences on one profile object: query, merge, query again."""
    return [
        ("query-add-query", [["q", 0, first], ["add", 2, 0, 1], ["q", 2, first]]),
        ("query-radd-query", [["q", 0, first], ["add", 2, 1, 0], ["q", 2, first]]),
        ("query-right-add-query", [["q", 1, first], ["add", 2, 0, 1], ["q", 2, first], ["q", 0, first]]),
        ("query-both-add-query", [["q", 0, first], ["q", 1, first], ["add", 2, 0, 1], ["q", 2, first], ["q", 0], ["q", 1]]),
        ("add-self", [["q", 0, first], ["add", 2, 0, 0], ["q", 2, first]]),
        ("running", [["q", 0, first], ["add", 0, 0, 1], ["q", 0, first], ["add", 0, 0, 1], ["q", 0], ["add", 0, 0, 0], ["q", 0, first]]),
        ("table-add", [["q", 0, first], ["tadd", 2, 0, 1], ["q", 2, first], ["tadd", 2, 2, 0], ["q", 2]]),
        ("copy", [["copy", 2, 0], ["q", 2, first], ["add", 3, 0, 1], ["q", 3], ["add", 4, 2, 1], ["q", 4, first], ["q", 0]]),
        ("operand-after", [["q", 0, first], ["add", 2, 0, 1], ["q", 0], ["q", 2, first], ["q", 1]]),
        ("add-only", [["add", 2, 0, 1], ["q", 2, first], ["add", 3, 2, 2], ["q", 3]]),
        # a `+` the source refuses (the right operand is no profile), caught: every register answers as before
        ("refused-add", [["q", 0, first], ["rej", 0, "none"], ["q", 0, first], ["add", 2, 0, 1], ["rej", 2, "bins"], ["q", 2, first], ["rej", 1, "int"], ["q", 1], ["q", 0]]),
        ("refused-add-first", [["rej", 0, "text"], ["q", 0, first], ["rej", 0, "none"], ["add", 2, 0, 1], ["q", 2]]),
    ]


def seq_cases(ctx):
    rng = ctx.rng
    for a, b in SEQ_PAIRS:
        big = len(a) + len(b) > 100
        firsts = ("ba",) if big else ("ba", "ab", "at")
        for first in firsts:
            for name, ops in seq_patterns(first):
                if big and name in ("copy", "operand-after", "query-both-add-query") and rng.random() < 0.5:
                    continue
                c = {"kind": "pseq", "cols": [list(a), list(b)], "ops": [list(o) for o in ops], "family": "pseq:" + name}
                if not big and first == "ab" and name in ("query-add-query", "running"):
                    c["type"] = "DOUBLE-0"
                yield c


def random_pseq_case(ctx):
    rng = ctx.rng
    ncol = rng.choice([2, 2, 3, 4])
    cols = []
    for _ in range(ncol):
        n = rng.choice([1, 2, 3, 5, 10, 30, 100, 400])
        shape = rng.choice(["small", "uniform", "negative", "zero-max", "zero-min", "wide", "nulls"])
        if shape == "small":
            g = lambda: rng.randint(0, 6)
        elif shape == "uniform":
            g = lambda: rng.randint(0, 1000)
        elif shape == "negative":
            g = lambda: rng.randint(-500, 50)
        elif shape == "zero-max":
            g = lambda: -rng.randint(0, 40)
        elif shape == "zero-min":
            g = lambda: rng.randint(0, 40)
        elif shape == "wide":
            g = lambda: rng.choice([-1, 1]) * rng.randint(0, 10**6)
        else:
            g = lambda: None
        pnull = rng.choice([0, 0, 0.2])
        col = [None if (shape == "nulls" or rng.random() < pnull) else g() for _ in range(n)]
        if shape in ("zero-max", "zero-min"):
            col[rng.randrange(n)] = 0
        cols.append(col)
    if all(v is None for c in cols for v in c):
        cols[0][0] = rng.randint(-3, 3)
    have = list(range(ncol))
    ops = []
    for _ in range(rng.choice([3, 4, 6, 8, 12])):
        r = rng.random()
        if r < 0.45:
            ops.append(["q", rng.choice(have), rng.choice(["ba", "ab", "at"])])
        elif r < 0.9:
            dst = rng.choice(have + [max(have) + 1]) if max(have) < 9 else rng.choice(have)
            ops.append([rng.choice(["add", "add", "tadd"]), dst, rng.choice(have), rng.choice(have)])
            if dst not in have:
                have.append(dst)
        else:
            dst = max(have) + 1 if max(have) < 9 else rng.choice(have)
            ops.append(["copy", dst, rng.choice(have)])
            if dst not in have:
                have.append(dst)
    ops.append(["q", have[-1], "ba"])
    c = {"kind": "pseq", "cols": cols, "ops": ops, "family": "pseq:random"}
    if rng.random() < 0.15:
        c["type"] = rng.choice(["DOUBLE", "DOUBLE-0"])
    return c


# ---- table profiles: TableProfile + TableProfile with different column sets and different row counts


def _col(name, values, typ="INTEGER"):
    return [name, typ, list(values)]


TABLE_PAIRS = [
    # (left frame, right frame): the right one lacks a numeric column of the left one and is shorter / longer / as long
    ("right-lacks-shorter", [_col("a", [0, 3, 7, 9]), _col("b", [5, None, 2, 2])], [_col("a", [4, 1])]),
    ("right-lacks-longer", [_col("a", [4, 1]), _col("b", [5, 2])], [_col("a", [0, 3, 7, 9, 9, 2])]),
    ("right-lacks-equal", [_col("a", [4, 1, 0]), _col("b", [5, 2, 2])], [_col("a", [0, 3, 7])]),
    ("right-lacks-one-row", [_col("b", [0]), _col("a", [0])], [_col("a", [1, 2, 3])]),
    ("right-empty", [_col("a", [0, 3, 7]), _col("b", [-5, 0, None])], []),
    ("left-empty", [], [_col("a", [0, 3, 7])]),
    ("left-lacks", [_col("a", [4, 1])], [_col("b", [1, 1, 8, 0, None, 3]), _col("a", [-2, 0, 5, 5, 6, 1])]),
    ("different-positions", [_col("a", [0, 3, 7, 9]), _col("b", [5, None, 2, 2]), _col("c", [1, 1, 1, 2])],
     [_col("c", [0, 6]), _col("d", [3, 3]), _col("a", [8, -1])]),
    ("disjoint", [_col("a", [0, 1, 2]), _col("b", [7, 7, 9])], [_col("c", [1, 2, 3, 4, 5])]),
    # names that differ only in case / are not ASCII / contain a space: looked up by exact name
    ("look-alike-names", [_col("a", [0, 1, 2]), _col("A", [7, 7, 9]), _col("名前", [-3, 0, 3])], [_col("A", [1, 2, 3, 4]), _col("a ", [5, 5, 5, 5]), _col("名前", [9, None, 9, 1])]),
    ("text-first-on-the-right", [_col("a", [0, -3, -7]), _col("b", [2, 4, 6])], [_col("s", [1, 2, 3, 4, 5], "VARCHAR"), _col("b", [0, -4, -1, None, 9])]),
    ("text-first-on-the-left", [_col("s", [1, 2], "VARCHAR"), _col("f", [0, 1], "BOOLEAN"), _col("a", [0, 9])], [_col("f", [1, 1, 0], "BOOLEAN")]),
    ("all-null-on-the-left", [_col("a", [None, None]), _col("b", [1, 5])], [_col("b", [2, 3, 4])]),
    ("double", [_col("a", [0, 3, -7, 9], "DOUBLE-0"), _col("b", [5, None, 2, 2], "DOUBLE")], [_col("b", [4], "DOUBLE")]),
    ("many-values", [_col("a", list(range(0, 140, 2))), _col("b", [(i * 37) % 300 for i in range(70)])], [_col("b", [(i * 11) % 300 for i in range(90)])]),
    ("many-values-right-lacks", [_col("a", list(range(-80, 0))), _col("b", list(range(0, 240, 3)))], [_col("a", list(range(0, 90, 3)))]),
]


def table_patterns(first):
    return [
        ("add", [["tadd", 2, 0, 1], ["q", 2, first]]),
        ("radd", [["tadd", 2, 1, 0], ["q", 2, first]]),
        ("query-add-query", [["q", 0, first], ["tadd", 2, 0, 1], ["q", 2, first], ["q", 0]]),
        ("running", [["tadd", 0, 0, 1], ["q", 0, first], ["tadd", 0, 0, 1], ["q", 0], ["tadd", 0, 0, 0], ["q", 0, first]]),
        ("sum-of-sums", [["tadd", 2, 0, 1], ["tadd", 3, 1, 0], ["tadd", 4, 2, 3], ["q", 4, first], ["tadd", 5, 4, 2], ["q", 5]]),
        ("self", [["tadd", 2, 0, 0], ["q", 2, first]]),
        ("right-again", [["tadd", 2, 0, 1], ["q", 2, first], ["tadd", 3, 2, 1], ["q", 3]]),
        ("sum-on-the-right", [["tadd", 2, 1, 0], ["tadd", 3, 0, 2], ["q", 3, first], ["tadd", 4, 1, 3], ["q", 4]]),
    ]


def tseq_cases(ctx):
    for name, left, right in TABLE_PAIRS:
        big = sum(len(c[2]) for c in left + right) > 100
        for first in (("ba",) if big else ("ba", "ab", "at")):
            for pat, ops in table_patterns(first):
                if first != "ba" and pat not in ("add", "query-add-query", "running"):
                    continue
                yield {"kind": "tseq", "tables": [[list(c) for c in left], [list(c) for c in right]], "ops": [list(o) for o in ops],
                       "family": "tseq:" + pat, "pair": name}


def random_tseq_case(ctx):
    rng = ctx.rng
    ntab = rng.choice([2, 2, 3, 4])
    pool = ["a", "b", "c", "d"]
    typ_of = {n: ("INTEGER" if rng.random() < 0.8 else rng.choice(["DOUBLE", "DOUBLE", "VARCHAR", "BOOLEAN"])) for n in pool}
    tables = []
    for _ in range(ntab):
        rows = rng.choice([0, 1, 1, 2, 3, 5, 8, 20, 70])
        if rows == 0:
            tables.append([])
            continue
        names = rng.sample(pool, rng.choice([1, 2, 2, 3, 4]))
        cols = []
        for n in names:
            typ = typ_of[n] if typ_of[n] != "DOUBLE" else rng.choice(["DOUBLE", "DOUBLE-0"])
            shape = rng.choice(["small", "uniform", "negative", "zero-max", "zero-min", "nulls", "wide"])
            lo, hi = {"small": (0, 6), "uniform": (0, 1000), "negative": (-500, 50), "zero-max": (-40, 0), "zero-min": (0, 40),
                      "nulls": (0, 3), "wide": (-10**6, 10**6)}[shape]
            pnull = 1.0 if shape == "nulls" and rng.random() < 0.5 else rng.choice([0, 0, 0.2])
            vals = [None if rng.random() < pnull else rng.randint(lo, hi) for _ in range(rows)]
            if shape in ("zero-max", "zero-min"):
                vals[rng.randrange(rows)] = 0
            cols.append([n, typ, vals])
        tables.append(cols)
    have = list(range(ntab))
    ops = []
    for _ in range(rng.choice([2, 3, 4, 6, 8])):
        if rng.random() < 0.35 and ops:
            ops.append(["q", rng.choice(have), rng.choice(["ba", "ab", "at"])])
        else:
            dst = rng.choice(have + [max(have) + 1]) if max(have) < 9 else rng.choice(have)
            ops.append(["tadd", dst, rng.choice(have), rng.choice(have)])
            if dst not in have:
                have.append(dst)
    last = [o[1] for o in ops if o[0] == "tadd"]
    ops.append(["q", last[-1] if last else have[0], "ba"])
    return {"kind": "tseq", "tables": tables, "ops": ops, "family": "tseq:random"}


# ---- histogram objects: plain update() streams in every order, operands queried again after a `+`


def _scale_values(rng, ranks, fam):
    """Distinct ranks 0..n-1 -> values of one family (order preserving)."""
    if fam == "int":
        off, step = rng.choice([0, 1, -3, 10, 1000]), rng.choice([1, 1, 2, 7])
        return [float(off + step * r) for r in ranks]
    if fam == "negative":
        step = rng.choice([1, 3])
        return [float(-1 - step * (max(ranks) - r)) - (0 if rng.random() < 0.5 else 40) for r in ranks]
    if fam == "zero-max":
        return [float(r - max(ranks)) for r in ranks]
    if fam == "zero-min":
        return [float(r - min(ranks)) for r in ranks]
    if fam == "frac":
        return [0.125 * r - 0.5 for r in ranks]
    return [r * 1e6 + 0.5 for r in ranks]  # wide


FAMILIES = ["int", "int", "negative", "zero-max", "zero-min", "frac", "wide"]


def stream_order(rng, n, order):
    """Ranks 0..n-1 in a named order (the largest rank first, the stream descending, ...)."""
    r = list(range(n))
    if order == "ascending":
        return r
    if order == "descending":
        return r[::-1]
    if order == "largest-first":
        rest = r[:-1]
        rng.shuffle(rest)
        return [n - 1] + rest
    if order == "smallest-first":
        rest = r[1:]
        rng.shuffle(rest)
        return [0] + rest
    if order == "largest-first-ascending":
        return [n - 1] + r[:-1]
    if order == "largest-then-descending-then-up":
        return [n - 1] + r[: n // 2][::-1] + r[n // 2 : n - 1]
    if order == "zigzag":
        out, a, b = [], 0, n - 1
        while a <= b:
            out.append(b)
            if a != b:
                out.append(a)
            a, b = a + 1, b - 1
        return out
    if order == "largest-last":
        rest = r[:-1]
        rng.shuffle(rest)
        return rest + [n - 1]
    rng.shuffle(r)
    return r


ORDERS = ["ascending", "descending", "largest-first", "smallest-first", "largest-first-ascending", "largest-then-descending-then-up",
          "zigzag", "largest-last", "random"]


def as_mode(case):
    """Exact mode takes integers and [numerator, denominator] pairs: the float values of a generated program, exactly."""
    if case["mode"] != "q":
        return case
    def qv(v):
        if isinstance(v, list) or (isinstance(v, int) and not isinstance(v, bool)):
            return v
        f = Fraction(v)
        return f.numerator if f.denominator == 1 else [f.numerator, f.denominator]
    case["prog"] = [[o[0], o[1], qv(o[2]), o[3]] if o[0] == "upd" else [o[0], o[1], [qv(v) for v in o[2]], o[3]] if o[0] == "bulk" else
                    [o[0], o[1], o[2], qv(o[3]), o[4]] if o[0] == "rej" and o[2] == "count" else o
                    for o in case["prog"]]
    return case


def stream_prog(reg, cap, values, counts=None, q_every=0):
    prog = [["new", reg, cap]]
    for i, v in enumerate(values):
        prog.append(["upd", reg, v, 1 if counts is None else counts[i]])
        if q_every and (i + 1) % q_every == 0 and i + 1 < len(values):
            prog.append(["q", reg])
    prog.append(["q", reg])
    return prog


def hseq_stream_cases(ctx):
    """Histograms built by nothing but `update()`: every short stream over three values (every order, repeats, a single
    value, a constant stream) queried after every update; every order of four distinct values; named orders of longer
    streams (the largest value first, strictly descending, ...) below, at and above the bin limit."""
    rng = ctx.rng
    import itertools

    for n in (1, 2, 3):
        for seq in itertools.product((0, 1, 2), repeat=n):
            fam = rng.choice(FAMILIES)
            vals = _scale_values(rng, list(seq) + [0, 2], fam)[:n]
            for cap in (2, 8):
                yield as_mode({"kind": "hseq", "mode": "q" if (fam in ("int", "zero-max", "zero-min", "frac") and rng.random() < 0.25) else "f",
                       "family": "hseq:stream-exhaustive", "grid": 4, "levels": 4,
                       "prog": stream_prog(0, cap, [int(v) if float(v).is_integer() and rng.random() < 0.3 else v for v in vals], q_every=1)})
    for perm in itertools.permutations(range(4)):
        fam = rng.choice(FAMILIES)
        vals = _scale_values(rng, list(perm), fam)
        cap = rng.choice([2, 3, 8])
        yield as_mode({"kind": "hseq", "mode": "f", "family": "hseq:stream-permutation", "grid": 4, "levels": 4,
               "prog": stream_prog(0, cap, vals, q_every=rng.choice([1, 2]))})
    for order in ORDERS:
        for n, cap in ((7, 8), (7, 3), (12, 12), (13, 12), (60, 50), (9, 2), (50, 50), (51, 50)):
            # exactly at and one past the bin limit: 12 / 13 values at a limit of 12, 50 / 51 at the default 50
            if n >= 50 and rng.random() < (0.5 if order in ("largest-last", "smallest-first", "zigzag") else 0.25):
                continue
            fam = rng.choice(FAMILIES)
            vals = [_scale_values(rng, list(range(n)), fam)[r] for r in stream_order(rng, n, order)]
            counts = [rng.choice([1, 1, 1, 2, 5]) for _ in vals] if rng.random() < 0.4 else None
            yield as_mode({"kind": "hseq", "mode": "q" if (n <= 13 and fam != "wide" and rng.random() < 0.3) else "f", "family": "hseq:stream-" + order,
                   "grid": rng.choice([4, 16]), "levels": rng.choice([4, 16]),
                   "prog": stream_prog(0, cap, vals, counts, q_every=rng.choice([0, 0, n // 2 or 1]))})
    # numeric limits that are legal values: signed zeros, a subnormal next to zero, 2**53 and its neighbours, huge magnitudes
    for name, vals in (("signed-zero", [0.0, -0.0, 1.0, -0.0]), ("signed-zero", [-0.0, 0.0]), ("subnormal", [5e-324, 0.0, 1.0]), ("subnormal", [1.0, 5e-324]),
                       ("2**53", [2.0**53, 2.0**53 + 2, 2.0**53 - 1, 0.0]), ("huge", [1e150, -1e150, 0.0, 1e150]), ("huge", [-1e150, -3e149]),
                       ("tiny-spread", [1.0, 1.0 + 2.0**-52, 1.0 + 2.0**-51])):
        for cap in (2, 8):
            yield {"kind": "hseq", "mode": "f", "family": "hseq:stream-limits-" + name, "grid": 8, "levels": 8, "prog": stream_prog(0, cap, vals, q_every=1)}
    # the documented witness orders
    yield as_mode({"kind": "hseq", "mode": "f", "family": "hseq:stream-largest-first", "grid": 8, "levels": 8,
           "prog": stream_prog(0, 8, [9.0, 2.0, 5.0, 7.0, 3.0, 6.0, 4.0])})
    yield as_mode({"kind": "hseq", "mode": "f", "family": "hseq:stream-constant", "grid": 4, "levels": 4, "prog": stream_prog(0, 8, [5.0] * 4, q_every=1)})
    yield as_mode({"kind": "hseq", "mode": "f", "family": "hseq:stream-single", "grid": 4, "levels": 4, "prog": stream_prog(0, 50, [0.0])})
    yield as_mode({"kind": "hseq", "mode": "f", "family": "hseq:stream-single", "grid": 4, "levels": 4, "prog": stream_prog(0, 50, [-7.5], [3])})


# legal finite values at the numeric limit of float64: magnitudes whose differences, sums and products with a count overflow,
# the smallest subnormal and the smallest normal number, zero
LIMIT_VALUES = [1.7e308, -1.7e308, 8.9e307, -8.9e307, 0.0, 5e-324, -5e-324, 2.2e-308, -2.2e-308]
FLOAT_MAX = 1.7976931348623157e308


def limit_case(name, cap, vals, counts=None, q_every=1):
    return {"kind": "hseq", "mode": "f", "family": "hseq:limit-" + name, "extreme": True, "levels": 8,
            "prog": stream_prog(0, cap, [float(v) for v in vals], counts, q_every=q_every)}


def hseq_limit_cases(ctx):
    """Histories of plain `update()` over values at the numeric limit of float64 with the smallest bin limits: 2 and 3 (the
    smallest of C13's quantifier) and 1 (one below it - the constructor takes it and `_trim` then folds everything into one
    bin, however far apart the values are).  Every history of one and two values over LIMIT_VALUES with counts of 1, 2 and
    mixed, every history of three values with counts of 1 at the limits 1 and 2, sampled histories of four and five values;
    named histories: the largest finite float itself, gaps of one unit in the last place, heavy counts whose product with
    the value overflows.  Judged by the statement's clauses only (`extreme_round`)."""
    import itertools

    rng = ctx.rng
    for n in (1, 2):
        for seq in itertools.product(LIMIT_VALUES, repeat=n):
            for cap in (1, 2, 3):
                for counts in (None, [2] * n, [1, 3][:n]):
                    if n == 1 and counts is not None and cap != 1:
                        continue
                    yield limit_case("exhaustive", cap, seq, counts)
    for seq in itertools.product(LIMIT_VALUES, repeat=3):
        for cap in (1, 2):
            yield limit_case("exhaustive", cap, seq, None, q_every=0)
    for _ in range(ctx.scale(250, 3000)):
        n = rng.choice([3, 4, 4, 5])
        seq = [rng.choice(LIMIT_VALUES) for _ in range(n)]
        counts = None if rng.random() < 0.6 else [rng.choice([1, 1, 2, 3]) for _ in seq]
        yield limit_case("sampled", rng.choice([1, 2, 2, 3, 3]), seq, counts, q_every=rng.choice([0, 1]))
    up, dn = lambda v: math.nextafter(v, math.inf), lambda v: math.nextafter(v, -math.inf)
    named = [
        ("largest-float", [FLOAT_MAX, -FLOAT_MAX], None), ("largest-float", [-FLOAT_MAX, FLOAT_MAX, 0.0], None),
        ("largest-float", [FLOAT_MAX, dn(FLOAT_MAX), dn(dn(FLOAT_MAX))], None), ("largest-float", [-FLOAT_MAX, 0.0, 5e-324, FLOAT_MAX], None),
        ("one-ulp-gaps", [1.0, up(1.0), up(up(1.0))], None), ("one-ulp-gaps", [1e308, up(1e308), dn(1e308)], [1, 2, 1]),
        ("one-ulp-gaps", [0.0, 5e-324, 1e-323, -5e-324], None), ("one-ulp-gaps", [2.2250738585072014e-308, dn(2.2250738585072014e-308), 0.0], None),
        ("one-ulp-gaps", [-1.7e308, up(-1.7e308), 1.7e308, dn(1.7e308)], None),
        ("heavy-counts", [1e300, 1.1e300, -1e300], [10**9, 1, 1]), ("heavy-counts", [-1e300, 1e300, 1.7e308], [10**9, 10**9, 1]),
        ("heavy-counts", [1e300, 3e300, 2e300], [10**9, 10**9, 10**9]), ("heavy-counts", [-1.7e308, -1.6e308, 1.7e308], [2, 2, 1]),
        ("heavy-counts", [1e-300, 3e-300, 2e-300], [10**9, 10**9, 10**9]), ("heavy-counts", [5e-324, 0.0, 1e-323], [3, 1, 2**53]),
    ]
    for name, vals, counts in named:
        for cap in (1, 2, 3):
            yield limit_case(name, cap, vals, counts)
            if len(vals) > 2:
                yield limit_case(name, cap, vals[::-1], None if counts is None else counts[::-1])


def hseq_exact_hit_cases(ctx):
    """Query, then an update that only **grows an existing bin** (the value is a bin centre: no bin is added, merged or moved),
    then query again — anything an estimator derived from the bins at the first query (running totals, the total, a located
    bin) and kept must not answer the second one.  The hit arrives through `update()`, through `+` (the right operand's bins sit
    on the left operand's centres) and through `bulkload`; every bin in turn, weights above 1, at and below the bin limit."""
    rng = ctx.rng
    for n, cap in ((3, 8), (5, 8), (8, 8), (12, 12), (4, 50), (50, 50)):
        fam = rng.choice(FAMILIES)
        vals = _scale_values(rng, list(range(n)), fam)
        order = stream_order(rng, n, rng.choice(ORDERS))
        base = [["new", 0, cap]] + [["upd", 0, vals[r], 1] for r in order] + [["q", 0]]
        hits = list(range(n)) if n <= 12 else sorted(rng.sample(range(n), 6) + [0, n - 1])
        # every bin in turn, a query after each
        prog = list(base)
        for i in hits:
            prog += [["upd", 0, vals[i], rng.choice([1, 1, 3, 100])], ["q", 0]]
        yield as_mode({"kind": "hseq", "mode": "q" if (n <= 12 and fam != "wide" and rng.random() < 0.3) else "f", "family": "hseq:exact-hit-update",
                       "grid": 8, "levels": 8, "prog": prog})
        # through `+`: the right operand holds some of the same centres (its own object is asked too, before and after)
        some = [vals[i] for i in hits[:: 2]]
        prog = list(base) + [["new", 1, cap]] + [["upd", 1, v, 2] for v in some] + [["q", 1], ["add", 0, 0, 1], ["q", 0], ["q", 1],
                                                                                    ["add", 2, 1, 0], ["q", 2], ["q", 1]]
        yield as_mode({"kind": "hseq", "mode": "f", "family": "hseq:exact-hit-add", "grid": 8, "levels": 8, "prog": prog})
        if n <= 12:
            prog = list(base) + [["bulk", 0, [vals[i] for i in hits[1:]], "f8"], ["q", 0], ["upd", 0, vals[hits[0]], 5], ["q", 0]]
            yield as_mode({"kind": "hseq", "mode": "f", "family": "hseq:exact-hit-bulk", "grid": 8, "levels": 8, "prog": prog})


ADD_PAIRS = [
    # (left operand's values, right operand's values): the right one above, below, around, inside, equal, overlapping; empties; singles
    ([10, 12, 13, 15, 16, 18, 19, 20, 11, 14, 17, 20], [0, 3, 7, 22, 25, 31, 36, 40, 40, 2, 29]),
    ([10, 11, 12, 13], [20, 21, 22]), ([10, 11, 12, 13], [1, 2, 3]), ([10, 11, 12, 13], [11, 12]), ([10, 13], [5, 20]),
    ([1, 2, 3], [1, 2, 3]), ([0, 5], [3, 9]), ([5], [5]), ([5], [7]), ([7], [5]), ([], [1, 2, 3]), ([1, 2, 3], []), ([], []),
    ([-4, -2, 0], [-9, 0]), ([0, 1, 2], [-1]), ([3, 2, 1], [9, 8, 7, 6, 5, 4]), ([10, 10, 10, 11], [9.5]), ([2, 4, 6, 8, 10, 12], [13]),
    # a trimmed left operand (its first centre is right of its minimum) and a right operand just below its minimum
    ([10, 11, 11, 12, 14, 15, 17, 18, 19], [9.9]),
    # a right operand that is trimmed at the small bin limit (its extremes are not bin centres) and reaches beyond the left one,
    # with an extreme of exactly 0 (a falsy bound must still count)
    ([5, 6], [0, 1, 2, 3, 4, 7, 8, 9, 10]), ([-5, -6], [-9, -8, -7, -4, -3, -2, -1, 0]), ([3], [0, 1, 2, 4, 5, 6, 7, 8]),
]


def add_patterns(a, b, cap, out_lo, out_hi):
    """Sequences around one `c = a + b`: the operands are asked again afterwards, also after `c` was updated further."""
    mk = lambda r, vals: [["new", r, cap]] + [["upd", r, float(v), 1] for v in vals]
    base = mk(0, a) + mk(1, b)
    return [
        ("operands-after", base + [["q", 0], ["q", 1], ["add", 2, 0, 1], ["q", 2], ["q", 0], ["q", 1]]),
        ("operands-after-no-query-before", base + [["add", 2, 0, 1], ["q", 0], ["q", 1], ["q", 2]]),
        ("reversed", base + [["add", 2, 1, 0], ["q", 1], ["q", 0], ["q", 2]]),
        ("sum-updated-above", base + [["add", 2, 0, 1], ["upd", 2, float(out_hi), 1], ["q", 0], ["q", 2], ["q", 1]]),
        ("sum-updated-below", base + [["add", 2, 0, 1], ["upd", 2, float(out_lo), 2], ["q", 2], ["q", 0], ["q", 1]]),
        ("operand-updated", base + [["add", 2, 0, 1], ["upd", 0, float(out_hi), 1], ["q", 0], ["q", 2], ["upd", 1, float(out_lo), 1], ["q", 1], ["q", 2]]),
        ("chain", base + mk(3, [out_lo, out_hi]) + [["add", 2, 0, 1], ["add", 4, 2, 3], ["q", 0], ["q", 2], ["q", 4], ["q", 1], ["q", 3]]),
        ("running", base + mk(3, [out_hi]) + [["add", 0, 0, 1], ["q", 0], ["add", 0, 0, 3], ["q", 0], ["q", 1], ["q", 3]]),
    ] + ([] if not a else [
        # a dumped-and-loaded copy is its own object: updating either one must not show in the other
        ("dump-load-then-update", base + [["q", 0], ["dl", 2, 0], ["upd", 2, float(out_hi), 1], ["q", 0], ["q", 2], ["upd", 0, float(out_lo), 1], ["q", 2], ["q", 0]]),
        ("dump-load-then-add", base + [["dl", 2, 0], ["add", 3, 2, 1], ["q", 0], ["q", 3], ["q", 2], ["q", 1]]),
    ])


def hseq_add_cases(ctx):
    rng = ctx.rng
    for a, b in ADD_PAIRS:
        allv = [v for v in a + b] or [0]
        out_lo, out_hi = min(allv) - 3, max(allv) + 2.5
        for cap in (8, 3):
            for name, prog in add_patterns(a, b, cap, out_lo, out_hi):
                if cap == 3 and name in ("operands-after-no-query-before", "running") and rng.random() < 0.5:
                    continue
                yield as_mode({"kind": "hseq", "mode": "q" if (rng.random() < 0.15 and all(float(v).is_integer() for v in a + b)) else "f",
                       "family": "hseq:add-" + name, "grid": 8, "levels": 8, "prog": [list(o) for o in prog]})


def hseq_bulk_cases(ctx):
    """`bulkload` on an object that is asked before and after: below and above the direct-insert threshold (5 x the limit
    distinct values), onto an empty histogram and onto one that already holds values outside the batch's range; then updated
    and added further."""
    rng = ctx.rng
    for cap, n, span in ((8, 6, 10), (3, 12, 30), (2, 9, 9), (4, 60, 500), (8, 300, 4000), (50, 30, 30)):
        for where in ("empty", "after-lower", "after-higher", "inside"):
            kind = rng.choice(["i8", "f8", "list"])
            off = rng.choice([0, 0, -span, 1000, -7])
            vals = [float(off + rng.randint(0, span)) for _ in range(n)]
            if rng.random() < 0.5:
                vals[rng.randrange(n)] = float(off)  # the batch's minimum is `off` itself (0 in two of five draws)
            pre = {"empty": [], "after-lower": [min(vals) - 5.0, min(vals) - 2.0], "after-higher": [max(vals) + 1.5, max(vals) + 4.0],
                   "inside": [min(vals), (min(vals) + max(vals)) / 2]}[where]
            if kind == "i8":
                pre = [float(int(v)) for v in pre]
            prog = [["new", 0, cap]] + [["upd", 0, v, 1] for v in pre] + ([["q", 0]] if pre else []) + [["bulk", 0, vals, kind], ["q", 0]]
            prog += [["upd", 0, max(vals + pre) + 3.0, 2], ["q", 0], ["new", 1, cap], ["upd", 1, min(vals + pre) - 1.0, 1], ["add", 2, 1, 0], ["q", 2], ["q", 0], ["q", 1]]
            yield as_mode({"kind": "hseq", "mode": "q" if (len(set(vals)) <= 10 and rng.random() < 0.3) else "f", "family": "hseq:bulk-" + where,
                           "grid": 8, "levels": 8, "prog": prog})


REJECT_BASES = [
    # (bin limit, accepted stream): untrimmed, trimmed (the extremes are no bin centres), a single value, zero as an extreme, negative
    (8, [1.0, 2.0, 3.0, 4.0, 5.0, 6.0, 7.0, 8.0, 9.0, 10.0]), (8, [5.0, 2.0, 9.0]), (3, [4.0, 1.0, 7.0, 2.0, 9.0, 3.0, 6.0]), (2, [10.0, 20.0, 30.0, 40.0]),
    (8, [5.0]), (8, [0.0, 3.0, 6.0]), (8, [-6.0, -3.0, 0.0]), (50, [-20.5, -3.25, -11.0, -7.5]), (8, []),
]


def hseq_reject_cases(ctx):
    """Histories with **refused calls** between the accepted ones: `update` with a count of zero or below (the value far above /
    far below / one float above / one float below / inside the observed range, on a bin centre, at an extreme, zero), with a value
    that is no number, with a count that cannot be compared; `h + <no histogram>`; `h.bulkload(<no array>)`.  The caller catches
    the exception and carries on: asked directly afterwards, after further accepted updates, through a `+` that reads the
    operand's bounds, through dump() / load(), twice in a row, on an empty histogram that is filled afterwards."""
    import math

    rng = ctx.rng
    for cap, base in REJECT_BASES:
        lo, hi = (min(base), max(base)) if base else (0.0, 0.0)
        mid = base[len(base) // 2] if base else 1.0
        outside = [hi + 990.0, lo - 505.0, math.nextafter(hi, math.inf), math.nextafter(lo, -math.inf), hi + 0.5, lo - 0.5]
        inside = [mid, lo, hi, (lo + hi) / 2]
        values = outside + inside + ([0.0] if 0.0 not in outside + inside else [])
        mk = [["new", 0, cap]] + [["upd", 0, v, 1] for v in base]
        for i, v in enumerate(values):
            cnt = (0, -1, -3, 0, -1000)[i % 5]
            rej = ["rej", 0, "count", v, cnt]
            inner = (lo + hi) / 2 if base else 1.0
            pats = [
                ("asked-before-and-after", mk + ([["q", 0]] if base else []) + [rej, ["q", 0]]),
                ("asked-after", mk + [rej, ["q", 0]]),
                ("then-accepted-updates", mk + [rej, ["upd", 0, inner, 2], ["q", 0], ["upd", 0, inner + 0.25, 1], ["q", 0]]),
                ("first-call-on-the-object", [["new", 0, cap], rej] + mk[1:] + [["upd", 0, inner, 1], ["q", 0]]),
                ("twice", mk + [rej, ["rej", 0, "count", values[(i + 1) % len(values)], -2], ["q", 0]]),
                ("operand-of-a-sum", mk + [["new", 1, cap], ["upd", 1, inner, 1], rej, ["add", 2, 1, 0], ["q", 2], ["q", 0]]),
                ("receiver-of-a-sum", mk + [["new", 1, cap], ["upd", 1, inner, 1], rej, ["add", 2, 0, 1], ["q", 2], ["q", 1]]),
            ] + ([("dump-load", mk + [rej, ["dl", 1, 0], ["q", 1], ["q", 0]]),
                  ("same-value-accepted-later", mk + [rej, ["q", 0], ["upd", 0, v, 1], ["q", 0]])] if base else [])
            for name, prog in pats:
                if i >= 6 and name not in ("asked-after", "then-accepted-updates") and rng.random() < 0.6:
                    continue  # values inside the range: the leak-prone patterns always, the others sampled
                exact_ok = abs(v) < 1e6
                yield as_mode({"kind": "hseq", "mode": "q" if exact_ok and rng.random() < 0.25 else "f", "family": "hseq:refused-count-" + name,
                               "grid": 4, "levels": 4, "prog": [list(o) for o in prog]})
        # arguments of the wrong kind (float mode: the cast is what refuses a value that is no number)
        toks = [["rej", 0, "value", t, rng.choice([1, 3])] for t in REJ_VALUES] + [["rej", 0, "cnt", rng.choice(values), t] for t in REJ_COUNTS] \
            + [["rej", 0, "add", t, 0] for t in REJ_OPERANDS] + [["rej", 0, "bulk", t, 0] for t in REJ_BULK]
        for rej in toks:
            yield {"kind": "hseq", "mode": "f", "family": "hseq:refused-" + rej[2], "grid": 4, "levels": 4,
                   "prog": mk + ([["q", 0]] if base and rng.random() < 0.5 else []) + [rej, ["upd", 0, mid, 1], ["q", 0]]}
        yield {"kind": "hseq", "mode": "f", "family": "hseq:refused-mixed", "grid": 4, "levels": 4,
               "prog": mk + [list(t) for t in rng.sample(toks, 5)] + [["rej", 0, "count", hi + 7.0, 0], ["upd", 0, mid, 1], ["q", 0]]}


def random_hseq_case(ctx):
    rng = ctx.rng
    mode = "f" if rng.random() < 0.8 else "q"
    fam = rng.choice(["int", "int", "negative", "zero-max", "zero-min", "frac"] + ([] if mode == "q" else ["wide"]))
    nreg = rng.choice([1, 2, 2, 3])
    cap = rng.choice([2, 3, 5, 8, 50])
    pool = _scale_values(rng, list(range(rng.choice([3, 6, 12, 40]))), fam)
    prog = [["new", r, cap if rng.random() < 0.8 else rng.choice([2, 3, 5, 8])] for r in range(nreg)]
    names = list(range(nreg))
    alias = {r: r for r in names}
    filled = set()
    for r in names:
        order = rng.choice(ORDERS)
        n = rng.choice([0, 1, 1, 2, 3, 5, 9, 20])
        ranks = stream_order(rng, n, order) if n else []
        for k in ranks:
            prog.append(["upd", r, pool[k % len(pool)], rng.choice([1, 1, 1, 2, 4])])
            filled.add(alias[r])
    for _ in range(rng.choice([2, 4, 8, 14])):
        x = rng.random()
        if rng.random() < 0.15:
            # a refused call in between: any value, in or out of the range; in float mode also arguments of the wrong kind
            r = rng.choice(names)
            y = rng.random()
            if y < 0.7 or mode == "q":
                v = rng.choice(pool) if rng.random() < 0.3 else rng.choice([min(pool) - rng.choice([1, 0.5, 100]), max(pool) + rng.choice([1, 0.25, 100])])
                prog.append(["rej", r, "count", v, rng.choice([0, 0, -1, -7])])
            elif y < 0.8:
                prog.append(["rej", r, "value", rng.choice(REJ_VALUES), 1])
            elif y < 0.9:
                prog.append(["rej", r, "add", rng.choice(REJ_OPERANDS), 0])
            else:
                prog.append(["rej", r, "bulk", rng.choice(REJ_BULK), 0])
        if x < 0.4:
            prog.append(["q", rng.choice(names)])
        elif x < 0.7:
            r = rng.choice(names)
            v = rng.choice(pool) if rng.random() < 0.6 else rng.choice([min(pool) - rng.choice([1, 0.5, 100]), max(pool) + rng.choice([1, 0.25, 100])])
            prog.append(["upd", r, v, rng.choice([1, 1, 3])])
            filled.add(alias[r])
        elif x < 0.74:
            r = rng.choice(names)
            k = rng.choice([1, 3, 8, 25])
            vals = [rng.choice(pool) for _ in range(k)]
            if mode == "q" and len(set(vals)) > 10:
                continue
            prog.append(["bulk", r, vals, rng.choice(["f8", "f8", "list"])])
            filled.add(alias[r])
        elif x < 0.8 and max(names) < 7:
            src = rng.choice(names)
            if alias[src] not in filled:
                continue
            dst = max(names) + 1
            prog.append(["dl", dst, src])
            names.append(dst)
            alias[dst] = 100 + dst
            filled.add(alias[dst])
        elif len(names) > 1:
            a, b = rng.sample(names, 2)
            if alias[a] == alias[b]:
                continue
            if alias[b] in filled:
                filled.add(alias[a])
            dst = rng.choice(names + [max(names) + 1]) if max(names) < 7 else rng.choice(names)
            prog.append(["add", dst, a, b])
            alias[dst] = alias[a]
            if dst not in names:
                names.append(dst)
    for r in names:
        prog.append(["q", r])
    return as_mode({"kind": "hseq", "mode": mode, "family": "hseq:random", "grid": rng.choice([4, 8]), "levels": rng.choice([4, 8]), "prog": prog})


BOUNDARY = [
    # left tail of count_at: positive, large and negative centres
    {"kind": "hist", "mode": "f", "family": "boundary", "grid": 16, "levels": 16,
     "prog": [["new", 0, 3]] + [["upd", 0, float(v), 1] for v in (1000, 1001, 1002, 1003, 1004, 1005)]},
    {"kind": "hist", "mode": "f", "family": "boundary", "grid": 16, "levels": 16,
     "prog": [["new", 0, 3]] + [["upd", 0, float(v), 1] for v in (-1000, -1001, -1002, -1003, -1004, -1005)]},
    {"kind": "hist", "mode": "q", "family": "boundary", "grid": 16, "levels": 16,
     "prog": [["new", 0, 2]] + [["upd", 0, v, c] for v, c in ((0, 1), (1, 5), (10, 2), (11, 1), (30, 7))]},
    # a single value: min == max
    {"kind": "hist", "mode": "f", "family": "boundary", "grid": 4, "levels": 4, "prog": [["new", 0, 3], ["upd", 0, 5.0, 3]]},
    {"kind": "hist", "mode": "f", "family": "boundary", "grid": 4, "levels": 4, "prog": [["new", 0, 3]]},
    {"kind": "profile", "values": [5, 5, 5, None], "probes": [5], "family": "profile:boundary"},
    {"kind": "profile", "values": [0, 1, 2, 3, 10, None, 7, 7, 7, -4], "probes": [-4, -3.5, 0, 0.5, 7, 9.5, 10], "family": "profile:boundary"},
]


def run(ctx):
    ctx.note("rule", "histograms built by C13 programs on the real code, queried on grids derived from their own state; integer "
             "column profiles probed inside the observed range; non-trivial = at least one non-empty histogram or profile was queried")
    ctx.note("assumptions", [
        "Python's int() on total*value enters the model as a floor function (Float.floor / Rat.floor in the driver, a monotone parameter in the theorems)",
        "float results are compared and checked with relative tolerance 1e-9 (the property's 'up to rounding')",
        "for a histogram holding a single value (min = max) count_at returns 0 (the 'minimum' clause wins over the 'maximum' clause)",
        "numpy.histogram (left edges and counts of a column profile) is a parameter; the profile's bins and bounds are fed to the model as produced",
    ])
    # witnesses of repaired defects run as ordinary corpus cases (a reverted fix fails here first)
    for k in ctx.known:
        if k.get("status") == "fixed" and "witness" in k:
            w = core.unjson(k["witness"])
            w.setdefault("snap_every", 1)
            evaluate(ctx, [w])
            ctx.hit("corpus:fixed-finding-witness")
    evaluate(ctx, [dict(c) for c in BOUNDARY])
    # histogram objects: plain update() streams in every order, judged against the inserted values; operands after a `+`
    hs = list(hseq_limit_cases(ctx)) + list(hseq_reject_cases(ctx)) + list(hseq_stream_cases(ctx)) + list(hseq_exact_hit_cases(ctx)) + list(hseq_add_cases(ctx)) + list(hseq_bulk_cases(ctx))
    ctx.note("histogram_object_sequence_cases", len(hs))
    for i in range(0, len(hs), 80):
        if ctx.violations:
            break
        evaluate(ctx, hs[i : i + 80])
    # sequences first: a case that uses several profile objects is self-contained, so state an implementation shares between
    # objects shows up here as a replay that fails in a fresh process too
    seqs = list(seq_cases(ctx))
    ctx.note("profile_sequence_cases", len(seqs))
    for i in range(0, len(seqs), 60):
        if ctx.violations:
            break
        evaluate(ctx, seqs[i : i + 60])
    # table-level sums: different column sets, different row counts, sums of sums
    tsq = list(tseq_cases(ctx))
    ctx.note("table_profile_sequence_cases", len(tsq))
    for i in range(0, len(tsq), 60):
        if ctx.violations:
            break
        evaluate(ctx, tsq[i : i + 60])
    sents = list(sentinel_cases(ctx, ctx.scale(20, 300)))
    ctx.note("profile_sentinel_cases", len(sents))
    for i in range(0, len(sents), 100):
        if ctx.violations:
            break
        evaluate(ctx, sents[i : i + 100])
    cuts = list(cut_cases(ctx, ctx.scale(25, 400)))
    ctx.note("profile_cut_cases", len(cuts))
    for i in range(0, len(cuts), 100):
        evaluate(ctx, cuts[i : i + 100])
    for _ in range(ctx.scale(2, 12)):
        evaluate(ctx, list(big_frame_cases(ctx)))
    n_h = ctx.scale(900, 12000)
    n_p = ctx.scale(150, 2500)
    done_h = done_p = done_s = done_o = 0
    while (done_h < n_h or done_p < n_p) and ctx.time_left() > ctx.scale(5, 170) and not ctx.violations:
        cases = [random_hist_case(ctx) for _ in range(60)] if done_h < n_h else []
        done_h += len(cases)
        if done_p < n_p:
            cases += ([random_profile_case(ctx) for _ in range(10)] + [random_pseq_case(ctx) for _ in range(4)] + [random_hseq_case(ctx) for _ in range(8)]
                      + [random_tseq_case(ctx) for _ in range(3)])
            done_p += 10
            done_s += 4
            done_o += 8
        evaluate(ctx, cases)
    flush_pending(ctx)
    ctx.note("random_histogram_cases", done_h)
    ctx.note("random_profile_cases", done_p)
    ctx.note("random_profile_sequence_cases", done_s)
    ctx.note("random_histogram_object_sequence_cases", done_o)


def intensify(ctx):
    n = 0
    while ctx.time_left() > 5 and n < 2000 and not ctx.violations:
        evaluate(ctx, [random_hist_case(ctx) for _ in range(50)] + [random_profile_case(ctx) for _ in range(10)] + [random_pseq_case(ctx) for _ in range(10)]
                 + [random_hseq_case(ctx) for _ in range(20)] + [random_tseq_case(ctx) for _ in range(10)])
        n += 90
    flush_pending(ctx)


def replay(ctx, case):
    evaluate(ctx, [case])


def _k01(case, failure):
    """C14-K01: count_at's left tail (min < x <= first centre) is scaled by the first centre's value
    instead of its count.  Matches only that branch and only that arithmetic: a bound / monotonicity failure
    (never a None, an exception or a wrong sum) in which (a) a left-tail point of a histogram whose first centre
    is neither the minimum nor within [0, first count] is involved, (b) every left-tail value involved is the
    number `ratio * v0 / 2` the branch computes as it stands, and (c) the failure disappears when those values
    are replaced by the intended `ratio * f0 / 2`."""
    d = failure.get("detail") or {}
    clause = str(failure.get("clause", ""))
    if not (clause.startswith("count_at: estimate") or clause.startswith("profile: estimate")) or "None" in clause:
        return False
    if isinstance(d, dict) and d.get("no_trim"):
        # no `+` behind this profile could have trimmed: its first bin is at its minimum (C14.small_sum_keeps_first_bin_at_minimum,
        # C14.one_batch_profile_ok) and a left tail cannot exist - whatever fails here is not this finding
        return False
    if isinstance(case, dict) and case.get("kind") == "profile" and isinstance(case.get("values"), list) and len(case["values"]) <= 25000:
        # the profile of ONE batch: numpy's first left edge is the data minimum and the minimum falls into the first bin, so the
        # first bin is at the minimum and there is no left tail (C14.one_batch_profile_ok) - whatever fails here is not this finding
        return False
    if not isinstance(d, dict) or not d.get("left_tail"):
        return False
    lo, v0, f0 = d.get("min"), d.get("first_centre"), d.get("first_count")
    if lo is None or v0 is None or f0 is None or lo == v0 or 0 <= v0 <= f0:
        return False
    if "x1" in d:
        pts = [(d["x1"], d.get("r1")), (d["x2"], d.get("r2"))]
    else:
        pts = [(d.get("x"), d.get("got"))]
    flags = d.get("left_pts")  # which of the points the oracle (in exact arithmetic) placed in the left tail
    as_is, meant = d.get("left_as_is"), d.get("left_meant")  # the branch's value as it stands / as intended, computed exactly
    if not all(isinstance(l, list) and len(l) == len(pts) for l in (flags, as_is, meant)) or not any(flags):
        return False
    if any(x is None or r is None for x, r in pts):
        return False
    total = d.get("total", d.get("non_null"))
    scale = max(1.0, abs(float(total)) if total is not None else 1.0)
    repaired = []
    for (x, r), left, a, m in zip(pts, flags, as_is, meant):
        if left:
            if a is None or m is None or abs(r - a) > 1e-9 * max(scale, abs(a)):
                return False  # not the value this branch computes: something else is wrong
            repaired.append(m)
        else:
            repaired.append(r)
    tol = 1e-9 * scale
    if "x1" in d:
        return repaired[0] <= repaired[1] + tol
    return total is None or -tol <= repaired[0] <= float(total) + tol


def _limit_detail_state_ok(d):
    """Recomputed from the failure detail: the histogram object is a finite, consistent image of the inserted values."""
    bins, lo, hi, total, rep = d.get("bins"), d.get("min"), d.get("max"), d.get("total"), d.get("reported")
    if not isinstance(bins, list) or not bins or len(bins) >= 8 or not all(isinstance(x, (int, float)) for x in (lo, hi, total)):
        return False
    if not all(isinstance(b, list) and len(b) == 2 and _finite(b[0]) and isinstance(b[1], int) and b[1] > 0 for b in bins):
        return False
    if not (_finite(lo) and _finite(hi)) or rep != [lo, hi, sum(b[1] for b in bins)] or sum(b[1] for b in bins) != total:
        return False
    cents = [b[0] for b in bins]
    return all(a < b for a, b in zip(cents, cents[1:])) and lo <= cents[0] and cents[-1] <= hi


def _k02(case, failure):
    """C14-K02: count_at / quantile form differences and products of centres, bounds and counts in float64; when
    total x (max - min) exceeds the largest finite float an intermediate overflows and the answer is inf or NaN.  Matches only
    an answer that IS inf / NaN, given by an estimator of a histogram object that is itself a finite, consistent image of the
    inserted values (finite increasing centres inside the true [min, max], counts adding up) - a centre that is inf or NaN, a
    wrong bound, a finite answer out of bounds or out of order is something else - and only in that class of input."""
    d = failure.get("detail") or {}
    clause = str(failure.get("clause", ""))
    if clause not in ("quantile: estimate is not a number", "quantile: estimate outside [min, max]",
                      "count_at: estimate is not a number", "count_at: estimate outside [0, total]"):
        return False
    if not isinstance(case, dict) or case.get("kind") != "hseq" or not case.get("extreme") or not isinstance(d, dict) or d.get("non_finite") is not True:
        return False
    got = d.get("got")
    if not isinstance(got, float) or math.isfinite(got):
        return False
    if not _limit_detail_state_ok(d):
        return False
    if Fraction(d["total"]) * (Fraction(d["max"]) - Fraction(d["min"])) > MAXF:
        return True  # a count times a difference of values can overflow
    # ... or a difference of counts divided by a (subnormal) gap between two centres - the slope of the interior trapezoid
    cents = [Fraction(b[0]) for b in d["bins"]]
    return len(cents) > 1 and Fraction(d["total"]) / min(b - a for a, b in zip(cents, cents[1:])) > MAXF


def _k03(case, failure):
    """C14-K03: the merged centre of two bins is (v1*f1 + v2*f2) / (f1 + f2); when both products overflow with opposite signs
    the sum is inf - inf = NaN, the clamp passes NaN through, and every estimate read off that bin is NaN.  Matches only a
    histogram with a NaN centre (an infinite centre is something else) in a history whose inserted weight can overflow on
    both sides: the sum of value x count over the positive values and over the negative values each exceed the largest float."""
    d = failure.get("detail") or {}
    if not isinstance(case, dict) or case.get("kind") != "hseq" or not case.get("extreme") or not isinstance(d, dict):
        return False
    bins = d.get("bins")
    if not isinstance(bins, list) or not any(isinstance(b, list) and isinstance(b[0], float) and b[0] != b[0] for b in bins):
        return False
    if any(isinstance(b[0], float) and abs(b[0]) == math.inf for b in bins):
        return False
    clause = str(failure.get("clause", ""))
    if not (clause.startswith("state: a bin centre is not a finite number") or clause in ("quantile: estimate is not a number", "count_at: estimate is not a number")):
        return False
    upto = d.get("op", len(case["prog"]))
    pos = sum(Fraction(o[2]) * o[3] for o in case["prog"][: upto + 1] if o[0] == "upd" and o[1] == d.get("reg") and o[2] > 0)
    neg = sum(-Fraction(o[2]) * o[3] for o in case["prog"][: upto + 1] if o[0] == "upd" and o[1] == d.get("reg") and o[2] < 0)
    return pos > MAXF and neg > MAXF


KNOWN_PREDICATES = {"count_at_left_tail_uses_value": _k01, "estimator_overflow_at_float_limit": _k02, "merged_centre_nan_when_products_overflow": _k03}
